------------------------------------------------- MODULE Params -------------------------------------------------
(* The DOCUMENTED domain of every hyper-parameter of GemClus (C16): 18 estimators, 7 GEMINI constructors and the  *)
(* validated functions.  This module is a table specification: it is transcribed from the class / function         *)
(* docstrings (never from `_parameter_constraints`, which is the code under test) and says, for a configuration,  *)
(* whether the documentation makes it legal ("accept"), illegal ("reject") or leaves it open ("unspecified").      *)
(*                                                                                                              *)
(* (a) VALUE UNIVERSE.  Concrete Python values are abstracted to REPRESENTATIVES: records with an id, a type tag  *)
(*     and the attributes the domains look at.  Numbers carry cmp = 2000 * value (so 1e-3 is 2 and every           *)
(*     documented default is exact) and the representative `float_tiny` (1e-12) has cmp = 1: strictly between 0  *)
(*     and every positive bound or default.  Deliberately NOT judged (verdict "unspecified"): a bool where an int *)
(*     or a real is documented (Python's True is an int), an integer-valued float where an int is documented      *)
(*     (3.0), 0/1 where a bool is documented, +inf where a real without upper bound is documented.  numpy scalar  *)
(*     types are not in the universe at all.                                                                    *)
(* (b) DOMAINS are unions of alternatives: integer interval, real interval (ints are reals, bools are not),       *)
(*     one of a set of option strings, bool, None, instance of a class family, boolean mask of length n_features, *)
(*     feature groups (module Groups).                                                                          *)
(* (c) TABLES: per class / function, parameter -> [domain, unspecified representatives, baseline, default].        *)
(*     Where a docstring gives a type but no bound ("learning_rate: float") the domain is the mathematically       *)
(*     necessary one and the representative sitting on the unclear boundary is listed in `unspec`.                *)
(* (d) COMBINATION RULES: Kauri "the logical constraint min_samples_leaf*2 <= min_samples_split must be            *)
(*     satisfied"; Douglas feature_mask "array of boolean [shape d]"; groups (Groups.tla); n_clusters <= number of *)
(*     training samples (property C16: "fewer samples than the requested n_clusters is rejected").                *)
(* (e) Expected(cls, assignment) \in {"accept", "reject", "unspecified"}.                                          *)
(*                                                                                                              *)
(* TLC enumerates, per class: the default configuration (the bare constructor), the baseline (cheap valid values), *)
(* every ONE-PARAMETER-OFF configuration (one parameter takes every representative of the universe, the others    *)
(* stay at the baseline), the pairs needed by the combination rules, every malformed-data class and every         *)
(* use-before-fit, and prints one JSON line per case; the harness replays each line into the real code.           *)
EXTENDS Integers, Sequences, FiniteSets, TLC, Json

CONSTANTS CLASSES    \* indices (into Classes) of the classes explored by this run; one work chunk per class

VARIABLES ph, chunk, cs
vars == <<ph, chunk, cs>>

NFEAT == 3           \* features of the tiny training set the harness uses
NSAMP == 6           \* its number of samples

GR == INSTANCE Groups WITH D <- NFEAT, MAXG <- 3, MAXL <- 3, NCH <- 1, CHUNKS <- {0},
                           gph <- "none", gchunk <- 0, glist <- <<>>

--------------------------------------------------------------------------------------------------------------
(* (a) the value universe                                                                                       *)
R0 == [id |-> "", type |-> "", cmp |-> 0, fin |-> TRUE, nan |-> FALSE, s |-> "", len |-> 0, g |-> <<>>]
Num(id, ty, c) == [R0 EXCEPT !.id = id, !.type = ty, !.cmp = c]
I(n) == Num("int", "int", 2000 * n)                    \* an int that is not a universe member (documented defaults)
F(c) == Num("float", "float", c)                       \* a float given by its cmp
Obj(id, ty) == [R0 EXCEPT !.id = id, !.type = ty]
Str(s) == [R0 EXCEPT !.id = "str_" \o s, !.type = "str", !.s = s]
Mask(id, l) == [R0 EXCEPT !.id = id, !.type = "ndarray_bool", !.len = l]
Lol(id, g) == [R0 EXCEPT !.id = id, !.type = "lol", !.g = g]
NoneR == Obj("none", "none")
BoolT == [R0 EXCEPT !.id = "bool_true", !.type = "bool", !.cmp = 2000]
BoolF == [R0 EXCEPT !.id = "bool_false", !.type = "bool", !.cmp = 0]

IntReps == {Num("int_neg1", "int", -2000), Num("int_0", "int", 0), Num("int_1", "int", 2000), Num("int_2", "int", 4000),
            Num("int_3", "int", 6000), Num("int_4", "int", 8000), Num("int_7", "int", 14000)}
FloatReps == {Num("float_neg", "float", -1000),        \* -0.5
              Num("float_0", "float", 0), Num("float_tiny", "float", 1), Num("float_half", "float", 1000),
              Num("float_1", "float", 2000), Num("float_1_5", "float", 3000), Num("float_2", "float", 4000),
              [Num("float_inf", "float", 2000000000) EXCEPT !.fin = FALSE],
              [Num("nan", "float", 0) EXCEPT !.nan = TRUE]}

Kernels == {"additive_chi2", "chi2", "cosine", "linear", "poly", "polynomial", "rbf", "laplacian", "sigmoid"}
KernelsPre == Kernels \cup {"precomputed"}
Metrics == {"cosine", "euclidean", "l2", "l1", "manhattan", "cityblock"}
MetricsPre == Metrics \cup {"precomputed"}
(* gemclus.gemini.AVAILABLE_GEMINIS as listed in the user guide *)
Geminis == {"mmd_ova", "mmd_ovo", "wasserstein_ova", "wasserstein_ovo", "kl_ova", "kl_ovo", "mi", "tv_ova", "tv_ovo",
            "hellinger_ova", "hellinger_ovo", "chi2_ova", "chi2_ovo"}
Solvers == {"sgd", "adam"}
(* strings no docstring lists: a generic one and two that scikit-learn's PAIRWISE_DISTANCE_FUNCTIONS knows *)
Undocumented == {"no_such_option", "haversine", "nan_euclidean"}
StrReps == {Str(s) : s \in KernelsPre \cup MetricsPre \cup Geminis \cup Solvers \cup Undocumented}

ObjReps == {NoneR, BoolT, BoolF,
            Obj("list", "list"),                        \* [0, 1]
            Obj("dict", "dict"),                        \* {}
            Obj("callable", "callable"),                \* f(X, Y=None) -> X @ Y.T
            Mask("ndarray_bool_len_d_minus_1", NFEAT - 1), Mask("ndarray_bool_len_d", NFEAT),
            Mask("ndarray_bool_len_d_plus_1", NFEAT + 1),
            Obj("gemini_instance", "gemini"),           \* MMDGEMINI()
            Obj("rng_instance", "rng"),                 \* numpy.random.RandomState(0)
            Obj("model_instance", "model"),             \* an unfitted LinearModel
            Obj("kauri_fitted", "kauri"), Obj("kauri_unfitted", "kauri_unfitted"),
            Obj("names_len_d", "names"),                \* ["f0", "f1", "f2"]
            Lol("lol_partition", << <<0, 1>>, <<2>> >>), Lol("lol_partial", << <<1>> >>),
            Lol("lol_overlap", << <<0, 1>>, <<1, 2>> >>), Lol("lol_out_of_range", << <<0, NFEAT>> >>),
            Lol("lol_empty", <<>>)}

Universe == IntReps \cup FloatReps \cup StrReps \cup ObjReps
ById(id) == CHOOSE r \in Universe : r.id = id

--------------------------------------------------------------------------------------------------------------
(* (b) domain alternatives                                                                                      *)
A0 == [k |-> "", lo |-> 0, hi |-> 0, hasLo |-> FALSE, hasHi |-> FALSE, lc |-> FALSE, hc |-> FALSE, opts |-> {}, t |-> ""]
IntGe(lo) == [A0 EXCEPT !.k = "int", !.lo = 2000 * lo, !.hasLo = TRUE, !.lc = TRUE]
RealGe(lo) == [A0 EXCEPT !.k = "real", !.lo = 2000 * lo, !.hasLo = TRUE, !.lc = TRUE]
RealGt(lo) == [A0 EXCEPT !.k = "real", !.lo = 2000 * lo, !.hasLo = TRUE, !.lc = FALSE]
RealAny == [A0 EXCEPT !.k = "real"]
RealOpen(lo, hi) == [A0 EXCEPT !.k = "real", !.lo = 2000 * lo, !.hi = 2000 * hi, !.hasLo = TRUE, !.hasHi = TRUE]
OneOf(S) == [A0 EXCEPT !.k = "str", !.opts = S]
BoolD == [A0 EXCEPT !.k = "bool"]
NoneD == [A0 EXCEPT !.k = "none"]
Inst(t) == [A0 EXCEPT !.k = "inst", !.t = t]
MaskD == [A0 EXCEPT !.k = "mask"]
GroupsD == [A0 EXCEPT !.k = "groups"]

NumIn(a, c) == /\ (a.hasLo => IF a.lc THEN a.lo <= c ELSE a.lo < c)
               /\ (a.hasHi => IF a.hc THEN c <= a.hi ELSE c < a.hi)
IntegerValued(r) == r.fin /\ ~r.nan /\ r.cmp % 2000 = 0

Judge1(a, r) ==
    CASE a.k = "int" ->
            IF r.type = "int" THEN (IF NumIn(a, r.cmp) THEN "accept" ELSE "reject")
            ELSE IF r.type = "float" /\ IntegerValued(r) /\ NumIn(a, r.cmp) THEN "unspecified"     \* 3.0 for an int
            ELSE IF r.type = "bool" /\ NumIn(a, r.cmp) THEN "unspecified"                          \* True for an int
            ELSE "reject"
      [] a.k = "real" ->
            IF r.type \in {"int", "float"} THEN
                IF r.nan THEN "reject"                                                           \* NaN is in no interval
                ELSE IF ~r.fin THEN (IF a.hasHi THEN "reject" ELSE "unspecified")                  \* +inf
                ELSE IF NumIn(a, r.cmp) THEN "accept" ELSE "reject"
            ELSE IF r.type = "bool" /\ NumIn(a, r.cmp) THEN "unspecified"
            ELSE "reject"
      [] a.k = "str" -> IF r.type = "str" /\ r.s \in a.opts THEN "accept" ELSE "reject"
      [] a.k = "bool" -> IF r.type = "bool" THEN "accept"
                         ELSE IF r.type = "int" /\ r.cmp \in {0, 2000} THEN "unspecified" ELSE "reject"
      [] a.k = "none" -> IF r.type = "none" THEN "accept" ELSE "reject"
      [] a.k = "inst" -> IF r.type = a.t THEN "accept"
                         ELSE IF a.t = "callable" /\ r.type = "gemini" THEN "unspecified"   \* a GEMINI object has __call__
                         ELSE "reject"
      [] a.k = "mask" -> IF r.type = "ndarray_bool" /\ r.len = NFEAT THEN "accept" ELSE "reject"
      [] a.k = "groups" -> IF r.type = "lol" THEN GR!Verdict(r.g, NFEAT) ELSE "reject"

(* a parameter: name, domain (set of alternatives), representatives on an unclear boundary, baseline id, default *)
P(name, dom, unspec, base, def) == [name |-> name, dom |-> dom, unspec |-> unspec, base |-> base, def |-> def]
(* an int listed as unclear stays unclear when the same number is spelled as a float or a bool (0, 0.0, False) *)
SameNumber(p, r) == /\ r.type \in {"float", "bool"} /\ r.fin /\ ~r.nan
                    /\ \E u \in IntReps : u.id \in p.unspec /\ u.cmp = r.cmp
JudgeParam(p, r) ==
    IF r.id \in p.unspec \/ SameNumber(p, r) THEN "unspecified"
    ELSE LET vs == {Judge1(a, r) : a \in p.dom}
         IN IF "accept" \in vs THEN "accept" ELSE IF "unspecified" \in vs THEN "unspecified" ELSE "reject"

--------------------------------------------------------------------------------------------------------------
(* (c) the tables.  Quoted phrases are the docstrings.                                                           *)
Zero == {"int_0", "float_0"}

(* "n_clusters : int, default=3  The maximum number of clusters to form as well as the number of output neurons" *)
PNClusters == P("n_clusters", {IntGe(1)}, {}, "int_2", I(3))
(* "gemini: str, GEMINI instance or None, default="mmd_ova" [...] Can be "mmd_ova", "mmd_ovo", "wasserstein_ova",  *)
(*  "wasserstein_ovo", "mi" or other GEMINI available in `gemclus.gemini.AVAILABLE_GEMINI`. [...] a GEMINI can also *)
(*  be passed as an instance. If set to None, the GEMINI will be MMD OvA with linear kernel."                      *)
PGemini(def) == P("gemini", {OneOf(Geminis), Inst("gemini"), NoneD}, {}, "str_mmd_ova", Str(def))
(* "max_iter: int, default=1000  Maximum number of epochs to perform gradient descent in a single run."           *)
(* zero epochs is a degenerate but meaningful maximum: unspecified; a negative count is not a count.              *)
PMaxIter(def) == P("max_iter", {IntGe(1)}, {"int_0"}, "int_2", I(def))
(* "learning_rate: float, default=1e-3  Initial learning rate used. It controls the step-size in updating the      *)
(*  weights."  A step size is positive; whether 0 (no update) is legal is not said.                               *)
PLearningRate(defcmp) == P("learning_rate", {RealGt(0)}, Zero, "float_half", F(defcmp))
(* "solver: {'sgd','adam'}, default='adam'" *)
PSolver == P("solver", {OneOf(Solvers)}, {}, "str_adam", Str("adam"))
(* "batch_size: int, default=None  The size of batches during gradient descent training. If set to None, the whole  *)
(*  data will be considered."  A batch holds at least one sample.                                                 *)
PBatchSize == P("batch_size", {IntGe(1), NoneD}, {}, "none", NoneR)
(* "verbose: bool, default=False" *)
PVerbose == P("verbose", {BoolD}, {}, "bool_false", BoolF)
(* "random_state: int, RandomState instance, default=None [...] Pass an int for reproducible results"               *)
(* whether a negative int is a seed is not said (numpy refuses it).                                               *)
PRandomState == P("random_state", {IntGe(0), Inst("rng"), NoneD}, {"int_neg1"}, "int_0", NoneR)
(* "kernel: {'additive_chi2', 'chi2', 'cosine','linear','poly','polynomial','rbf','laplacian','sigmoid',           *)
(*  'precomputed'}, default='linear'"  The estimators' docstrings never mention a callable (the GEMINI classes'    *)
(*  docstrings do): unspecified there, and so is a GEMINI object (it has __call__, so it is a callable too).      *)
PKernel == P("kernel", {OneOf(KernelsPre)}, {"callable", "gemini_instance"}, "str_linear", Str("linear"))
(* "kernel_params: dict, default=None  A dictionary of keyword arguments to pass to the chosen kernel function."   *)
PKernelParams == P("kernel_params", {Inst("dict"), NoneD}, {}, "none", NoneR)
(* "ovo: bool, default=False" *)
POvo == P("ovo", {BoolD}, {}, "bool_false", BoolF)
(* "metric: {'cosine', 'euclidean', 'l2','l1','manhattan','cityblock', 'precomputed'}, default='euclidean'  [...]    *)
(*  It corresponds to one value of `PAIRED_DISTANCES`."                                                           *)
PMetric == P("metric", {OneOf(MetricsPre)}, {"callable", "gemini_instance"}, "str_euclidean", Str("euclidean"))
(* "metric_params: dict, default=None" *)
PMetricParams == P("metric_params", {Inst("dict"), NoneD}, {}, "none", NoneR)
(* "reg: float, default=0.1  Regularisation hyperparameter for the $\ell_2$ weight penalty."  A penalty weight is    *)
(*  non-negative; whether 0 (no penalty) is legal is not said.                                                    *)
PReg == P("reg", {RealGe(0)}, Zero, "float_half", F(200))
(* "base_kernel: {'additive_chi2', 'chi2', 'cosine','linear','poly','polynomial','rbf','laplacian','sigmoid'}, or    *)
(*  callable, default='linear'"  (no 'precomputed' here)                                                          *)
PBaseKernel == P("base_kernel", {OneOf(Kernels), Inst("callable")}, {}, "str_linear", Str("linear"))
(* "base_kernel_params: dict, default=None" *)
PBaseKernelParams == P("base_kernel_params", {Inst("dict"), NoneD}, {}, "none", NoneR)
(* "n_hidden_dim: int, default=20  The number of neurons in the hidden layer of the neural network."                *)
PNHidden == P("n_hidden_dim", {IntGe(1)}, {}, "int_2", I(20))
(* "groups: list of arrays of various shapes, default=None  If groups is set, it must describe a partition of the    *)
(*  indices of variables. [...]" -> module Groups                                                                *)
PGroups == P("groups", {GroupsD, NoneD}, {}, "none", NoneR)
(* "alpha: float, default=1e-2  The weight of the group-lasso penalty in the optimisation scheme."  path() trains    *)
(*  with alpha = 0 first, so 0 is a legal weight.                                                                 *)
PAlpha == P("alpha", {RealGe(0)}, {}, "float_half", F(20))
(* "dynamic: bool, default=False" *)
PDynamic == P("dynamic", {BoolD}, {}, "bool_false", BoolF)
(* "M: float, default=10 The hierarchy coefficient that controls the relative strength between the group-lasso        *)
(*  penalty of the skip connection and the sparsity of the first layer of the MLP."  (|W1_j| <= M |skip_j|): M >= 0,  *)
(*  whether M = 0 (first layer forced to zero) is legal is not said.                                               *)
PM == P("M", {RealGe(0)}, Zero, "float_1", I(10))

LinearModelT == <<PNClusters, PGemini("mmd_ova"), PMaxIter(1000), PLearningRate(2), PSolver, PBatchSize, PVerbose, PRandomState>>
LinearMMDT == <<PNClusters, PMaxIter(1000), PLearningRate(2), PSolver, PKernel, POvo, PBatchSize, PVerbose, PRandomState,
                PKernelParams>>
LinearWassersteinT == <<PNClusters, PMaxIter(1000), PLearningRate(2), PMetric, POvo, PSolver, PBatchSize, PVerbose,
                        PRandomState, PMetricParams>>
RIMT == <<PNClusters, PMaxIter(1000), PLearningRate(2), PReg, PSolver, PBatchSize, PVerbose, PRandomState>>
KernelRIMT == RIMT \o <<PBaseKernel, PBaseKernelParams>>
MLPModelT == <<PNClusters, PGemini("mmd_ova"), PMaxIter(1000), PLearningRate(2), PSolver, PNHidden, PBatchSize, PVerbose,
               PRandomState>>
MLPMMDT == <<PNClusters, PMaxIter(1000), PLearningRate(2), PNHidden, PKernel, POvo, PSolver, PBatchSize, PVerbose,
             PRandomState, PKernelParams>>
MLPWassersteinT == <<PNClusters, PMaxIter(1000), PLearningRate(2), PNHidden, PMetric, POvo, PSolver, PBatchSize, PVerbose,
                     PRandomState, PMetricParams>>
SparseLinearModelT == <<PNClusters, PGemini("mmd_ova"), PGroups, PMaxIter(1000), PLearningRate(2), PAlpha, PBatchSize,
                        PDynamic, PSolver, PVerbose, PRandomState>>
SparseLinearMMDT == <<PNClusters, PGroups, PMaxIter(1000), PLearningRate(2), PKernel, POvo, PAlpha, PDynamic, PSolver,
                      PBatchSize, PVerbose, PRandomState, PKernelParams>>
SparseLinearMIT == <<PNClusters, PGroups, PMaxIter(1000), PLearningRate(2), PAlpha, PSolver, PBatchSize, PVerbose,
                     PRandomState>>
SparseMLPModelT == <<PNClusters, PGemini("mmd_ova"), PGroups, PMaxIter(1000), PLearningRate(2), PNHidden, PM, PAlpha,
                     PDynamic, PSolver, PBatchSize, PVerbose, PRandomState>>
SparseMLPMMDT == <<PNClusters, PGroups, PMaxIter(1000), PLearningRate(2), PNHidden, PKernel, PM, PBatchSize, PAlpha, POvo,
                   PDynamic, PSolver, PVerbose, PRandomState, PKernelParams>>
(* the categorical models document no batch_size ("does not support batching") *)
CategoricalModelT == <<PNClusters, PGemini("mmd_ova"), PMaxIter(1000), PLearningRate(2), PSolver, PVerbose, PRandomState>>
CategoricalMMDT == <<PNClusters, PMaxIter(1000), PLearningRate(2), PSolver, PKernel, POvo, PVerbose, PRandomState,
                     PKernelParams>>
CategoricalWassersteinT == <<PNClusters, PMaxIter(1000), PLearningRate(2), PMetric, POvo, PSolver, PVerbose, PRandomState,
                             PMetricParams>>

(* Douglas *)
(* "n_cuts: int, default=1  The number of cuts to consider per feature in the soft binning function"  (no None);     *)
(*  zero cuts (one bin per feature) is degenerate: unspecified                                                    *)
PNCuts == P("n_cuts", {IntGe(1)}, {"int_0"}, "int_1", I(1))
(* "feature_mask: array of boolean [shape d], default None  A boolean vector indicating whether a feature should be   *)
(*  considered or not among splits. If None, all features are considered"                                         *)
PFeatureMask == P("feature_mask", {MaskD, NoneD}, {}, "none", NoneR)
(* "temperature: float, default=0.1  The temperature controls the relative importance of logits per leaf             *)
(*  soft-binning" (logits / temperature): strictly positive                                                      *)
PTemperature == P("temperature", {RealGt(0)}, {}, "float_half", F(200))
DouglasT == <<PNClusters, PGemini("wasserstein_ova"), PNCuts, PFeatureMask, PTemperature, PMaxIter(100), PBatchSize,
              PSolver, PLearningRate(20), PVerbose, PRandomState>>

(* Kauri *)
(* "max_clusters : int, default=3  The maximum number of clusters to form." *)
PMaxClusters == P("max_clusters", {IntGe(1)}, {}, "int_3", I(3))
(* "max_depth: int, default=None  The maximum depth to limit the tree construction. If set to `None`, then the tree    *)
(*  is not limited in depth."  depth 0 (root only) is degenerate: unspecified                                     *)
PMaxDepth == P("max_depth", {IntGe(1), NoneD}, {"int_0"}, "none", NoneR)
(* "min_samples_split: int, default=2  The minimum number of samples that must be contained in a leaf node to         *)
(*  consider splitting it into two new leaves."  (a split needs two samples; also forced by the rule below)       *)
PMinSplit == P("min_samples_split", {IntGe(2)}, {}, "int_2", I(2))
(* "min_samples_leaf: int, default=1  The minimum number of samples that must be at least in a leaf. Note that the     *)
(*  logical constraint `min_samples_leaf`*2 <= `min_samples_split` must be satisfied."  0 (no constraint) unspecified *)
PMinLeaf == P("min_samples_leaf", {IntGe(1)}, {"int_0"}, "int_1", I(1))
(* "max_features: int, default=None  The maximal number of features (randomly selected) to consider upon the choice    *)
(*  of splitting a leaf. If set to `None`, then all features of the data will be used."                           *)
PMaxFeatures == P("max_features", {IntGe(1), NoneD}, {"int_0"}, "none", NoneR)
(* "max_leaves: int, default=None  The maximal number of leaves that can be found in the tree."  a tree has at least   *)
(*  one leaf; whether 1 (never split) is legal is not said                                                        *)
PMaxLeaves == P("max_leaves", {IntGe(1), NoneD}, {"int_1"}, "none", NoneR)
KauriT == <<PMaxClusters, PMaxDepth, PMinSplit, PMinLeaf, PMaxFeatures, PMaxLeaves, PKernel, PVerbose, PRandomState>>

(* GEMINI constructors *)
(* "epsilon: float, default=1e-12  The precision for clipping the prediction values" (clip to [eps, 1 - eps]):        *)
(*  0 < eps < 1 is necessary for the clipped values to be probabilities; the two end points are unclear           *)
PEpsilon == P("epsilon", {RealOpen(0, 1)}, {"int_0", "float_0", "int_1", "float_1"}, "float_tiny", F(1))
(* MMDGEMINI "kernel: {...,'precomputed'}, default='linear'" and "kernel_params: dict, default=None  Additional         *)
(*  keyword arguments for the kernel function. Ignored if the kernel is callable or precomputed." -> callable legal  *)
PGKernel == P("kernel", {OneOf(KernelsPre), Inst("callable")}, {}, "str_linear", Str("linear"))
(* WassersteinGEMINI "metric: {...,'precomputed'}, default='euclidean'" and "metric_params: dict, default=None [...]   *)
(*  Ignored if the metric is callable or precomputed." -> callable legal                                          *)
PGMetric == P("metric", {OneOf(MetricsPre), Inst("callable")}, {}, "str_euclidean", Str("euclidean"))
MMDGEMINIT == <<POvo, PGKernel, PKernelParams, PEpsilon>>
WassersteinGEMINIT == <<POvo, PGMetric, PMetricParams, PEpsilon>>
FDivT == <<POvo, PEpsilon>>
MIT == <<PEpsilon>>

(* validated functions *)
(* add_mlcl_constraint "gemini_model: MLP___, Linear___ or Categorical___  A GemClus model that involves gemini        *)
(*  maximisation with gradient descent."   "factor: float, default=1.0  A weighting hyperparameter for the            *)
(*  constraints in gradient descent."  a weight is non-negative; whether 0 is legal is not said                   *)
MlclT == <<P("gemini_model", {Inst("model")}, {}, "model_instance", Obj("model_instance", "model")),
           P("factor", {RealGe(0)}, Zero, "float_1", F(2000))>>
(* print_kauri_tree "kauri_tree: Kauri  A Kauri instance that was trained"   "feature_names: array of shape              *)
(*  (n_features,) or None".  Lists / arrays that are not d strings are left to C19 (unspecified here).            *)
PrintT_ == <<P("kauri_tree", {Inst("kauri")}, {}, "kauri_fitted", Obj("kauri_fitted", "kauri")),
             P("feature_names", {Inst("names"), NoneD},
               {"list", "ndarray_bool_len_d_minus_1", "ndarray_bool_len_d", "ndarray_bool_len_d_plus_1", "lol_partition",
                "lol_partial", "lol_overlap", "lol_out_of_range", "lol_empty"}, "none", NoneR)>>
(* data generators: "n: int  The number of samples to draw", "random_state: int, RandomState instance or None"         *)
PN(unspec, base, def) == P("n", {IntGe(1)}, unspec, base, I(def))
PRandomStateF == P("random_state", {IntGe(0), Inst("rng"), NoneD}, {"int_neg1"}, "int_0", NoneR)
PosFloats == {"float_tiny", "float_half", "float_1", "float_1_5", "float_2"}
NonPos == {"int_neg1", "int_0", "float_neg", "float_0"}
(* draw_gmm(n, loc, scale, pvals, random_state): loc / scale / pvals are held at a valid 2-component mixture *)
DrawGmmT == <<PN({"int_0"}, "int_3", 3), PRandomStateF>>
(* multivariate_student_t "df: int, default=10  Degrees of freedom of the distribution." positive; documented as int,    *)
(*  so positive non-integers are unspecified                                                                    *)
StudentT == <<PN({"int_0"}, "int_3", 3), P("df", {RealGt(0)}, PosFloats, "int_2", I(10)), PRandomStateF>>
(* gstm "n: int, default=500", "alpha: float, default=2: controls how close the means [...] are" (any real is           *)
(*  meaningful: non-positive values unspecified), "df: float, default=1  The degrees of freedom"                   *)
(*  n = 3n/4 Gaussian + n/4 Student samples: how small n may be is not said                                       *)
GstmT == <<PN({"int_0", "int_1", "int_2", "int_3"}, "int_4", 500), P("alpha", {RealAny}, NonPos, "int_2", I(2)),
           P("df", {RealGt(0)}, {}, "int_1", I(1)), PRandomStateF>>
(* celeux_one "n: int, default=300", "p: int, default=20  The number of excessive noisy variables" (0 unspecified),      *)
(*  "mu: float, default=1.7  Controls how the means of the components are close to each other by scaling"          *)
CeleuxOneT == <<PN({"int_0"}, "int_3", 300), P("p", {IntGe(0)}, {"int_0"}, "int_2", I(20)),
                P("mu", {RealAny}, NonPos, "float_1_5", F(3400)), PRandomStateF>>
(* celeux_two "n: int, default=2000" *)
CeleuxTwoT == <<PN({"int_0"}, "int_3", 2000), PRandomStateF>>

Classes == <<"LinearModel", "LinearMMD", "LinearWasserstein", "RIM", "KernelRIM", "MLPModel", "MLPMMD", "MLPWasserstein",
             "SparseLinearModel", "SparseLinearMMD", "SparseLinearMI", "SparseMLPModel", "SparseMLPMMD", "CategoricalModel",
             "CategoricalMMD", "CategoricalWasserstein", "Douglas", "Kauri",
             "MMDGEMINI", "WassersteinGEMINI", "KLGEMINI", "MI", "TVGEMINI", "HellingerGEMINI", "ChiSquareGEMINI",
             "add_mlcl_constraint", "print_kauri_tree", "draw_gmm", "multivariate_student_t", "gstm", "celeux_one",
             "celeux_two">>
NEST == 18
KindOf(i) == IF i <= NEST THEN "estimator" ELSE IF i <= NEST + 7 THEN "gemini" ELSE "function"
Table(c) ==
    CASE c = "LinearModel" -> LinearModelT [] c = "LinearMMD" -> LinearMMDT [] c = "LinearWasserstein" -> LinearWassersteinT
      [] c = "RIM" -> RIMT [] c = "KernelRIM" -> KernelRIMT [] c = "MLPModel" -> MLPModelT [] c = "MLPMMD" -> MLPMMDT
      [] c = "MLPWasserstein" -> MLPWassersteinT [] c = "SparseLinearModel" -> SparseLinearModelT
      [] c = "SparseLinearMMD" -> SparseLinearMMDT [] c = "SparseLinearMI" -> SparseLinearMIT
      [] c = "SparseMLPModel" -> SparseMLPModelT [] c = "SparseMLPMMD" -> SparseMLPMMDT
      [] c = "CategoricalModel" -> CategoricalModelT [] c = "CategoricalMMD" -> CategoricalMMDT
      [] c = "CategoricalWasserstein" -> CategoricalWassersteinT [] c = "Douglas" -> DouglasT [] c = "Kauri" -> KauriT
      [] c = "MMDGEMINI" -> MMDGEMINIT [] c = "WassersteinGEMINI" -> WassersteinGEMINIT [] c = "MI" -> MIT
      [] c \in {"KLGEMINI", "TVGEMINI", "HellingerGEMINI", "ChiSquareGEMINI"} -> FDivT
      [] c = "add_mlcl_constraint" -> MlclT [] c = "print_kauri_tree" -> PrintT_ [] c = "draw_gmm" -> DrawGmmT
      [] c = "multivariate_student_t" -> StudentT [] c = "gstm" -> GstmT [] c = "celeux_one" -> CeleuxOneT
      [] c = "celeux_two" -> CeleuxTwoT

--------------------------------------------------------------------------------------------------------------
(* (d) combination rules and (e) the verdict.  An assignment is a sequence of representatives, one per parameter.   *)
Idx(T, name) == CHOOSE i \in 1..Len(T) : T[i].name = name
Has(T, name) == \E i \in 1..Len(T) : T[i].name = name
ComboOK(c, T, asg) ==
    /\ Has(T, "n_clusters") =>                                   \* property: fewer samples than n_clusters is rejected
          LET r == asg[Idx(T, "n_clusters")] IN r.type = "int" => r.cmp <= 2000 * NSAMP
    /\ c = "Kauri" =>                                            \* "min_samples_leaf*2 <= min_samples_split must be satisfied"
          LET l == asg[Idx(T, "min_samples_leaf")]
              s == asg[Idx(T, "min_samples_split")]
          IN (l.type = "int" /\ s.type = "int") => 2 * l.cmp <= s.cmp
Expected(c, asg) ==
    LET T == Table(c)
        vs == {JudgeParam(T[i], asg[i]) : i \in 1..Len(T)}
    IN IF "reject" \in vs THEN "reject"
       ELSE IF "unspecified" \in vs THEN "unspecified"
       ELSE IF ComboOK(c, T, asg) THEN "accept" ELSE "reject"

BaseAsg(T) == [i \in 1..Len(T) |-> ById(T[i].base)]
DefAsg(T) == [i \in 1..Len(T) |-> T[i].def]
Names(T) == {T[i].name : i \in 1..Len(T)}
Ids(T, asg) == [n \in Names(T) |-> asg[Idx(T, n)].id]

(* malformed training data (every estimator) and use before fit *)
Malformed(c) == {"nan", "inf", "strings", "one_d", "three_d", "empty", "fewer_than_n_clusters"}
                    \ (IF c = "Kauri" THEN {"fewer_than_n_clusters"} ELSE {})   \* Kauri has no n_clusters, only a maximum
Methods(c) == IF c = "Kauri" THEN {"predict", "score", "print_kauri_tree"} ELSE {"predict", "predict_proba", "score"}
(* the pairs of the combination rules: every pair of integer representatives *)
PairNames(c) == IF c = "Kauri" THEN {<<"min_samples_leaf", "min_samples_split">>} ELSE {}

--------------------------------------------------------------------------------------------------------------
Case(c, kind, off, T, asg) == [cls |-> c, kind |-> kind, off |-> off, params |-> Ids(T, asg), expect |-> Expected(c, asg)]
Init == ph = "start" /\ chunk = 0 /\ cs = <<>>
PickChunk == ph = "start" /\ chunk' \in CLASSES /\ ph' = "chunk" /\ UNCHANGED cs
PickCase ==
    /\ ph = "chunk"
    /\ LET c == Classes[chunk]
           T == Table(c)
           B == BaseAsg(T)
       IN \/ cs' = [Case(c, "default", "", T, DefAsg(T)) EXCEPT !.params = <<>>]
          \/ cs' = Case(c, "baseline", "", T, B)
          \/ \E i \in 1..Len(T), r \in Universe : cs' = Case(c, "one", T[i].name, T, [B EXCEPT ![i] = r])
          \/ \E pr \in PairNames(c), r1 \in IntReps, r2 \in IntReps :
                cs' = Case(c, "pair", pr[1] \o "," \o pr[2], T, [B EXCEPT ![Idx(T, pr[1])] = r1, ![Idx(T, pr[2])] = r2])
          \/ /\ KindOf(chunk) = "estimator"                    \* inconsistent combination: a "precomputed" kernel / metric is
             /\ \E i \in 1..Len(T), r \in Universe :            \* legal, but only together with the matrix given to fit
                   /\ r.type = "str" /\ r.s = "precomputed" /\ JudgeParam(T[i], r) = "accept"
                   /\ cs' = [Case(c, "noaffinity", T[i].name, T, [B EXCEPT ![i] = r]) EXCEPT !.expect = "reject"]
          \/ /\ KindOf(chunk) = "estimator"
             /\ \/ \E m \in Malformed(c) : cs' = [Case(c, "data", m, T, B) EXCEPT !.expect = "reject"]
                \/ \E m \in Methods(c) : cs' = [Case(c, "unfitted", m, T, B) EXCEPT !.expect = "raise"]
    /\ ph' = "eval" /\ UNCHANGED chunk
Next == PickChunk \/ PickCase

(* spec-internal theorems about the tables (evaluated once, on the initial state) *)
TablesOK == ph = "start" =>
    \A ci \in 1..Len(Classes) :
        LET c == Classes[ci]
            T == Table(c)
        IN /\ Expected(c, BaseAsg(T)) = "accept"                                   \* the baseline is legal
           /\ Expected(c, DefAsg(T)) = "accept"                                    \* the documented defaults are legal
           /\ \A i \in 1..Len(T) :
                 /\ T[i].base \in {r.id : r \in Universe}
                 /\ T[i].unspec \subseteq {r.id : r \in Universe}
                 /\ \E r \in Universe : Expected(c, [BaseAsg(T) EXCEPT ![i] = r]) = "accept"
                 /\ \E r \in Universe : Expected(c, [BaseAsg(T) EXCEPT ![i] = r]) = "reject"
           /\ \A i, j \in 1..Len(T) : T[i].name = T[j].name => i = j
(* one-parameter-off verdicts only depend on the parameter that is off, except through the combination rules *)
Emit == CASE ph = "eval" -> PrintT(ToJson(cs))
          [] ph = "start" -> PrintT(ToJson([universe |-> {[id |-> r.id, type |-> r.type, cmp |-> r.cmp, fin |-> r.fin,
                                                          nan |-> r.nan, s |-> r.s, len |-> r.len, g |-> r.g] : r \in Universe},
                                            nfeat |-> NFEAT, nsamp |-> NSAMP, classes |-> Classes]))
          [] OTHER -> TRUE
==============================================================================================================
