------------------------------------------------- MODULE PathMC -------------------------------------------------
(* Exhaustive exploration of Path in exact mode: the environment chooses every score, every l1 comparison and any   *)
(* feature count after every epoch (a zeroed row can be revived by a gradient step: no monotonicity is assumed).     *)
EXTENDS Path
CONSTANTS D, MaxIter, MaxPat, MaxSteps, Scores, LIVE
VARIABLES wctr, s0         \* fresh weight ids; the initial score (for the independent best-weights recomputation)
mvars == <<pvars, wctr, s0>>

Fracs == {<<0, 1>>, <<1, 2>>, <<3, 4>>, <<1, 1>>}
Confs == {[d |-> D, maxiter |-> mi, minf |-> mf, keepN |-> k[1], keepD |-> k[2], esfN |-> e[1], esfD |-> e[2], maxpat |-> mp,
           dynamic |-> dy, restore |-> rs] :
            mi \in 1..MaxIter, mf \in 1..(D + 1), k \in Fracs, e \in {<<1, 2>>, <<1, 1>>}, mp \in 1..MaxPat, dy \in BOOLEAN, rs \in BOOLEAN}
SN == Scores \cup {NaN}
Init == PInit /\ wctr = 0 /\ s0 = 0
MBegin == \E c \in Confs : Begin(c) /\ UNCHANGED <<wctr, s0>>
MInitVal == \E s \in Scores, ns \in 0..D : InitVal(s, ns, 0) /\ s0' = s /\ wctr' = 1
MStepVal == step < MaxSteps /\ (\E s \in SN : StepVal(s, nsel, lastW)) /\ UNCHANGED <<wctr, s0>>
MEpoch == \E s \in SN, l1 \in BOOLEAN, ns \in 0..D : EpochExact(s, l1, ns, wctr, 0, 0) /\ wctr' = wctr + 1 /\ UNCHANGED s0
MReturn == Return /\ UNCHANGED <<wctr, s0>>
(* LIVE: the environment assumption under which termination is claimed -- once the step budget is used up the       *)
(* penalty is so large that every row is zeroed (alpha grows geometrically, alpha0 > 0)                              *)
MEpochLive == \E s \in SN, l1 \in BOOLEAN : EpochExact(s, l1, 0, wctr, 0, 0) /\ wctr' = wctr + 1 /\ UNCHANGED s0
Next == MBegin \/ MInitVal \/ MStepVal \/ (IF LIVE /\ step >= MaxSteps - 1 THEN MEpochLive ELSE MEpoch) \/ MReturn
Spec == Init /\ [][Next]_mvars /\ WF_mvars(Next)

(* independent recomputation of the best-weights rule from the histories *)
RECURSIVE BestAfter(_)
BestAfter(k) == IF k = 0 THEN s0
                ELSE LET b == BestAfter(k - 1) IN IF Ge(hScore[k], b) /\ hN[k] = pc.d THEN hScore[k] ELSE b
Keeps(k) == GeKeep(hScore[k], BestAfter(k))
BestWeightsRule == (ph \in {"outer", "ret", "done"} /\ Started) =>
    LET ks == {k \in 1..step : Keeps(k)} IN
      /\ best = BestAfter(step)
      /\ bestW = IF ks = {} THEN 0 ELSE hW[CHOOSE k \in ks : \A j \in ks : j <= k]
RestoreRule == ph = "done" => lastW = (IF pc.restore /\ ~pc.dynamic THEN bestW ELSE IF step = 0 /\ ~nan THEN lastW ELSE lastW)
Terminates == <>(ph = "done")
Bound == step <= MaxSteps
View == <<pc, ph, step, i, patience, val, best, bestW, lastW, nsel, lastS, hN, hW, hScore, nan, s0>>
==============================================================================================================
