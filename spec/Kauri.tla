-------------------------------------------------- MODULE Kauri --------------------------------------------------
(* Enumeration machine for KAURI (spec -> code, C08): every dataset on the grid, every kernel, every parameter     *)
(* pair, and every intermediate state reachable from the root by ANY admissible candidate (not only greedy ones). *)
(* For each state the spec emits the full candidate table with exact gains; the harness asks the real            *)
(* find_best_split (compiled and .pyx-interpreted) for its pick in the same state.                                *)
EXTENDS KauriCore, IOUtils

CONSTANTS V,          \* feature values range over 0..V
          NCH, CHUNKS,\* work partition (parallelism / seeded sub-sampling)
          RAMP        \* TRUE: only the two all-distinct datasets (deep states: double-star, reallocation with >= 3 targets)

VARIABLES ph, chunk, X, kn, kmax, minleaf, st
vars == <<ph, chunk, X, kn, kmax, minleaf, st>>

KMaxs == 1..4
MinLeafs == 1..2
MaxLeavesEnum == IF N <= 4 THEN N ELSE IF RAMP THEN N - 1 ELSE 4
HashX(x) == SumF((1..N) \X (1..D), [p \in (1..N) \X (1..D) |-> x[p[1]][p[2]] * (37 * (p[1] * D + p[2]) * (p[1] * D + p[2]) + 101 * p[1] + 7 * p[2])])

Init == ph = "start" /\ chunk = -1 /\ X = <<>> /\ kn = "" /\ kmax = 0 /\ minleaf = 0 /\ st = RootState
PickChunk == /\ ph = "start" /\ chunk' \in CHUNKS /\ ph' = "chunk"
             /\ UNCHANGED <<X, kn, kmax, minleaf, st>>
PickCase == /\ ph = "chunk"
            /\ IF RAMP THEN X' \in {[i \in 1..N |-> [f \in 1..D |-> i - 1]], [i \in 1..N |-> [f \in 1..D |-> (i * 3) % N]]}
               ELSE \E x \in [1..N -> [1..D -> 0..V]] : HashX(x) % NCH = chunk /\ X' = x
            /\ kn' \in KernelNames /\ kmax' \in KMaxs /\ minleaf' \in MinLeafs
            /\ st' = RootState /\ ph' = "state" /\ UNCHANGED chunk
AnySplit == /\ ph = "state" /\ st.nL < MaxLeavesEnum
            /\ \E c \in Cands(X, st, 0..(st.nL - 1), 1..D, kmax, minleaf) : st' = Apply(X, st, c)
            /\ UNCHANGED <<ph, chunk, X, kn, kmax, minleaf>>
Next == PickChunk \/ PickCase \/ AnySplit

(* Probe: one given state (read from the JSON file named by PROBE_FILE) instead of the enumeration; the same Output and the    *)
(* same theorems are evaluated on it.  Used to re-examine, on every run, the recorded failing state of a known finding.       *)
Probe == JsonDeserialize(IOEnv.PROBE_FILE)
ProbeInit == /\ ph = "state" /\ chunk = 0 /\ X = Probe.X /\ kn = Probe.kn /\ kmax = Probe.kmax /\ minleaf = Probe.minleaf
             /\ st = [leafOf |-> Probe.leafOf, clOf |-> Probe.clOf, nL |-> Probe.nL, nC |-> Probe.nC]
ProbeNext == FALSE /\ UNCHANGED vars

(* the queries put to the real find_best_split in each state: which leaves are explorable, which features drawn *)
ExplVariants(s) == {0..(s.nL - 1)} \cup (IF s.nL >= 2 THEN {1..(s.nL - 1), {0}} ELSE {})
FeatVariants == {1..D} \cup {{f} : f \in 1..D}
Query(e, fs) ==
    LET K == Kern(kn, X)
        cs == Cands(X, st, e, fs, kmax, minleaf)
        tab == SetToSeq({[leaf |-> c.leaf, f |-> c.f, th |-> c.th, lt |-> c.lt, rt |-> c.rt, kind |-> c.kind,
                          gain |-> Gain(X, K, st, c)] : c \in cs})
    IN [expl |-> SetToSeq(e), fsub |-> SetToSeq(fs), cands |-> tab]
Output == [n |-> N, d |-> D, X |-> X, kn |-> kn, K |-> Kern(kn, X), L |-> L, kmax |-> kmax, minleaf |-> minleaf,
           leafOf |-> st.leafOf, clOf |-> st.clOf, nL |-> st.nL, nC |-> st.nC, obj |-> ObjLab(Kern(kn, X), Lab(st)),
           queries |-> LET qs == SetToSeq(ExplVariants(st) \X FeatVariants)
                       IN [i \in 1..Len(qs) |-> Query(qs[i][1], qs[i][2])]]
Emit == ph = "state" => PrintT(ToJson(Output))

(* spec-internal theorems *)
StatesWellFormed == ph = "state" => WellFormed(st)
(* applying a candidate changes the objective by exactly its gain, and leaves a well-formed state *)
GainIsIncrease == ph = "state" =>
    LET K == Kern(kn, X) IN
      \A c \in Cands(X, st, 0..(st.nL - 1), 1..D, kmax, minleaf) :
          LET s2 == Apply(X, st, c) IN
            /\ WellFormed(s2)
            /\ Lab(s2) = AfterLab(X, st, c)
            /\ ObjLab(K, Lab(s2)) = ObjLab(K, Lab(st)) + Gain(X, K, st, c)
            /\ s2.nC <= kmax
            /\ Cardinality(Members(s2, c.leaf)) >= minleaf /\ Cardinality(Members(s2, st.nL)) >= minleaf
==============================================================================================================
