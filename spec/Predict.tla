------------------------------------------------- MODULE Predict -------------------------------------------------
(* Predictions are per-sample functions of the fitted model (C18).                                               *)
(*                                                                                                              *)
(* "For every inductive estimator, the prediction, probabilities and tree routing of a sample depend only on     *)
(*  that sample and the fitted model: predicting a subset, a reordering or a single row gives the same rows as    *)
(*  predicting the whole array, and predicting the training data reproduces what fit stored."                     *)
(*                                                                                                              *)
(* Abstraction.  The new points carry the ids 1..M; the ids 1..NT are (copies of) training rows.  A fitted model  *)
(* is an ARBITRARY function f from ids to an output value (a label, a probability row, a leaf: the spec does not   *)
(* care which) - that is all "depends only on that sample and the fitted model" says.  A query is a SELECTION:    *)
(* any non-empty sequence of ids of length <= L - any subset, in any order, with repetitions, single rows          *)
(* included.  Predict(f, sel) is the row-wise image of the selection.  fit keeps Stored(f), the outputs of the     *)
(* training rows (labels_).                                                                                      *)
(*                                                                                                              *)
(* TLC enumerates EVERY selection (M + M^2 + .. + M^L of them) and prints each one together with the rows of the   *)
(* full prediction that must come back (Predict of the free model Id); the harness applies the selection to real   *)
(* arrays and real fitted estimators.  The laws below are checked on every enumerated selection for every model    *)
(* in Models (all labellings of the ids with NV values, and the free model).                                       *)
EXTENDS Integers, Sequences, FiniteSets, TLC, Json

CONSTANTS M,        \* number of query rows (ids 1..M)
          L,        \* maximal length of a selection
          NT,       \* ids 1..NT are training rows (NT <= M)
          NV,       \* number of abstract output values
          NCH,      \* number of work chunks
          CHUNKS    \* chunks explored by this run

VARIABLES ph, chunk, sel
vars == <<ph, chunk, sel>>

--------------------------------------------------------------------------------------------------------------
Strict(s) == s \o <<>>                                           \* force TLC's lazy function into a tuple
Id == [i \in 1..M |-> i]                                         \* the free model: the output IS the sample
Models == [1..M -> 1..NV] \cup {Id}

Predict(f, s) == Strict([r \in 1..Len(s) |-> f[s[r]]])
Full == Strict([i \in 1..M |-> i])                               \* the whole array of new points, in its own order
TrainSel == Strict([i \in 1..NT |-> i])                          \* the training rows, in training order
Stored(f) == Strict([i \in 1..NT |-> f[i]])                      \* what fit keeps about the training rows

RangeOf(s) == {s[r] : r \in 1..Len(s)}
Perms(n) == {p \in [1..n -> 1..n] : \A i, j \in 1..n : p[i] = p[j] => i = j}
Reorder(s, p) == Strict([r \in 1..Len(s) |-> s[p[r]]])

(* ---- the laws (theorems about the definition, checked by TLC on every enumerated selection) ---------------- *)
LenLaw(f, s) == Len(Predict(f, s)) = Len(s)
(* row r depends only on the sample in row r: it is what predicting that sample alone gives *)
RowLaw(f, s) == \A r \in 1..Len(s) : Predict(f, s)[r] = Predict(f, <<s[r]>>)[1]
(* ... and it is the row of that sample in the prediction of the whole array *)
FullLaw(f, s) == \A r \in 1..Len(s) : Predict(f, s)[r] = Predict(f, Full)[s[r]]
(* predicting in two batches and stacking = predicting at once, for every way of cutting the query *)
ConcatLaw(f, s) == \A j \in 0..Len(s) :
    LET a == SubSeq(s, 1, j)
        b == SubSeq(s, j + 1, Len(s))
    IN Predict(f, a \o b) = Predict(f, a) \o Predict(f, b)
(* reordering the query reorders the answer in the same way *)
PermLaw(f, s) == \A p \in Perms(Len(s)) : Predict(f, Reorder(s, p)) = Reorder(Predict(f, s), p)
(* a repeated sample gets the same answer at every position *)
DupLaw(f, s) == \A q, r \in 1..Len(s) : s[q] = s[r] => Predict(f, s)[q] = Predict(f, s)[r]
(* predicting the training data reproduces what fit stored, also inside any other query *)
TrainLaw(f, s) == /\ Predict(f, TrainSel) = Stored(f)
                  /\ \A r \in 1..Len(s) : s[r] <= NT => Predict(f, s)[r] = Stored(f)[s[r]]

Laws(s) == \A f \in Models : /\ LenLaw(f, s) /\ RowLaw(f, s) /\ FullLaw(f, s) /\ ConcatLaw(f, s)
                             /\ PermLaw(f, s) /\ DupLaw(f, s) /\ TrainLaw(f, s)

(* KernelRIM: the output of a sample is computed from its kernel row AGAINST THE STORED TRAINING ROWS 1..NT.  With  *)
(* the free kernel k(i, j) = <<i, j>> that row is KModel[i], a per-sample model like any other.  The kernel of the   *)
(* query with itself (SelfRows) gives the same rows exactly when the query is the training array in training order. *)
KModel == [i \in 1..M |-> Strict([j \in 1..NT |-> <<i, j>>])]
KernelRows(s) == Predict(KModel, s)
SelfRows(s) == Strict([r \in 1..Len(s) |-> Strict([j \in 1..Len(s) |-> <<s[r], s[j]>>])])
KernelLaw(s) == /\ \A r \in 1..Len(s) : Len(KernelRows(s)[r]) = NT              \* shape (m, n_train) whatever m is
                /\ (SelfRows(s) = KernelRows(s)) <=> (s = TrainSel)

Sels == UNION {[1..l -> 1..M] : l \in 1..L}
(* the laws are not vacuous: a predictor that looks at the batch (answers relative to the first row of the query)  *)
(* breaks RowLaw on some enumerated selection.                                                                   *)
BatchNorm(f, s) == Strict([r \in 1..Len(s) |-> (f[s[r]] + f[s[1]]) % NV])
NotVacuous == ph = "start" =>
    \E s \in Sels, f \in Models : \E r \in 1..Len(s) : BatchNorm(f, s)[r] # BatchNorm(f, <<s[r]>>)[1]

--------------------------------------------------------------------------------------------------------------
RECURSIVE HashTo(_, _)
HashTo(s, n) == IF n = 0 THEN 7 ELSE (HashTo(s, n - 1) * 31 + s[n] + 2) % 65521
Hash(s) == (HashTo(s, Len(s)) + 13 * Len(s)) % 65521

Output(s) == [m |-> M, nt |-> NT, sel |-> s,
              rows |-> Predict(Id, s),                          \* row r of the answer = row rows[r] of the full answer
              len |-> Len(s), single |-> Len(s) = 1,
              dup |-> Cardinality(RangeOf(s)) < Len(s),
              perm |-> Len(s) = M /\ RangeOf(s) = 1..M,
              train |-> \A r \in 1..Len(s) : s[r] <= NT]

Init == ph = "start" /\ chunk = 0 - 1 /\ sel = <<>>
PickChunk == ph = "start" /\ chunk' \in CHUNKS /\ ph' = "chunk" /\ UNCHANGED sel
PickCase == /\ ph = "chunk"
            /\ \E s \in Sels : Hash(s) % NCH = chunk /\ sel' = s
            /\ ph' = "eval" /\ UNCHANGED chunk
Next == PickChunk \/ PickCase

TypeOK == /\ ph \in {"start", "chunk", "eval"}
          /\ ph = "eval" => sel \in Sels
LawsHold == ph = "eval" => Laws(sel) /\ KernelLaw(sel)
Emit == ph = "eval" => PrintT(ToJson(Output(sel)))
==============================================================================================================
