----------------------------------------------- MODULE DataTrace ------------------------------------------------
(* Trace validation of real runs of the gemclus.data generators against the protocol of module Data (C20).       *)
(* The generators are run with a RandomState that logs every call and answers with scripted, tagged values.       *)
(* A trace is:  setup(gen, args) , one `draw` per RNG call (method + integer-encoded arguments + scripted answer), *)
(* return(X, y) with X in units of 1/10.  `exact` says that every logged number was exactly representable in its  *)
(* encoding.  The trace is accepted iff every call is the next call of the protocol, with the documented          *)
(* parameters, and the returned rows are the tagged draws the protocol routes to them.                           *)
EXTENDS Data, IOUtils

CONSTANTS TIDS                      \* 0 = all traces of the file, otherwise validate only trace TIDS (debugging)
Traces == JsonDeserialize(IOEnv.TRACE_FILE).traces
VARIABLES tid, l
tvars == <<dvars, tid, l>>

Ev == Traces[tid][l]
More == l <= Len(Traces[tid])
IsEvent(e) == More /\ Ev.e = e /\ l' = l + 1 /\ UNCHANGED tid

TInit == DInit /\ tid \in (IF TIDS = 0 THEN 1..Len(Traces) ELSE {TIDS}) /\ l = 1

TSetup == IsEvent("setup") /\ Setup(Ev.gen, Ev.args)
TDraw == IsEvent("draw") /\ Ev.exact /\ Draw(Ev.call, Ev.ret)
TReturn == IsEvent("return") /\ Ev.exact /\ Return /\ Ev.X = out'.X /\ Ev.y = out'.y

TNext == TSetup \/ TDraw \/ TReturn
TSpec == TInit /\ [][TNext]_tvars

Accept == (l = Len(Traces[tid]) + 1 /\ ph = "done") => PrintT(ToJson([accept |-> tid]))

(* debugging aid for rejected traces (TIDS # 0): where the validation got to and which conjuncts hold there *)
Diag == [at |-> tid, l |-> l, ph |-> ph,
         d |-> IF More /\ Ev.e = "draw" /\ ph = "run"
               THEN IF k >= Len(Proto(gen, args)) THEN [unexpected_extra_call |-> FALSE]
                    ELSE LET x == NextCall IN
                         [method |-> Ev.call.m = x.m, shape |-> Ev.call.shape = x.shape, K |-> Ev.call.K = x.K,
                          proportions |-> Ev.call.p = x.p, loc |-> Ev.call.loc = x.loc, variance |-> Ev.call.var = x.var,
                          cov |-> Ev.call.cov = x.cov, df |-> Ev.call.df = x.df, exact |-> Ev.exact,
                          answer |-> (Ev.call = x => RetOK(x, Ev.ret)), callno |-> k + 1]
               ELSE IF More /\ Ev.e = "return" /\ ph = "run"
               THEN IF k < Len(Proto(gen, args)) THEN [missing_call |-> FALSE, callno |-> k + 1]
                    ELSE LET o == Output(gen, args, rets) IN
                         [nrows |-> Len(Ev.X) = Len(o.X), labels |-> Ev.y = o.y, exact |-> Ev.exact,
                          rows |-> Len(Ev.X) = Len(o.X) /\ \A i \in 1..Len(o.X) : Ev.X[i] = o.X[i],
                          badrows |-> IF Len(Ev.X) = Len(o.X) THEN {i \in 1..Len(o.X) : Ev.X[i] # o.X[i]} ELSE {}]
               ELSE [none |-> TRUE]]
Progress == PrintT(ToJson(Diag))
==============================================================================================================
