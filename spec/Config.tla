------------------------------------------------- MODULE Config -------------------------------------------------
(* C04 / C17: the space of VALID configurations of the 18 estimators and of legal (possibly awkward) datasets, and    *)
(* what a successful fit must leave behind.  Each hyperparameter has a small set of in-domain representatives        *)
(* (transcribed from the documentation, cf. Params.tla for the domains themselves); a configuration is a point of     *)
(* the cross product.  The cross product is far too large to enumerate, so TLC produces a deterministic,             *)
(* seed-dependent sample: draw i selects the value of parameter number p by a hash of (i, p, SEEDC).  Every draw is    *)
(* a state, so the sample is generated in parallel, and the combination rules (Valid) are evaluated by TLC.           *)
EXTENDS Integers, Sequences, FiniteSets, TLC, Json

CONSTANTS NDRAWS, SEEDC,
          AWKWARD      \* FALSE: ordinary small datasets (C04);  TRUE: the degenerate / badly scaled families of C17
VARIABLES ph, i, blk
vars == <<ph, i, blk>>
NBLK == 64

Names13 == <<"mmd_ova", "mmd_ovo", "wasserstein_ova", "wasserstein_ovo", "kl_ova", "kl_ovo", "mi", "tv_ova", "tv_ovo",
             "hellinger_ova", "hellinger_ovo", "chi2_ova", "chi2_ovo">>
GeminiVals == Names13 \o <<"none", "inst_mmd_rbf_ovo", "inst_wasserstein_l1", "inst_mmd_precomputed">>
P(n, v) == [name |-> n, vals |-> v]
Common == << P("n_clusters", <<"1", "2", "3", "n">>), P("solver", <<"sgd", "adam">>),
             P("max_iter", <<"1", "2", "3">>), P("learning_rate", <<"0.001", "0.5">>),
             P("verbose", <<"false", "false", "true">>), P("random_state", <<"int", "int", "instance", "none">>) >>
Batch == << P("batch_size", <<"none", "1", "2", "3", "n", "n+1">>) >>
Gem == << P("gemini", GeminiVals) >>
MMD == << P("kernel", <<"linear", "rbf", "polynomial", "sigmoid", "laplacian", "precomputed", "callable">>), P("ovo", <<"false", "true">>),
          P("kernel_params", <<"none", "gamma2">>) >>
WAS == << P("metric", <<"euclidean", "manhattan", "cosine", "l1", "precomputed", "callable">>), P("ovo", <<"false", "true">>) >>
Sparse == << P("alpha", <<"0", "0.01", "10">>), P("groups", <<"none", "pair01", "all_single">>), P("dynamic", <<"false", "true">>) >>
Hidden == << P("n_hidden_dim", <<"1", "3">>) >>

Estimators == <<"LinearModel", "LinearMMD", "LinearWasserstein", "RIM", "KernelRIM", "MLPModel", "MLPMMD", "MLPWasserstein",
                "SparseLinearModel", "SparseLinearMMD", "SparseLinearMI", "SparseMLPModel", "SparseMLPMMD",
                "CategoricalModel", "CategoricalMMD", "CategoricalWasserstein", "Douglas", "Kauri">>
ParamsOf(e) ==
    CASE e = "LinearModel" -> Common \o Batch \o Gem
      [] e = "LinearMMD" -> Common \o Batch \o MMD
      [] e = "LinearWasserstein" -> Common \o Batch \o WAS
      [] e = "RIM" -> Common \o Batch \o << P("reg", <<"0", "0.1", "2">>) >>
      [] e = "KernelRIM" -> Common \o Batch \o << P("reg", <<"0", "0.1">>), P("base_kernel", <<"linear", "rbf", "callable">>) >>
      [] e = "MLPModel" -> Common \o Batch \o Gem \o Hidden
      [] e = "MLPMMD" -> Common \o Batch \o MMD \o Hidden
      [] e = "MLPWasserstein" -> Common \o Batch \o WAS \o Hidden
      [] e = "SparseLinearModel" -> Common \o Batch \o Gem \o Sparse
      [] e = "SparseLinearMMD" -> Common \o Batch \o MMD \o Sparse
      [] e = "SparseLinearMI" -> Common \o Batch \o << P("alpha", <<"0", "0.01", "10">>), P("groups", <<"none", "pair01", "all_single">>) >>
      [] e = "SparseMLPModel" -> Common \o Batch \o Gem \o Sparse \o Hidden \o << P("M", <<"0", "0.5", "10">>) >>
      [] e = "SparseMLPMMD" -> Common \o Batch \o MMD \o Sparse \o Hidden \o << P("M", <<"0.5", "10">>) >>
      [] e = "CategoricalModel" -> Common \o Gem
      [] e = "CategoricalMMD" -> Common \o MMD
      [] e = "CategoricalWasserstein" -> Common \o WAS
      [] e = "Douglas" -> Common \o Batch \o Gem \o << P("n_cuts", <<"1", "2", "3">>), P("feature_mask", <<"none", "first_only", "all">>),
                                                       P("temperature", <<"0.1", "1", "0.01", "0.001">>) >>
      [] e = "Kauri" -> << P("max_clusters", <<"1", "2", "3", "4">>), P("max_depth", <<"none", "1", "2">>),
                           P("min_samples_split", <<"2", "3", "4">>), P("min_samples_leaf", <<"1", "2">>),
                           P("max_features", <<"none", "1", "d", "d+2">>), P("max_leaves", <<"none", "2", "3">>),
                           P("kernel", <<"linear", "rbf", "precomputed">>), P("verbose", <<"false", "true">>),
                           P("random_state", <<"int", "instance", "none">>) >>

DataParams == IF AWKWARD
              THEN << P("layout", <<"c64">>), P("decorated", <<"no">>), P("n", <<"K", "K+1", "6">>), P("d", <<"1", "2", "3">>),
                      P("kind", <<"scale1000", "const_col", "dup_col", "dup_rows", "all_equal_rows", "scale1000_const", "tiny_scale", "int">>) >>
              ELSE << P("n", <<"K", "K+1", "5", "8">>), P("d", <<"1", "2", "3">>), P("kind", <<"int", "gauss", "ties">>),
                      (* how the caller hands the data over: every array-like of finite numbers is legal input *)
                      P("layout", <<"c64", "c64", "f32", "fortran", "noncontiguous", "list", "int64">>),
                      P("decorated", <<"no", "no", "no", "mlcl">>) >>

Hash(a, b) == (a * 7919 + b * 104729 + SEEDC * 31337 + (((a * b) % 1013) * 811)) % 1000003
PickVal(idx, pnum, vals) == vals[(Hash(idx, pnum) % Len(vals)) + 1]
Draw(idx) ==
    LET e == Estimators[(Hash(idx, 0) % Len(Estimators)) + 1]
        ps == ParamsOf(e)
        ds == DataParams
    IN [est |-> e,
        params |-> [j \in 1..Len(ps) |-> [name |-> ps[j].name, val |-> PickVal(idx, j, ps[j].vals)]],
        data |-> [j \in 1..Len(ds) |-> [name |-> ds[j].name, val |-> PickVal(idx, 100 + j, ds[j].vals)]]]

Get(seq, nm) == LET s == {j \in 1..Len(seq) : seq[j].name = nm} IN IF s = {} THEN "absent" ELSE seq[CHOOSE j \in s : TRUE].val
(* combination rules under which the configuration is one the estimator's own validation accepts and the data is legal *)
Valid(c) ==
    LET d == Get(c.data, "d")
    IN /\ (Get(c.params, "groups") = "pair01" => d \in {"2", "3"})
       /\ (c.est = "Kauri" => ~(Get(c.params, "min_samples_leaf") = "2" /\ Get(c.params, "min_samples_split") \in {"2", "3"}))
       /\ (c.est = "Kauri" => ~(Get(c.params, "min_samples_leaf") = "2" /\ Get(c.params, "max_clusters") = "1" /\ Get(c.data, "n") = "K"))
                                                                                       \* fewer samples than min_samples_leaf
       /\ (Get(c.params, "gemini") = "inst_mmd_precomputed" \/ Get(c.params, "kernel") = "precomputed"
             \/ Get(c.params, "metric") = "precomputed" => TRUE)                     \* the harness supplies the matrix
       /\ (Get(c.params, "kernel_params") = "gamma2" => Get(c.params, "kernel") \in {"rbf", "laplacian", "sigmoid", "polynomial"})
       /\ (Get(c.params, "dynamic") = "true" => ~(Get(c.params, "kernel") = "precomputed" \/ Get(c.params, "gemini") = "inst_mmd_precomputed"))
(* what a successful fit must leave behind (C04); interpreted by the harness against the real estimator *)
Post(c) == IF c.est = "Kauri"
           THEN [labels |-> "one per sample, in 0..max_clusters-1, contiguous from 0", tree |-> "tree_ present, 2*leaves-1 nodes",
                 predict |-> "predict(training) = labels_", score |-> "kernel-KMeans objective of labels_"]
           ELSE [labels |-> "one per sample, in 0..n_clusters-1", proba |-> "rows are probability vectors of length n_clusters",
                 predict |-> "argmax predict_proba = labels_ on the training data", score |-> "GEMINI(predict_proba, affinity)",
                 n_iter |-> Get(c.params, "max_iter"), optimiser |-> Get(c.params, "solver")]

Init == ph = "start" /\ i = 0 /\ blk = -1
PickBlock == ph = "start" /\ blk' \in 0..(NBLK - 1) /\ ph' = "block" /\ UNCHANGED i
PickDraw == ph = "block" /\ i' \in {j \in 1..NDRAWS : j % NBLK = blk} /\ ph' = "draw" /\ UNCHANGED blk
Next == PickBlock \/ PickDraw
Emit == ph = "draw" => LET c == Draw(i) IN PrintT(ToJson([i |-> i, est |-> c.est, params |-> c.params, data |-> c.data,
                                                            valid |-> Valid(c), post |-> Post(c)]))
(* every estimator and every value of every parameter is drawn at least once when NDRAWS is large enough: checked by the harness *)
==============================================================================================================
