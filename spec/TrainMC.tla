------------------------------------------------- MODULE TrainMC -------------------------------------------------
(* Exhaustive exploration of Train for small n: every batch size, every epoch count, every permutation.            *)
EXTENDS Train
CONSTANTS MaxN, MaxIter
Configs == {[n |-> n, d |-> 2, groups |-> gr, bs |-> b, maxiter |-> m, hasaff |-> h, affid |-> h, decorated |-> FALSE, whole |-> w, sparse |-> s, mode |-> "fit"] :
              n \in 1..MaxN, b \in 1..(MaxN + 1), m \in 1..MaxIter, h \in BOOLEAN, w \in BOOLEAN, s \in BOOLEAN,
              gr \in {<<>>, <<<<0, 1>>>>}}
Valid(c) == (c.whole => c.bs = c.n) /\ c.bs <= c.n + 1
MCBegin == \E c \in Configs : Valid(c) /\ Begin([c EXCEPT !.bs = IF c.bs > c.n THEN c.n ELSE c.bs])
MCBatch == \E k \in 1..cf.bs : \E idx \in [1..k -> remaining] : Batch(idx)
Next == MCBegin \/ StartEpoch \/ (ph = "batch" /\ remaining # {} /\ MCBatch) \/ Update \/ (\E s \in SUBSET (0..1) : Prox(s)) \/ Finish
(* every epoch delivers every sample exactly once: when an epoch is over nothing remains, and a sample can only be  *)
(* delivered while it is in `remaining` *)
View == <<cf, ph, epoch, remaining, Len(cur), steps, sel>>
==============================================================================================================
