------------------------------------------------ MODULE KauriPrint ------------------------------------------------
(* What print_kauri_tree must print (C19), as a function of the node table `tree` of KauriFit.                    *)
(*                                                                                                              *)
(* The printed text is abstracted to a sequence of TOKENS, one per printed line, produced by a depth-first walk    *)
(* from node 0 (walk depth dp = nesting level of the line):                                                      *)
(*     [t |-> "node",    id, depth]                      "Node i"                                                *)
(*     [t |-> "cluster", target, depth]                  "Cluster: k"          (leaf)                            *)
(*     [t |-> "le", name, th, depth]  <left subtree>     "name <= th"          (inner node, then its left child)  *)
(*     [t |-> "gt", name, th, depth]  <right subtree>    "name > th"           (then its right child)            *)
(* name = the user's name of that feature if a list of names is given, else the default "X[:, f]" (0-based f).   *)
(* A list of names is ACCEPTED iff it can label every feature an inner node uses: Len >= 1 + the largest         *)
(* 0-based feature index used (nothing to label when the tree is a single leaf); otherwise the call must be      *)
(* refused before anything is printed.                                                                          *)
(*                                                                                                              *)
(* Read(tok, names, pt) is a reader of the printed rules who knows nothing about the node table: it follows the   *)
(* "<=" line when the point satisfies it, otherwise looks for the matching ">" line of the same nesting level     *)
(* and follows it if the point satisfies that one.  Theorem (checked by TLC on every tree the greedy machine      *)
(* KauriFitMC can produce, and on the trees of real fits loaded from a file): reading back = Route.               *)
(*                                                                                                              *)
(* Two ways of obtaining trees:  Init/Next of KauriFitMC (all final trees of the fit state machine), or           *)
(* GInit/GNext (node tables recorded from real Kauri.fit runs, file named by the environment variable TREE_FILE). *)
EXTENDS KauriFitMC, Json, IOUtils

--------------------------------------------------------------------------------------------------------------
(* names *)
NoNames == [given |-> FALSE, list |-> <<>>]
Names(l) == [given |-> TRUE, list |-> l]
UserNames(len) == [f \in 1..len |-> "n" \o ToString(f)]            \* the user's list: <<"n1", "n2", ...>>
DefaultName(f) == "X[:, " \o ToString(f - 1) \o "]"                \* spec features are 1-based, printed 0-based
NameOf(nm, f) == IF nm.given THEN nm.list[f] ELSE DefaultName(f)
FeatOf(nm, name) == IF nm.given THEN CHOOSE f \in 1..Len(nm.list) : nm.list[f] = name
                    ELSE CHOOSE f \in 1..D : DefaultName(f) = name

Inner == {i \in 1..Len(tree) : tree[i].left # NoneV}
UsedFeatures == {tree[i].f : i \in Inner}
Need == IF UsedFeatures = {} THEN 0 ELSE CHOOSE m \in UsedFeatures : \A f \in UsedFeatures : f <= m
NamesAccepted(nm) == ~nm.given \/ Len(nm.list) >= Need

--------------------------------------------------------------------------------------------------------------
(* the printing grammar *)
RECURSIVE Walk(_, _, _)
Walk(nm, i, dp) ==
    LET n == tree[i + 1] IN
      <<[t |-> "node", id |-> i, depth |-> dp]>> \o
      (IF n.left = NoneV THEN <<[t |-> "cluster", target |-> n.target, depth |-> dp]>>
       ELSE <<[t |-> "le", name |-> NameOf(nm, n.f), th |-> n.th, depth |-> dp]>> \o Walk(nm, n.left, dp + 1) \o
            <<[t |-> "gt", name |-> NameOf(nm, n.f), th |-> n.th, depth |-> dp]>> \o Walk(nm, n.right, dp + 1))
PrintTokens(nm) == Walk(nm, 0, 0)                                  \* defined when NamesAccepted(nm)

(* reading the printed rules back *)
NoRule == -2                                                       \* neither line of a pair applies to the point
RECURSIVE ReadAt(_, _, _, _)
ReadAt(tok, nm, pt, i) ==                                          \* tok[i] is a "node" line
    LET nx == tok[i + 1] IN
      IF nx.t = "cluster" THEN nx.target
      ELSE LET IsMate(j) == tok[j].t = "gt" /\ tok[j].depth = nx.depth
               j == CHOOSE j \in (i + 2)..Len(tok) : IsMate(j) /\ \A m \in (i + 2)..(j - 1) : ~IsMate(m)
           IN IF pt[FeatOf(nm, nx.name)] <= nx.th THEN ReadAt(tok, nm, pt, i + 2)
              ELSE IF pt[FeatOf(nm, tok[j].name)] > tok[j].th THEN ReadAt(tok, nm, pt, j + 1)
              ELSE NoRule
Read(tok, nm, pt) == ReadAt(tok, nm, pt, 1)

--------------------------------------------------------------------------------------------------------------
(* query points: the grid (-1..V+1)^D (every observed threshold, both sides of it, and out-of-range values),     *)
(* in lexicographic order with the first coordinate most significant                                            *)
RECURSIVE Pow(_, _)
Pow(b, e) == IF e = 0 THEN 1 ELSE b * Pow(b, e - 1)
GB == V + 3
NGrid == Pow(GB, D)
PointAt(k) == [f \in 1..D |-> (((k - 1) \div Pow(GB, D - f)) % GB) - 1]
Grid == Strict([k \in 1..NGrid |-> Strict(PointAt(k))])

--------------------------------------------------------------------------------------------------------------
(* theorems about the grammar, checked on every final tree *)
Final == ph = "done"
ReadBackIsRoute == Final =>
    LET t0 == PrintTokens(NoNames)
        nmD == Names(UserNames(D))
        tD == PrintTokens(nmD)
    IN \A k \in 1..NGrid : Read(t0, NoNames, Grid[k]) = Route(Grid[k]) /\ Read(tD, nmD, Grid[k]) = Route(Grid[k])
(* every node is printed exactly once, at the depth recorded in the node table *)
EveryNodeOnce == Final =>
    LET t0 == PrintTokens(NoNames)
        nodes == {j \in 1..Len(t0) : t0[j].t = "node"}
    IN /\ Cardinality(nodes) = Len(tree)
       /\ {t0[j].id : j \in nodes} = 0..(Len(tree) - 1)
       /\ \A j \in nodes : t0[j].depth = tree[t0[j].id + 1].depth
       /\ Len(t0) = 2 * Len(tree) + Cardinality(Inner)
(* names only relabel: an accepted list of any length prints what the full list prints, and the default names    *)
(* sit exactly where the user's names do                                                                        *)
NamesOnlyRelabel == Final =>
    LET t0 == PrintTokens(NoNames)
        tF == PrintTokens(Names(UserNames(D + 1)))
    IN /\ \A len \in 0..(D + 1) : NamesAccepted(Names(UserNames(len))) => PrintTokens(Names(UserNames(len))) = tF
       /\ \A len \in 0..(D + 1) : NamesAccepted(Names(UserNames(len))) <=> \A f \in UsedFeatures : f <= len
       /\ Len(tF) = Len(t0)
       /\ \A j \in 1..Len(t0) :
             IF t0[j].t \in {"le", "gt"}
             THEN tF[j].t = t0[j].t /\ tF[j].th = t0[j].th /\ tF[j].depth = t0[j].depth
                  /\ \E f \in UsedFeatures : t0[j].name = DefaultName(f) /\ tF[j].name = UserNames(D + 1)[f]
             ELSE tF[j] = t0[j]

--------------------------------------------------------------------------------------------------------------
(* export: one JSON line per final tree *)
Col(fld) == [i \in 1..Len(tree) |-> tree[i][fld]]
Output == [d |-> D, v |-> V, id |-> chunk, n |-> IF X = <<>> THEN 0 ELSE N, X |-> X,
           left |-> Col("left"), right |-> Col("right"), feat |-> Col("f"), th |-> Col("th"),
           target |-> Col("target"), depth |-> Col("depth"),
           tokens |-> PrintTokens(NoNames),
           named |-> PrintTokens(Names(UserNames(D + 1))),
           used |-> SetToSeq(UsedFeatures), need |-> Need,
           accept |-> [j \in 1..(D + 2) |-> NamesAccepted(Names(UserNames(j - 1)))],      \* lengths 0..D+1
           route |-> [k \in 1..NGrid |-> Route(Grid[k])]]
Emit == Final => PrintT(ToJson(Output))

--------------------------------------------------------------------------------------------------------------
(* node tables of real fits: {"trees": [[node, ...], ...]}, node = {left, right, f, th, target, depth, gain, size} *)
GivenTrees == IF "TREE_FILE" \in DOMAIN IOEnv THEN JsonDeserialize(IOEnv.TREE_FILE).trees ELSE <<>>
GInit == FInit /\ chunk = 0
GPick == /\ ph = "start" /\ chunk = 0
         /\ \E k \in 1..Len(GivenTrees) : chunk' = k /\ tree' = GivenTrees[k]
         /\ ph' = "done"
         /\ UNCHANGED <<X, K, par, st, expl, depthOf, leafNode, gains, lastPos, dev>>
GNext == GPick
(* a loaded table must be a tree rooted at node 0 (children after their father, as _add_child creates them)      *)
GivenWellFormed == Final =>
    \A i \in 1..Len(tree) :
        IF tree[i].left = NoneV THEN tree[i].right = NoneV
        ELSE /\ tree[i].left \in i..(Len(tree) - 1) /\ tree[i].right \in i..(Len(tree) - 1)
             /\ tree[i].left # tree[i].right /\ tree[i].f \in 1..D
==============================================================================================================
