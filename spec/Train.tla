-------------------------------------------------- MODULE Train --------------------------------------------------
(* The training loop of every gradient-trained GemClus model (C10; carrier of C03/C06/C14/C17 step predicates):   *)
(*    fit:   for epoch in 1..max_iter:  for each batch yielded by _batchify:  infer, GEMINI gradient, back-prop,    *)
(*           optimiser step [, proximal step for sparse models]                                                    *)
(*    path:  the same epoch structure, the number of epochs being decided by the patience rule (module Path)      *)
(* One action per critical section: StartEpoch (a new permutation is drawn), Batch (a batch and its affinity       *)
(* block are yielded), Update (the optimiser is called), Prox (sparse models), Finish.                            *)
(* Sample identity is the index in the training array (0-based).  The affinity matrix is abstracted by the         *)
(* injective map  Aff(i,j) = i*n + j, so a block can only match if rows AND columns AND order are right.            *)
EXTENDS Integers, Sequences, FiniteSets, TLC

VARIABLES cf,         \* [n, d, groups, bs, maxiter, hasaff, affid, decorated, whole, sparse, mode]   (bs = effective batch size;
                      \*  affid: the affinity is the injective map Aff, so blocks can be checked here)
          ph,         \* "start" | "epoch" | "batch" | "update" | "prox" | "done"
          epoch,      \* epochs begun
          remaining,  \* samples not yet delivered in the current epoch
          cur,        \* the batch being processed (sequence of sample ids)
          steps,      \* optimiser steps so far
          sel         \* sparse models: features whose (skip-)weight row is non-zero after the last proximal step
tvars == <<cf, ph, epoch, remaining, cur, steps, sel>>

Aff(i, j) == i * cf.n + j
Ceil(a, b) == (a + b - 1) \div b
MinI(a, b) == IF a < b THEN a ELSE b
RangeOf(s) == {s[i] : i \in 1..Len(s)}
Injective(s) == \A i, j \in 1..Len(s) : s[i] = s[j] => i = j

Init == ph = "start" /\ cf = <<>> /\ epoch = 0 /\ remaining = {} /\ cur = <<>> /\ steps = 0 /\ sel = {}

Begin(c) == /\ ph = "start" /\ cf' = c /\ ph' = "epoch" /\ sel' = 0..(c.d - 1)
            /\ UNCHANGED <<epoch, remaining, cur, steps>>

EpochOver == (ph = "epoch") \/ (ph = "batch" /\ remaining = {})
StartEpoch == /\ EpochOver
              /\ (cf.mode = "fit" => epoch < cf.maxiter)
              /\ epoch' = epoch + 1 /\ remaining' = 0..(cf.n - 1) /\ ph' = "batch"
              /\ UNCHANGED <<cf, cur, steps, sel>>

(* a batch: the next min(bs, |remaining|) samples of the epoch's permutation, each exactly once per epoch *)
BatchShape(idx) == /\ Len(idx) = MinI(cf.bs, Cardinality(remaining))
                   /\ Injective(idx) /\ RangeOf(idx) \subseteq remaining
                   /\ (cf.whole => idx = [i \in 1..cf.n |-> i - 1])           \* nonparametric models see the full data
BlockAligned(idx, block) == /\ Len(block) = Len(idx)
                            /\ \A r \in 1..Len(idx) : /\ Len(block[r]) = Len(idx)
                                                      /\ \A c \in 1..Len(idx) : block[r][c] = Aff(idx[r], idx[c])
Batch(idx) == /\ ph = "batch" /\ remaining # {}
              /\ BatchShape(idx)
              /\ remaining' = remaining \ RangeOf(idx) /\ cur' = idx /\ ph' = "update"
              /\ UNCHANGED <<cf, epoch, steps, sel>>
Update == /\ ph = "update" /\ steps' = steps + 1
          /\ ph' = IF cf.sparse THEN "prox" ELSE "batch"
          /\ UNCHANGED <<cf, epoch, remaining, cur, sel>>
(* the proximal step of a sparse model: some feature rows are zeroed (others may have been revived by the optimiser    *)
(* step); the features of a declared group live and die together                                                    *)
GroupsWhole(s) == \A gi \in 1..Len(cf.groups) : LET g == RangeOf(cf.groups[gi]) IN g \subseteq s \/ g \cap s = {}
Prox(s) == /\ ph = "prox" /\ s \subseteq 0..(cf.d - 1) /\ GroupsWhole(s)
           /\ sel' = s /\ ph' = "batch" /\ UNCHANGED <<cf, epoch, remaining, cur, steps>>
Finish == /\ EpochOver /\ (cf.mode = "fit" => epoch = cf.maxiter)
          /\ ph' = "done" /\ UNCHANGED <<cf, epoch, remaining, cur, steps, sel>>

GroupsStayWhole == ph # "start" => GroupsWhole(sel)
(* theorems (model-checked on the specification for all n, bs, max_iter in range; evaluated on every real trace) *)
BatchSizeOK == ph \in {"update", "prox"} => Len(cur) <= cf.bs /\ Len(cur) >= 1
StepCount == (ph = "done" /\ cf.mode = "fit") => steps = cf.maxiter * Ceil(cf.n, cf.bs) /\ epoch = cf.maxiter
StepsSoFar == (ph \in {"batch", "update", "prox"}) =>
                 steps = (epoch - 1) * Ceil(cf.n, cf.bs) + Ceil(cf.n - Cardinality(remaining), cf.bs)
                         - (IF ph = "update" THEN 1 ELSE 0)
==============================================================================================================
