------------------------------------------------ MODULE Backprop ------------------------------------------------
(* C03 (a): what every gradient-trained family must hand to the optimiser, derived from the forward maps.           *)
(*                                                                                                              *)
(* Given a batch X, the model's prediction rows y (a probability vector per sample), the GEMINI gradient g w.r.t.  *)
(* those predictions and the parameter values, the direction for a scalar parameter p is                           *)
(*        dir_p = - ( SUM_{i,k} tau_ik * d z_ik / d p )  +  d penalty / d p                                         *)
(* with tau_ik = y_ik (g_ik - SUM_l y_il g_il)   (derivative of the GEMINI through the softmax) and z the logits.   *)
(* d z / d p is NOT transcribed from the code: the forward map of each family is written down and evaluated on     *)
(* forward-mode dual numbers seeded on the single scalar p (module Rat), in exact rationals.                       *)
(* Families: linear (logistic / RIM / sparse linear), mlp, sparsemlp (skip connection), categorical (free logits), *)
(* kernelrim (kernel features + kernel-weighted l2), douglas (soft-binned grid; bin memberships given).            *)
EXTENDS Rat, Json, IOUtils, SequencesExt

CONSTANTS NCH, CHUNKS
Cases == JsonDeserialize(IOEnv.CASES_FILE).cases
VARIABLES ph, chunk, cid
vars == <<ph, chunk, cid>>

RECURSIVE RSumSet(_, _)
RSumSet(S, f) == IF S = {} THEN RZero ELSE LET e == CHOOSE e \in S : TRUE IN RAdd(f[e], RSumSet(S \ {e}, f))
RECURSIVE DSumSet(_, _)
DSumSet(S, f) == IF S = {} THEN DZero ELSE LET e == CHOOSE e \in S : TRUE IN DAdd(f[e], DSumSet(S \ {e}, f))
Qr(v) == Q(v[1], v[2])                                  \* JSON [num, den] -> rational

(* tau = y .* (g - <y, g>) : exact rationals *)
Tau(c) == LET n == Len(c.y)
              K == Len(c.y[1])
              Y == Strict([i \in 1..n |-> Strict([k \in 1..K |-> Q(c.y[i][k], c.q)])])
              G == Strict([i \in 1..n |-> Strict([k \in 1..K |-> R(c.g[i][k])])])
              dot == Strict([i \in 1..n |-> RSum([k \in 1..K |-> RMul(Y[i][k], G[i][k])])])
          IN Strict([i \in 1..n |-> Strict([k \in 1..K |-> RMul(Y[i][k], RSub(G[i][k], dot[i]))])])

(* a parameter entry as a dual number: derivative 1 iff it is the seeded scalar *)
Par(c, p, name, i, j) == DV(R(c[name][i][j]), IF p = <<name, i, j>> THEN ROne ELSE RZero)
Relu(v) == IF v[1][1] > 0 THEN v ELSE DZero             \* cases with a zero pre-activation are not generated

(* logits z[i][k] of each family, on duals seeded on p *)
Logits(c, p) ==
    LET n == Len(c.y)
        K == Len(c.y[1])
        d == IF c.X = <<>> THEN 0 ELSE Len(c.X[1])
    IN CASE c.fam = "linear" ->
              [i \in 1..n |-> [k \in 1..K |->
                 DAdd(DSum([f \in 1..d |-> DScale(R(c.X[i][f]), Par(c, p, "W", f, k))]), Par(c, p, "b", 1, k))]]
         [] c.fam \in {"mlp", "sparsemlp"} ->
              LET h == Len(c.b1[1])
                  H == Strict([i \in 1..n |-> Strict([j \in 1..h |->
                          Relu(DAdd(DSum([f \in 1..d |-> DScale(R(c.X[i][f]), Par(c, p, "W1", f, j))]), Par(c, p, "b1", 1, j)))])])
              IN [i \in 1..n |-> [k \in 1..K |->
                    DAdd(DAdd(DSum([j \in 1..h |-> DMul(H[i][j], Par(c, p, "W2", j, k))]), Par(c, p, "b2", 1, k)),
                         IF c.fam = "sparsemlp"
                         THEN DSum([f \in 1..d |-> DScale(R(c.X[i][f]), Par(c, p, "Ws", f, k))]) ELSE DZero)]]
         [] c.fam = "categorical" ->
              [i \in 1..n |-> [k \in 1..K |-> Par(c, p, "lg", i, k)]]
         [] c.fam = "kernelrim" ->                      \* X holds the batch rows of the training kernel
              [i \in 1..n |-> [k \in 1..K |->
                 DAdd(DSum([f \in 1..d |-> DScale(R(c.X[i][f]), Par(c, p, "W", f, k))]), Par(c, p, "b", 1, k))]]

(* documented penalties (subtracted from the GEMINI, so their gradient is ADDED to the minimised direction) *)
Penalty(c, p) ==
    CASE c.fam = "kernelrim" ->                         \* reg * trace(W' K W), K the full training kernel
           LET m == Len(c.W)
               K == Len(c.W[1])
           IN DScale(Qr(c.reg), DSumSet((1..m) \X (1..m) \X (1..K),
                   [t \in (1..m) \X (1..m) \X (1..K) |->
                        DScale(R(c.Kf[t[1]][t[2]]), DMul(Par(c, p, "W", t[1], t[3]), Par(c, p, "W", t[2], t[3])))]))
      [] c.fam = "linear" /\ c.reg # <<0, 1>> ->         \* RIM: reg * ||W||^2
           LET m == Len(c.W)
               K == Len(c.W[1])
           IN DScale(Qr(c.reg), DSumSet((1..m) \X (1..K), [t \in (1..m) \X (1..K) |->
                                                         DMul(Par(c, p, "W", t[1], t[2]), Par(c, p, "W", t[1], t[2]))]))
      [] OTHER -> DZero

Dir(c, tau, p) ==
    LET z == Logits(c, p)
        n == Len(c.y)
        K == Len(c.y[1])
        dJ == RSumSet((1..n) \X (1..K), [t \in (1..n) \X (1..K) |-> RMul(tau[t[1]][t[2]], z[t[1]][t[2]][2])])
    IN RAdd(RNeg(dJ), Penalty(c, p)[2])

ParamNames(c) == CASE c.fam = "linear" -> <<"W", "b">>
                   [] c.fam = "kernelrim" -> <<"W", "b">>
                   [] c.fam = "mlp" -> <<"W1", "W2", "b1", "b2">>
                   [] c.fam = "sparsemlp" -> <<"W1", "W2", "Ws", "b1", "b2">>
                   [] c.fam = "categorical" -> <<"lg">>
Expected(c) == LET tau == Tau(c)
                   names == ParamNames(c)
               IN [a \in 1..Len(names) |->
                     [name |-> names[a],
                      dir |-> [i \in 1..Len(c[names[a]]) |-> [j \in 1..Len(c[names[a]][i]) |-> Dir(c, tau, <<names[a], i, j>>)]]]]

--------------------------------------------------------------------------------------------------------------
(* Douglas: leaf = Kronecker product of the per-feature soft bin memberships B_f (given, rows sum to 1), logits =  *)
(* leaf . scores.  Bin j (0..C) of a feature has pre-softmax logit  (x (j+1) - SUM_{s<=j} sortedcut_s) / T, hence    *)
(*     d B_ij / d sortedcut_s = - (B_ij / T) ( [s <= j] - SUM_m B_im [s <= m] )                                       *)
(* and the cut point with original index r is the sorted one at the position s with order[s] = r.                   *)
DBins(c) == Strict([f \in 1..Len(c.bins) |-> Strict([i \in 1..Len(c.bins[f]) |->
                 Strict([j \in 1..Len(c.bins[f][i]) |-> Q(c.bins[f][i][j], c.qb)])])])
RECURSIVE Digits(_, _, _)
Digits(l, radices, f) == IF f = 0 THEN <<>>              \* mixed radix, first feature most significant; l 0-based
                         ELSE Append(Digits(l \div radices[f], radices, f - 1), l % radices[f])
DouglasExpected(c) ==
    LET tau == Tau(c)
        B == DBins(c)
        F == Len(B)
        n == Len(c.y)
        K == Len(c.y[1])
        rad == [f \in 1..F |-> Len(B[f][1])]
        Lf == Len(c.S)
        dig == Strict([l \in 1..Lf |-> Digits(l - 1, rad, F)])
        leaf == Strict([i \in 1..n |-> Strict([l \in 1..Lf |->
                   LET prod[f \in 0..F] == IF f = 0 THEN ROne ELSE RMul(prod[f - 1], B[f][i][dig[l][f] + 1]) IN prod[F]])])
        Temp == Qr(c.T)
        dS == [l \in 1..Lf |-> [k \in 1..K |-> RNeg(RSumSet(1..n, [i \in 1..n |-> RMul(leaf[i][l], tau[i][k])]))]]
        Ind(s, j) == IF s <= j THEN ROne ELSE RZero       \* s in 1..C (sorted position), j in 0..C
        dB(f, i, j, s) == LET C == rad[f] - 1
                              mean == RSumSet(0..C, [m \in 0..C |-> RMul(B[f][i][m + 1], Ind(s, m))])
                          IN RNeg(RMul(RDiv(B[f][i][j + 1], Temp), RSub(Ind(s, j), mean)))
        others(f, i, l) == LET prod[g \in 0..F] == IF g = 0 THEN ROne
                                                    ELSE IF g = f THEN prod[g - 1] ELSE RMul(prod[g - 1], B[g][i][dig[l][g] + 1])
                           IN prod[F]
        dSorted(f, s) == RSumSet((1..n) \X (1..Lf) \X (1..K),
                              [t \in (1..n) \X (1..Lf) \X (1..K) |->
                                   RMul(tau[t[1]][t[3]], RMul(R(c.S[t[2]][t[3]]),
                                        RMul(dB(f, t[1], dig[t[2]][f], s), others(f, t[1], t[2]))))])
        PosOf(f, r) == CHOOSE s \in 1..(rad[f] - 1) : c.order[f][s] = r - 1      \* order is 0-based as numpy's argsort
    IN <<[name |-> "S", dir |-> dS]>> \o
       [f \in 1..F |-> [name |-> "cuts", dir |-> <<[r \in 1..(rad[f] - 1) |-> RNeg(dSorted(f, PosOf(f, r)))]>>]]

Output(c) == [id |-> c.id, fam |-> c.fam, out |-> IF c.fam = "douglas" THEN DouglasExpected(c) ELSE Expected(c)]

Init == ph = "start" /\ chunk = -1 /\ cid = 0
PickChunk == ph = "start" /\ chunk' \in CHUNKS /\ ph' = "chunk" /\ UNCHANGED cid
PickCase == ph = "chunk" /\ cid' \in {i \in 1..Len(Cases) : i % NCH = chunk} /\ ph' = "eval" /\ UNCHANGED chunk
Next == PickChunk \/ PickCase
Emit == ph = "eval" => PrintT(ToJson(Output(Cases[cid])))
==============================================================================================================
