------------------------------------------------- MODULE Gemini -------------------------------------------------
(* The GEMINI objectives from first principles, in exact arithmetic (C01, C02, C13).                             *)
(*                                                                                                              *)
(* Input: a prediction matrix P[i][k] = a[i][k] / QD (a an integer count matrix with rows summing to QD), and a  *)
(* tuple x of integer points that induces the kernel / metric matrices.  From these the spec builds, exactly as  *)
(* the documentation defines them,                                                                              *)
(*      pi_k = (1/N) SUM_i P_ik,   p(x_i | y=k) = P_ik / (N pi_k),   p(x_i) = 1/N                                 *)
(* and the textbook distances between two distributions on {x_1..x_N}: KL, total variation, squared Hellinger,  *)
(* Pearson chi-square, kernel MMD and Wasserstein-1 (Kantorovich-Rubinstein dual over integer potentials).       *)
(*      OvA(D) = SUM_k pi_k D(p(.|k), p)        OvO(D) = SUM_{a # b} pi_a pi_b D(p(.|a), p(.|b))                   *)
(* Everything is evaluated on dual numbers seeded with a direction e (P + t e), so the same definitions yield     *)
(* the exact directional derivative.  Results are symbolic term bags (module Rat).                               *)
EXTENDS Rat, Json, SequencesExt

CONSTANTS N,        \* samples
          K,        \* clusters
          QD,       \* common denominator of the entries of P
          NCH,      \* number of work chunks (parallelism and seeded sub-sampling of the large shapes)
          CHUNKS,   \* the chunks explored by this run (a subset of 0..NCH-1)
          GRAD,     \* TRUE: also emit directional derivatives
          CLOSED    \* TRUE: rows may contain zeros (closed simplex; values of the OvA f-divergences only)

VARIABLES ph, chunk, a, x
vars == <<ph, chunk, a, x>>

RECURSIVE ISumTo(_, _)
ISumTo(f, n) == IF n = 0 THEN 0 ELSE ISumTo(f, n - 1) + f[n]

Lo == IF CLOSED THEN 0 ELSE 1
Rows == {r \in [1..K -> Lo..QD] : ISumTo(r, K) = QD}
Hash(m) == ISumTo([i \in 1..N |-> ISumTo([k \in 1..K |-> m[i][k] * (37 * (i * K + k) * (i * K + k) + 101 * (i * K + k))], K)], N)

PointSets ==
    CASE N = 1 -> {<<2>>}
      [] N = 2 -> {<<0, 1>>, <<1, 3>>, <<2, 2>>}
      [] N = 3 -> {<<0, 1, 3>>, <<1, 1, 2>>, <<-1, 0, 2>>}
      [] N = 4 -> {<<0, 1, 2, 4>>, <<0, 0, 3, 3>>, <<-1, 0, 0, 2>>}
      [] OTHER -> {[i \in 1..N |-> i - 1], [i \in 1..N |-> (i * i) % 5]}

KernelNames == {"lin", "lin1", "mix"}
MetricNames == IF N <= 3 THEN {"abs", "disc", "sq"} ELSE {"abs", "disc"}   \* "sq": a convex function of the distance, NOT a metric
TrueMetrics == {"abs", "disc"}
Kern(nm, p) == Strict([i \in 1..N |-> Strict([j \in 1..N |->
    CASE nm = "lin"  -> p[i] * p[j]
      [] nm = "lin1" -> p[i] * p[j] + (IF i = j THEN 1 ELSE 0)
      [] nm = "mix"  -> p[i] * p[j] - (IF i = j /\ p[i] % 2 = 1 THEN 2 ELSE 0)])])
Metr(nm, p) == Strict([i \in 1..N |-> Strict([j \in 1..N |->
    CASE nm = "abs"  -> AbsI(p[i] - p[j])
      [] nm = "disc" -> IF i = j THEN 0 ELSE 1
      [] nm = "sq"   -> LET dd == AbsI(p[i] - p[j]) IN        \* 0,1,2,5: grows faster than a metric may (5 > 1 + 2)
                        IF dd <= 2 THEN dd ELSE 5])])

(* Kantorovich potentials: phi[1] = 0, phi 1-Lipschitz w.r.t. the integer metric.  The feasible polyhedron is   *)
(* integral (difference constraints), so an integral maximiser exists; |phi_i| <= d(1,i).                        *)
Diam(D) == LET S == {D[i][j] : i \in 1..N, j \in 1..N} IN CHOOSE m \in S : \A s \in S : s <= m
Pots(D) == {phi \in [1..N -> (-Diam(D))..Diam(D)] :
                phi[1] = 0 /\ \A i \in 1..N, j \in 1..N : phi[i] - phi[j] <= D[i][j]}
Perms(n) == {f \in [1..n -> 1..n] : \A i, j \in 1..n : f[i] = f[j] => i = j}
AllPts == {[i \in 1..N |-> p[sg[i]]] : p \in PointSets, sg \in Perms(N)}
PotTable == [p \in AllPts |-> [nm \in TrueMetrics |-> Pots(Metr(nm, p))]]        \* constant: evaluated once
(* A cost that is not a metric (a named metric such as the cosine distance is not one either; here: squared distances): *)
(* general Kantorovich dual  max SUM u_i p_i + SUM v_j q_j  s.t. u_i + v_j <= c_ij.  The dual polyhedron is integral for  *)
(* integer costs; with full supports an optimal vertex has v = the c-transform of u and |u_i - u_1| <= max c.            *)
MinOver(S) == CHOOSE m \in S : \A s \in S : m <= s
GenPots(C) == {[u |-> u, v |-> [j \in 1..N |-> MinOver({C[i][j] - u[i] : i \in 1..N})]] :
                  u \in {w \in [1..N -> (-Diam(C))..Diam(C)] : w[1] = 0}}
GenTable == [p \in AllPts |-> GenPots(Metr("sq", p))]

--------------------------------------------------------------------------------------------------------------
(* distances between two dual distributions p, q (sequences 1..N of duals); result [t: dual terms, s: smooth]   *)
DAbsS(v) == IF v[1][1] > 0 THEN [v |-> v, s |-> TRUE, z |-> FALSE]
            ELSE IF v[1][1] < 0 THEN [v |-> DNeg(v), s |-> TRUE, z |-> FALSE]
            ELSE [v |-> DZero, s |-> v[2] = RZero, z |-> TRUE]  \* |x| at x=0: differentiable along e iff x' = 0

KL(p, q) == LET idx == SetToSeq({i \in 1..N : p[i][1] # RZero})       \* 0 log 0 = 0 (closed simplex, values only)
            IN [t |-> Strict([j \in 1..Len(idx) |-> DT(p[idx[j]], "log", DDiv(p[idx[j]], q[idx[j]]))]), s |-> TRUE, z |-> FALSE]
TV(p, q) == LET ab == Strict([i \in 1..N |-> DAbsS(DSub(p[i], q[i]))])
            IN [t |-> Strict([i \in 1..N |-> DTId(DScale(<<1, 2>>, ab[i].v))]), s |-> \A i \in 1..N : ab[i].s,
                z |-> \E i \in 1..N : ab[i].z]
H2(p, q) == [t |-> <<DTId(DOne)>> \o [i \in 1..N |-> DT(DNeg(DOne), "sqrt", DMul(p[i], q[i]))], s |-> TRUE, z |-> FALSE]
CHI(p, q) == [t |-> [i \in 1..N |-> DTId(DDiv(DMul(p[i], p[i]), q[i]))] \o <<DTId(DNeg(DOne))>>, s |-> TRUE, z |-> FALSE]
MMDist(A, p, q) ==
    LET df == Strict([i \in 1..N |-> DSub(p[i], q[i])])
        row == Strict([i \in 1..N |-> DSum([j \in 1..N |-> DScale(R(A[i][j]), df[j])])])
        d2 == DSum([i \in 1..N |-> DMul(df[i], row[i])])
    IN IF d2[1][1] > 0 THEN [t |-> <<DT(DOne, "sqrt", d2)>>, s |-> TRUE, z |-> FALSE]
       ELSE IF d2[1][1] < 0 THEN [t |-> <<>>, s |-> TRUE, z |-> FALSE]   \* ClampNegativeMMD2: "keep if positive"
       ELSE [t |-> <<>>, s |-> FALSE, z |-> TRUE]
W1(pots, p, q) ==
    LET val(phi) == RSum([i \in 1..N |-> RMul(R(phi[i]), RSub(p[i][1], q[i][1]))])
        der(phi) == RSum([i \in 1..N |-> RMul(R(phi[i]), RSub(p[i][2], q[i][2]))])
        vals == {val(phi) : phi \in pots}
        best == CHOOSE m \in vals : \A v \in vals : RLe(v, m)
        arg == {phi \in pots : val(phi) = best}
        ders == {der(phi) : phi \in arg}
    IN [t |-> <<DTId(DV(best, CHOOSE d \in ders : TRUE))>>, s |-> Cardinality(ders) = 1,
        z |-> Cardinality(arg) > 1]

--------------------------------------------------------------------------------------------------------------
OTGen(cands, p, q) ==
    LET val(c) == RAdd(RSum([i \in 1..N |-> RMul(R(c.u[i]), p[i][1])]), RSum([j \in 1..N |-> RMul(R(c.v[j]), q[j][1])]))
        der(c) == RAdd(RSum([i \in 1..N |-> RMul(R(c.u[i]), p[i][2])]), RSum([j \in 1..N |-> RMul(R(c.v[j]), q[j][2])]))
        vals == {val(c) : c \in cands}
        best == CHOOSE m \in vals : \A v \in vals : RLe(v, m)
        arg == {c \in cands : val(c) = best}
        ders == {der(c) : c \in arg}
    IN [t |-> <<DTId(DV(best, CHOOSE d \in ders : TRUE))>>, s |-> Cardinality(ders) = 1,
        z |-> Cardinality(ders) > 1]

Eval(m, pt, e) ==
    LET P == Strict([i \in 1..N |-> Strict([k \in 1..K |-> DV(Q(m[i][k], QD), R(e[i][k]))])])
        Pi == Strict([k \in 1..K |-> DScale(Q(1, N), DSum([i \in 1..N |-> P[i][k]]))])
        Live == {k \in 1..K : Pi[k][1] # RZero}                        \* an empty cluster has no conditional
        Cond == Strict([k \in 1..K |-> IF k \in Live THEN Strict([i \in 1..N |-> DDiv(P[i][k], DScale(R(N), Pi[k]))])
                                  ELSE Strict([i \in 1..N |-> DZero])])
        Marg == Strict([i \in 1..N |-> DC(Q(1, N))])
        LiveSeq == SetToSeq(Live)
        PairSeq == SetToSeq({pr \in Live \X Live : pr[1] # pr[2]})
        OvA(F(_, _)) == LET rs == Strict([j \in 1..Len(LiveSeq) |-> F(Cond[LiveSeq[j]], Marg)])
                        IN [t |-> Flatten([j \in 1..Len(LiveSeq) |-> ScaleTerms(Pi[LiveSeq[j]], rs[j].t)]),
                            s |-> \A j \in 1..Len(LiveSeq) : rs[j].s, z |-> \E j \in 1..Len(LiveSeq) : rs[j].z]
        OvO(F(_, _)) == LET rs == Strict([j \in 1..Len(PairSeq) |-> F(Cond[PairSeq[j][1]], Cond[PairSeq[j][2]])])
                        IN [t |-> Flatten([j \in 1..Len(PairSeq) |->
                                     ScaleTerms(DMul(Pi[PairSeq[j][1]], Pi[PairSeq[j][2]]), rs[j].t)]),
                            s |-> \A j \in 1..Len(PairSeq) : rs[j].s, z |-> \E j \in 1..Len(PairSeq) : rs[j].z]
        HalfPlusHalf(r) == [t |-> ScaleTerms(DC(<<1, 2>>), r.t) \o <<DTId(DC(<<1, 2>>))>>, s |-> r.s, z |-> r.z]
        Res(nm, af, r) == [name |-> nm, aff |-> af, v |-> BagValue(r.t),
                           d |-> IF GRAD /\ r.s THEN BagDeriv(r.t) ELSE <<>>, s |-> r.s, z |-> r.z]
        FD == << Res("kl_ova", "", OvA(KL)), Res("tv_ova", "", OvA(TV)), Res("tv_ovo", "", OvO(TV)),
                 Res("hellinger_ova", "", OvA(H2)), Res("hellinger_ovo", "", OvO(H2)),
                 Res("chi2_ova", "", HalfPlusHalf(OvA(CHI))) >>
              \o (IF CLOSED THEN <<>>       \* KL / chi2 between two conditionals are infinite when a support differs
                  ELSE << Res("kl_ovo", "", OvO(KL)), Res("chi2_ovo", "", HalfPlusHalf(OvO(CHI))) >>)
        KS == SetToSeq(KernelNames)
        MS == SetToSeq(MetricNames)
        MM == Flatten([j \in 1..Len(KS) |->
                 LET A == Kern(KS[j], pt)
                     f(p, q) == MMDist(A, p, q)
                 IN << Res("mmd_ova", KS[j], OvA(f)), Res("mmd_ovo", KS[j], OvO(f)) >>])
        WW == Flatten([j \in 1..Len(MS) |->
                 LET f(p, q) == IF MS[j] \in TrueMetrics THEN W1(PotTable[pt][MS[j]], p, q) ELSE OTGen(GenTable[pt], p, q)
                 IN << Res("wasserstein_ova", MS[j], OvA(f)), Res("wasserstein_ovo", MS[j], OvO(f)) >>])
    IN FD \o MM \o WW

ZeroDir == [i \in 1..N |-> [k \in 1..K |-> 0]]
Dirs == SetToSeq({d \in (1..N) \X (1..(K - 1)) : TRUE})
DirMat(d) == [i \in 1..N |-> [k \in 1..K |-> IF i = d[1] /\ k = d[2] THEN 1
                                             ELSE IF i = d[1] /\ k = K THEN -1 ELSE 0]]
Output(m, pt) ==
    [n |-> N, k |-> K, q |-> QD, a |-> m, x |-> pt,
     base |-> Eval(m, pt, ZeroDir),
     dirs |-> IF GRAD THEN [j \in 1..Len(Dirs) |-> [i |-> Dirs[j][1], k |-> Dirs[j][2], r |-> Eval(m, pt, DirMat(Dirs[j]))]]
              ELSE <<>>]

--------------------------------------------------------------------------------------------------------------
Init == ph = "start" /\ chunk = -1 /\ a = <<>> /\ x = <<>>
PickChunk == ph = "start" /\ chunk' \in CHUNKS /\ ph' = "chunk" /\ UNCHANGED <<a, x>>
PickCase == /\ ph = "chunk"
            /\ \E m \in [1..N -> Rows], pt \in PointSets :
                  /\ Hash(m) % NCH = chunk
                  /\ a' = m /\ x' = pt
            /\ ph' = "eval" /\ UNCHANGED chunk
Next == PickChunk \/ PickCase

(* spec-internal theorems, checked on every enumerated case (C13) *)
ByName(rs, nm, af) == CHOOSE r \in {rs[j] : j \in 1..Len(rs)} : r.name = nm /\ r.aff = af
RationalNames == {<<"tv_ova", "">>, <<"tv_ovo", "">>, <<"chi2_ova", "">>} \cup
                 {<<"wasserstein_ova", mn>> : mn \in MetricNames} \cup {<<"wasserstein_ovo", mn>> : mn \in MetricNames}
BoundsOn(rs) ==
      /\ \A nm \in RationalNames : IsRational(ByName(rs, nm[1], nm[2]).v)
      /\ \A nm \in RationalNames \ {<<"chi2_ova", "">>} : RLe(RZero, RatOf(ByName(rs, nm[1], nm[2]).v))
      /\ RLe(<<1, 2>>, RatOf(ByName(rs, "chi2_ova", "").v))
      /\ RLe(RatOf(ByName(rs, "tv_ova", "").v), ROne) /\ RLe(RatOf(ByName(rs, "tv_ovo", "").v), ROne)
(* C13, in exact arithmetic: every consistent reordering of samples (with the points, hence affinity rows and       *)
(* columns) and of clusters leaves every canonical value bag unchanged.                                           *)
ValCanon(m, pt) == LET rs == Eval(m, pt, ZeroDir) IN {<<rs[j].name, rs[j].aff, CanonS(rs[j].v), rs[j].z>> : j \in 1..Len(rs)}
PermInv == ph = "eval" =>
    LET ref == ValCanon(a, x) IN
      \A sg \in Perms(N), tau \in Perms(K) :
          ValCanon([i \in 1..N |-> [k \in 1..K |-> a[sg[i]][tau[k]]]], [i \in 1..N |-> x[sg[i]]]) = ref
(* predictions that do not depend on the sample give a zero score (chi-square: 1/2) *)
AllRowsEqual == \A i \in 1..N : a[i] = a[1]
ZeroWhenIndependent == (ph = "eval" /\ AllRowsEqual) =>
    LET rs == Eval(a, x, ZeroDir) IN
      \A j \in 1..Len(rs) :
          LET c == CanonS(rs[j].v) IN
            IF rs[j].name \in {"chi2_ova", "chi2_ovo"} THEN c = (<<"id", ROne>> :> <<1, 2>>) ELSE DOMAIN c = {}
(* the mutual information of a balanced hard K-partition is log K *)
OneHot(r) == \E k \in 1..K : r[k] = QD /\ \A l \in 1..K \ {k} : r[l] = 0
Balanced == /\ \A i \in 1..N : OneHot(a[i])
            /\ \A k, l \in 1..K : Cardinality({i \in 1..N : a[i][k] = QD}) = Cardinality({i \in 1..N : a[i][l] = QD})
MILogK == (ph = "eval" /\ CLOSED /\ Balanced) =>
    CanonS(ByName(Eval(a, x, ZeroDir), "kl_ova", "").v) = (<<"log", R(K)>> :> ROne)
(* exporting every evaluated case: one JSON line per state (harness replays it into the real code) *)
Emit == ph = "eval" => LET o == Output(a, x) IN PrintT(ToJson(o)) /\ BoundsOn(o.base)

==============================================================================================================
