------------------------------------------------- MODULE Douglas -------------------------------------------------
(* The documented meaning of a Douglas tree (C15), from first principles and in exact integer arithmetic.         *)
(*                                                                                                              *)
(* Scaling: every coordinate is stored TIMES TWO.  Cut points are half-integers (odd numbers here), prediction   *)
(* data are integers (even numbers here), so a prediction datum never sits on a cut point and its cell is         *)
(* unambiguous.  Data handed to find_active_points may ALSO sit on a cut point (odd values, obtained by shifting   *)
(* samples by +-1), which exercises the word "strictly" of the property.                                         *)
(*                                                                                                              *)
(*   Below(x, cuts)   how many cut points of the feature lie below x           (the sample's cell along a feature) *)
(*   Leaf             mixed-radix number of the cells of the USED features, first used feature most significant *)
(*                    (what reduce(_merge_leaf) = iterated Kronecker product yields), radix n_cuts + 1           *)
(*   NLeaves          (n_cuts + 1) ^ #used                                                                      *)
(*   Active(X)        used features f with a cut c, min X[:,f] < c < max X[:,f]   (both strict)                  *)
(* A masked feature has no cut points and occurs in no definition: it cannot influence anything.                *)
EXTENDS Integers, Sequences, FiniteSets, TLC, Json

CONSTANTS D,        \* number of features (1..3)
          NCUTSET,  \* the values of n_cuts explored
          NCV,      \* number of admissible cut values: -3, -1, 1, ... (x2 scale, i.e. -1.5, -0.5, 0.5, ...)
          GRIDN,    \* number of admissible data values: -2, 0, 2, ...   (x2 scale, i.e. -1, 0, 1, ...)
          NPTSSET,  \* the dataset sizes explored
          DUPS,     \* TRUE: a cut vector may repeat a value (legal for the code: an empty bin)
          NCH,      \* number of work chunks of the model space
          CHUNKS,   \* chunks explored by this run (subset of 0..NCH-1)
          SUB,      \* keep one dataset in SUB (seeded hash); 1 = all datasets
          SALT      \* seed of the dataset sub-sampling

VARIABLES ph, chunk, mask, nc, cuts, X
vars == <<ph, chunk, mask, nc, cuts, X>>

Feats == 1..D
DataVals == {2 * i - 2 : i \in 0..(GRIDN - 1)}
CutVals == {2 * i - 3 : i \in 0..(NCV - 1)}
Points == [Feats -> DataVals]
Masks == {m \in [Feats -> BOOLEAN] : \E f \in Feats : m[f]}                 \* at least one used feature
CutSeqs(n) == IF DUPS THEN [1..n -> CutVals]
              ELSE {s \in [1..n -> CutVals] : \A i, j \in 1..n : s[i] = s[j] => i = j}  \* EVERY order, sorted or not

Strict(s) == s \o <<>>
FeatSeq == [f \in Feats |-> f]
Used(m) == {f \in Feats : m[f]}
UsedSeq(m) == SelectSeq(FeatSeq, LAMBDA f : m[f])                             \* used features in feature order
MaskedSeq(m) == SelectSeq(FeatSeq, LAMBDA f : ~m[f])

RECURSIVE Pow(_, _)
Pow(b, e) == IF e = 0 THEN 1 ELSE b * Pow(b, e - 1)
RECURSIVE Radix(_, _, _)
Radix(cs, k, base) == IF k = 0 THEN 0 ELSE Radix(cs, k - 1, base) * base + cs[k]

--------------------------------------------------------------------------------------------------------------
(* the documented meaning *)
Below(x, cs) == Cardinality({j \in 1..Len(cs) : cs[j] < x})
Cells(p, m, c) == LET us == UsedSeq(m) IN Strict([k \in 1..Len(us) |-> Below(p[us[k]], c[us[k]])])
Leaf(p, m, n, c) == LET cl == Cells(p, m, c) IN Radix(cl, Len(cl), n + 1)
NLeaves(m, n) == Pow(n + 1, Cardinality(Used(m)))

SMin(S) == CHOOSE a \in S : \A b \in S : a <= b
SMax(S) == CHOOSE a \in S : \A b \in S : b <= a
Col(Xs, f) == {Xs[i][f] : i \in 1..Len(Xs)}
Active(Xs, m, c) == {f \in Used(m) : \E j \in 1..Len(c[f]) : SMin(Col(Xs, f)) < c[f][j] /\ c[f][j] < SMax(Col(Xs, f))}
ActiveSeq(Xs, m, c) == LET A == Active(Xs, m, c) IN SelectSeq(FeatSeq, LAMBDA f : f \in A)

(* data for find_active_points: the first two samples shifted by -1/0/+1 (all coordinates), so that data values  *)
(* may coincide with cut points and the minimum / maximum may be attained on a cut point                         *)
ShiftVecs(n) == [1..(IF n < 2 THEN n ELSE 2) -> {-1, 0, 1}]
Shifted(Xs, sv) == Strict([i \in 1..Len(Xs) |-> [f \in Feats |-> Xs[i][f] + (IF i <= Len(sv) THEN sv[i] ELSE 0)]])

--------------------------------------------------------------------------------------------------------------
(* exported records (feature indices 0-based as in the code) *)
Zero(s) == [k \in 1..Len(s) |-> s[k] - 1]
Bit(b) == IF b THEN 1 ELSE 0
Head0(m, n, c) == [d |-> D, mask |-> [f \in Feats |-> Bit(m[f])], ncuts |-> n, cuts |-> c,
                   used |-> Zero(UsedSeq(m)), masked |-> Zero(MaskedSeq(m)), nleaves |-> NLeaves(m, n)]
RECURSIVE S2Q(_)
S2Q(S) == IF S = {} THEN <<>> ELSE LET e == CHOOSE e \in S : TRUE IN <<e>> \o S2Q(S \ {e})
PointSeq == S2Q(Points)                                                       \* constant: evaluated once
ModelOut(m, n, c) ==
    [kind |-> "model", h |-> Head0(m, n, c),
     grid |-> [k \in 1..Len(PointSeq) |-> [p |-> PointSeq[k], cells |-> Cells(PointSeq[k], m, c),
                                           leaf |-> Leaf(PointSeq[k], m, n, c)]]]
CaseOut(m, n, c, Xs) ==
    LET svq == S2Q(ShiftVecs(Len(Xs)))
    IN [kind |-> "case", h |-> Head0(m, n, c), x |-> Xs,
        cells |-> [i \in 1..Len(Xs) |-> Cells(Xs[i], m, c)],
        leaf |-> [i \in 1..Len(Xs) |-> Leaf(Xs[i], m, n, c)],
        active |-> Zero(ActiveSeq(Xs, m, c)),
        shifted |-> [k \in 1..Len(svq) |-> LET xa == Shifted(Xs, svq[k])
                                           IN [xa |-> xa, active |-> Zero(ActiveSeq(xa, m, c))]]]

--------------------------------------------------------------------------------------------------------------
(* seeded hashes: chunking of the model space, sub-sampling of the datasets *)
RECURSIVE SumTo(_, _)
SumTo(f, n) == IF n = 0 THEN 0 ELSE SumTo(f, n - 1) + f[n]
MHash(m, n, c) == SumTo([f \in Feats |-> Bit(m[f]) * (53 * f * f + 7)
                            + SumTo([j \in 1..Len(c[f]) |-> (c[f][j] + 4) * (37 * (f * 4 + j) * (f * 4 + j) + 101 * (f * 4 + j))],
                                    Len(c[f]))], D) + 977 * n
DHash(Xs, mh) == (((SumTo([i \in 1..Len(Xs) |-> SumTo([f \in Feats |->
                        (Xs[i][f] + 3) * (41 * (i * 3 + f) * (i * 3 + f) + 59 * (i * 3 + f))], D)], Len(Xs))
                   + 131 * (mh % 9973) + 7 * Len(Xs) + 613 * SALT) % 65521) * 30011) % 65521

Init == ph = "start" /\ chunk = -1 /\ mask = <<>> /\ nc = 0 /\ cuts = <<>> /\ X = <<>>
PickChunk == ph = "start" /\ chunk' \in CHUNKS /\ ph' = "chunk" /\ UNCHANGED <<mask, nc, cuts, X>>
PickModel == /\ ph = "chunk"
             /\ \E m \in Masks, n \in NCUTSET :
                  LET S(f) == IF f <= D /\ m[f] THEN CutSeqs(n) ELSE {<<>>} IN
                  \E c1 \in S(1), c2 \in S(2), c3 \in S(3) :
                     LET c == SubSeq(<<c1, c2, c3>>, 1, D) IN
                       /\ MHash(m, n, c) % NCH = chunk
                       /\ mask' = m /\ nc' = n /\ cuts' = c
             /\ ph' = "model" /\ UNCHANGED <<chunk, X>>
PickCase == /\ ph = "model"
            /\ LET mh == MHash(mask, nc, cuts) IN
                 \E np \in NPTSSET : \E Xs \in [1..np -> Points] :
                    /\ DHash(Xs, mh) % SUB = 0
                    /\ X' = Xs
            /\ ph' = "eval" /\ UNCHANGED <<chunk, mask, nc, cuts>>
Next == PickChunk \/ PickModel \/ PickCase

--------------------------------------------------------------------------------------------------------------
(* spec-internal theorems, checked on every enumerated model / case *)
HasModel == ph \in {"model", "eval"}
Perms(n) == {f \in [1..n -> 1..n] : \A i, j \in 1..n : f[i] = f[j] => i = j}
Permuted(c, f, pi) == [c EXCEPT ![f] = [j \in 1..Len(c[f]) |-> c[f][pi[j]]]]

(* every leaf index is a leaf; two points share a leaf exactly when they share the cell of every used feature;  *)
(* the cell of a used feature along a point is between 0 and n_cuts                                             *)
LeafTheorems == ph = "model" =>
    /\ \A p \in Points : Leaf(p, mask, nc, cuts) \in 0..(NLeaves(mask, nc) - 1)
    /\ \A p \in Points : \A k \in 1..Len(Cells(p, mask, cuts)) : Cells(p, mask, cuts)[k] \in 0..nc
    /\ \A p, q \in Points : (Leaf(p, mask, nc, cuts) = Leaf(q, mask, nc, cuts)) <=> (Cells(p, mask, cuts) = Cells(q, mask, cuts))
(* a masked feature is inert: points agreeing on the used features fall in the same leaf *)
MaskInert == ph = "model" =>
    \A p, q \in Points : (\A f \in Used(mask) : p[f] = q[f]) => Leaf(p, mask, nc, cuts) = Leaf(q, mask, nc, cuts)
(* "how many cut points lie below" IS the cell of the grid drawn by the cut points: with the cuts sorted and      *)
(* sentinels at both ends, x lies strictly between cut number k and cut number k+1                              *)
SortedCell == ph = "model" =>
    \A f \in Used(mask) : \A v \in DataVals :
        LET sc == SortSeq(cuts[f], <)
            k == Below(v, cuts[f])
        IN /\ (k >= 1 => sc[k] < v)
           /\ (k < nc => v < sc[k + 1])
(* ... and it is the zero-temperature limit of the soft binning: the logit of bin j (up to the common term x and *)
(* the factor 1/2 of the scaling) is SUM_{i <= j} (x - sorted_cut_i); its maximiser is unique and equals Below   *)
Logit(v, sc, j) == SumTo([i \in 1..j |-> v - sc[i]], j)
ArgmaxIsCell == ph = "model" =>
    \A f \in Used(mask) : \A v \in DataVals :
        LET sc == SortSeq(cuts[f], <)
            k == Below(v, cuts[f])
        IN \A j \in 0..nc : j # k => Logit(v, sc, j) < Logit(v, sc, k)
(* the order in which a feature's cut points are stored matters neither for the cells nor for the active set     *)
OrderIrrelevant == ph = "eval" =>
    \A f \in Used(mask) : \A pi \in Perms(nc) :
        LET c2 == Permuted(cuts, f, pi) IN
          /\ \A i \in 1..Len(X) : Cells(X[i], mask, c2) = Cells(X[i], mask, cuts)
          /\ \A sv \in ShiftVecs(Len(X)) : Active(Shifted(X, sv), mask, c2) = Active(Shifted(X, sv), mask, cuts)
(* active features are used features; a feature all of whose cuts are outside (or on the border of) the range of *)
(* the data is not active; a constant feature is never active; a feature with two samples in different cells is   *)
(* active (on prediction data, which never touch a cut)                                                         *)
ActiveTheorems == ph = "eval" =>
    /\ \A sv \in ShiftVecs(Len(X)) :
         LET xa == Shifted(X, sv)
             A == Active(xa, mask, cuts)
         IN /\ A \subseteq Used(mask)
            /\ \A f \in Used(mask) :
                  /\ (\A j \in 1..nc : cuts[f][j] <= SMin(Col(xa, f)) \/ cuts[f][j] >= SMax(Col(xa, f))) => f \notin A
                  /\ Cardinality(Col(xa, f)) = 1 => f \notin A
    /\ \A f \in Used(mask) :
         (f \in Active(X, mask, cuts)) <=> (\E i, j \in 1..Len(X) : Below(X[i][f], cuts[f]) # Below(X[j][f], cuts[f]))

(* exporting every model and every case: one JSON line per state (the harness replays it into the real code) *)
Emit == /\ ph = "model" => PrintT(ToJson(ModelOut(mask, nc, cuts)))
        /\ ph = "eval" => PrintT(ToJson(CaseOut(mask, nc, cuts, X)))
==============================================================================================================
