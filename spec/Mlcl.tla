-------------------------------------------------- MODULE Mlcl --------------------------------------------------
(* Must-link / cannot-link constraints (C14), from first principles.                                             *)
(*                                                                                                              *)
(* A constraint set is a pair (ML, CL) of finite sets of pairs <<i, j>> of sample ids.  Pairs are UNORDERED:      *)
(* <<i, j>> and <<j, i>> mean the same thing; ids are arbitrary naturals (the constant IDS is deliberately        *)
(* non-contiguous).                                                                                             *)
(*   Accept(ML, CL)   no pair <<i, i>>, and no cannot-link pair joins two ids that are connected in the           *)
(*                    undirected must-link graph (transitive closure over the ids that occur).                   *)
(*   Satisfiable      the semantic reading of "not contradictory": some labelling of the ids puts every ML pair   *)
(*                    in one cluster and every CL pair in two.  Theorem AcceptIsSatisfiable ties the two.        *)
(*   Inject           the documented effect on the gradient of the (maximised) objective w.r.t. the prediction    *)
(*                    rows of one batch: row of i gets + f (y_i - y_j) per cannot-link partner j present in the   *)
(*                    batch and - f (y_i - y_j) per must-link partner; everything else is untouched.  Theorem     *)
(*                    InjectIsGradient: this is exactly the gradient of                                          *)
(*                        (f/2) ( SUM_CL |y_i - y_j|^2  -  SUM_ML |y_i - y_j|^2 )     (pairs inside the batch)    *)
(*                    computed with the dual numbers of module Rat; theorem InjectEquivariant: permuting the      *)
(*                    batch permutes the result; theorem Untouched: rows without a partner in the batch keep g.  *)
(*   ShapeVerdict     which input shapes are constraint lists at all.                                           *)
(* MODE selects what one TLC run enumerates: "accept" | "self" | "inject" | "shape".                              *)
EXTENDS Rat, Json, SequencesExt

CONSTANTS IDS,      \* the sample ids that may occur in constraints (non-contiguous, e.g. {0, 3, 7, 12})
          MODE,     \* "accept" | "self" | "inject" | "shape"
          NCH,      \* number of work chunks (a power of two dividing 2^|Pairs| in mode "accept")
          CHUNKS,   \* the chunks explored by this run
          K,        \* clusters (columns of the prediction / gradient rows) in mode "inject"
          FAMMAX,   \* "inject": |ML| + |CL| <= FAMMAX; "self": base sets have at most FAMMAX pairs each
          NV,       \* "inject": number of integer (y, g) value assignments
          NFAC,     \* "inject": number of factors taken from FactorSeq
          FULL,     \* "inject": also the two whole-data batches 0..max(IDS) (identity and reversed order)
          THM       \* "all": check the expensive spec-internal theorems on every case; "some": (mode "inject") on one
                    \* value assignment and the last factor per (batch, constraint set); "none": skip them

VARIABLES ph, chunk, cs
vars == <<ph, chunk, cs>>

RECURSIVE Pow2(_)
Pow2(n) == IF n = 0 THEN 1 ELSE 2 * Pow2(n - 1)
RECURSIVE ISumTo(_, _)
ISumTo(f, n) == IF n = 0 THEN 0 ELSE ISumTo(f, n - 1) + f[n]
MaxOf(S) == CHOOSE m \in S : \A s \in S : s <= m

(* the unordered pairs over IDS, canonically oriented, and subsets of them as bit masks *)
Pairs == {p \in IDS \X IDS : p[1] < p[2]}
PairSeq == SetToSeq(Pairs)
NP == Cardinality(Pairs)
Bit(m, b) == (m \div Pow2(b - 1)) % 2
SetOf(m) == {PairSeq[b] : b \in {c \in 1..NP : Bit(m, c) = 1}}
AllMasks == 0..(Pow2(NP) - 1)

--------------------------------------------------------------------------------------------------------------
(* (a) acceptance *)
Sym(S) == S \cup {<<p[2], p[1]>> : p \in S}
RECURSIVE Closure(_)
Closure(rel) == LET nxt == rel \cup UNION {{<<p[1], q[2]>> : q \in {r \in rel : r[1] = p[2]}} : p \in rel}
                IN IF nxt = rel THEN rel ELSE Closure(nxt)
Connected(ML, i, j) == <<i, j>> \in Closure(Sym(ML))
NoSelf(S) == \A p \in S : p[1] # p[2]
Accept(ML, CL) == /\ NoSelf(ML) /\ NoSelf(CL)
                  /\ \A p \in CL : ~Connected(ML, p[1], p[2])

IdsOf(S) == {p[1] : p \in S} \cup {p[2] : p \in S}
Satisfiable(ML, CL) ==
    LET V == IdsOf(ML \cup CL)
    IN \E lab \in [V -> 1..Cardinality(V)] : /\ \A p \in ML : lab[p[1]] = lab[p[2]]
                                             /\ \A p \in CL : lab[p[1]] # lab[p[2]]

(* (c) shapes: what is a list of index pairs at all.  "none" / "empty" mean "no constraint of this kind".         *)
ShapeNames == {"none", "empty", "pairs", "scalar", "flat", "column"}
ShapeVerdict(s) == s \in {"none", "empty", "pairs"}

--------------------------------------------------------------------------------------------------------------
(* (b) gradient injection on one batch.  idx: injective sequence of sample ids (the order in which the batch     *)
(* lists the samples); y, g: Len(idx) x K integer matrices; f: rational factor; result: matrix of rationals.     *)
Linked(S, a, b) == <<a, b>> \in S \/ <<b, a>> \in S
Pull(idx, y, S, p, k) ==
    ISumTo([q \in 1..Len(idx) |-> IF q # p /\ Linked(S, idx[p], idx[q]) THEN y[p][k] - y[q][k] ELSE 0], Len(idx))
Inject(idx, y, g, ML, CL, f) ==
    Strict([p \in 1..Len(idx) |-> Strict([k \in 1..K |->
        RAdd(R(g[p][k]), RMul(f, R(Pull(idx, y, CL, p, k) - Pull(idx, y, ML, p, k))))])])

(* the objective bonus whose gradient Inject is, on dual numbers *)
DSumOver(S, F(_)) == LET s == SetToSeq(S) IN DSum([j \in 1..Len(s) |-> F(s[j])])
SqDist(yd, p, q) == DSum([k \in 1..K |-> LET d == DSub(yd[p][k], yd[q][k]) IN DMul(d, d)])
PosPairs(idx, S) == {pq \in (1..Len(idx)) \X (1..Len(idx)) : pq[1] < pq[2] /\ Linked(S, idx[pq[1]], idx[pq[2]])}
Bonus(idx, yd, ML, CL, f) ==
    DScale(RHalf(f), DSub(DSumOver(PosPairs(idx, CL), LAMBDA pq : SqDist(yd, pq[1], pq[2])),
                          DSumOver(PosPairs(idx, ML), LAMBDA pq : SqDist(yd, pq[1], pq[2]))))
Seeded(y, p0, k0) == Strict([p \in 1..Len(y) |-> Strict([k \in 1..K |->
                        DV(R(y[p][k]), IF p = p0 /\ k = k0 THEN ROne ELSE RZero)])])
GradBonus(idx, y, ML, CL, f, p0, k0) == Bonus(idx, Seeded(y, p0, k0), ML, CL, f)[2]

(* the enumerated inputs of mode "inject" *)
FactorSeq == << <<1, 1>>, <<3, 1>>, <<1, 2>>, <<5, 4>> >>
Injective(s) == \A a, b \in 1..Len(s) : s[a] = s[b] => a = b
Selections == {s \in UNION {[1..L -> IDS] : L \in 1..Cardinality(IDS)} : Injective(s)}
M == MaxOf(IDS) + 1
FullBatches == IF FULL THEN {[p \in 1..M |-> p - 1], [p \in 1..M |-> M - p]} ELSE {}
BatchSeq == SetToSeq(Selections \cup FullBatches)
Fam == {mc \in UNION {{<<m, S \ m>> : m \in SUBSET S} :
                          S \in {U \in SUBSET Pairs : Cardinality(U) \in 1..FAMMAX}} : Accept(mc[1], mc[2])}
FamSeq == SetToSeq(Fam)
YV(v, p, id, k) == (((v + 1) * p * p + 3 * k * p + 5 * v + k + 2 * id) % 11) - 5
GV(v, p, id, k) == (((v + 2) * p + 7 * k + p * p * k + id) % 13) - 6
YMat(v, idx) == Strict([p \in 1..Len(idx) |-> Strict([k \in 1..K |-> YV(v, p, idx[p], k)])])
GMat(v, idx) == Strict([p \in 1..Len(idx) |-> Strict([k \in 1..K |-> GV(v, p, idx[p], k)])])

--------------------------------------------------------------------------------------------------------------
Init == ph = "start" /\ chunk = -1 /\ cs = <<>>
PickChunk == ph = "start" /\ chunk' \in CHUNKS /\ ph' = "chunk" /\ UNCHANGED cs

(* every (ml, cl) mask pair belongs to exactly one chunk: cl = ((chunk + 7 ml) mod NCH) + NCH t *)
PickAccept == \E ml \in AllMasks, t \in 0..((Pow2(NP) \div NCH) - 1) :
                 cs' = [ml |-> SetOf(ml), cl |-> SetOf(((chunk + 7 * ml) % NCH) + NCH * t)]
(* a self pair <<s, s>> in ML, in CL or in both, on top of every small base set *)
Small == {m \in AllMasks : Cardinality(SetOf(m)) <= FAMMAX}
PickSelf == \E s \in IDS, w \in {"ml", "cl", "both"}, ml \in {m \in Small : m % NCH = chunk}, cl \in Small :
                 cs' = [ml |-> SetOf(ml) \cup (IF w \in {"ml", "both"} THEN {<<s, s>>} ELSE {}),
                        cl |-> SetOf(cl) \cup (IF w \in {"cl", "both"} THEN {<<s, s>>} ELSE {})]
PickInject == \E a \in 1..Len(FamSeq), b \in 1..Len(BatchSeq), v \in 1..NV, fi \in 1..NFAC :
                 /\ (a + 5 * b + 11 * v + 3 * fi) % NCH = chunk
                 /\ cs' = [idx |-> BatchSeq[b], y |-> YMat(v, BatchSeq[b]), g |-> GMat(v, BatchSeq[b]),
                           f |-> FactorSeq[fi], ml |-> FamSeq[a][1], cl |-> FamSeq[a][2], v |-> v]
PickShape == \E a \in ShapeNames, b \in ShapeNames : cs' = [ml |-> a, cl |-> b]
PickCase == /\ ph = "chunk"
            /\ CASE MODE = "accept" -> PickAccept
                 [] MODE = "self"   -> PickSelf
                 [] MODE = "inject" -> PickInject
                 [] MODE = "shape"  -> PickShape
            /\ ph' = "eval" /\ UNCHANGED chunk
Next == PickChunk \/ PickCase

--------------------------------------------------------------------------------------------------------------
(* exporting every case: one JSON line per state *)
Output ==
    CASE MODE \in {"accept", "self"} ->
            [mode |-> MODE, ml |-> SetToSeq(cs.ml), cl |-> SetToSeq(cs.cl), accept |-> Accept(cs.ml, cs.cl)]
      [] MODE = "inject" ->
            [mode |-> MODE, idx |-> cs.idx, y |-> cs.y, g |-> cs.g, f |-> cs.f, v |-> cs.v,
             ml |-> SetToSeq(cs.ml), cl |-> SetToSeq(cs.cl),
             out |-> Inject(cs.idx, cs.y, cs.g, cs.ml, cs.cl, cs.f)]
      [] MODE = "shape" ->
            [mode |-> MODE, ml |-> cs.ml, cl |-> cs.cl, accept |-> ShapeVerdict(cs.ml) /\ ShapeVerdict(cs.cl)]
Emit == ph = "eval" => PrintT(ToJson(Output))

(* spec-internal theorems *)
AcceptIsSatisfiable == (ph = "eval" /\ THM # "none" /\ MODE \in {"accept", "self"}) =>
    (Accept(cs.ml, cs.cl) <=> (NoSelf(cs.ml \cup cs.cl) /\ Satisfiable(cs.ml, cs.cl)))
(* acceptance does not depend on how a pair is oriented *)
AcceptUnordered == (ph = "eval" /\ THM # "none" /\ MODE \in {"accept", "self"}) =>
    /\ Accept(cs.ml, cs.cl) = Accept(Sym(cs.ml), Sym(cs.cl))
    /\ Accept(cs.ml, cs.cl) = Accept({<<p[2], p[1]>> : p \in cs.ml}, cs.cl)
TheoremCase == THM = "all" \/ (THM = "some" /\ cs.v = 1 /\ cs.f = FactorSeq[NFAC])
InjectIsGradient == (ph = "eval" /\ MODE = "inject" /\ TheoremCase) =>
    LET out == Inject(cs.idx, cs.y, cs.g, cs.ml, cs.cl, cs.f)
    IN \A p \in 1..Len(cs.idx), k \in 1..K :
          out[p][k] = RAdd(R(cs.g[p][k]), GradBonus(cs.idx, cs.y, cs.ml, cs.cl, cs.f, p, k))
Untouched == (ph = "eval" /\ MODE = "inject") =>
    LET out == Inject(cs.idx, cs.y, cs.g, cs.ml, cs.cl, cs.f)
    IN \A p \in 1..Len(cs.idx) :
          (~\E q \in 1..Len(cs.idx) : q # p /\ Linked(cs.ml \cup cs.cl, cs.idx[p], cs.idx[q]))
              => \A k \in 1..K : out[p][k] = R(cs.g[p][k])
Perms(n) == {s \in [1..n -> 1..n] : Injective(s)}
InjectEquivariant == (ph = "eval" /\ MODE = "inject" /\ TheoremCase /\ Len(cs.idx) <= 4) =>
    LET n == Len(cs.idx)
        out == Inject(cs.idx, cs.y, cs.g, cs.ml, cs.cl, cs.f)
    IN \A sg \in Perms(n) :
          Inject([p \in 1..n |-> cs.idx[sg[p]]], [p \in 1..n |-> cs.y[sg[p]]], [p \in 1..n |-> cs.g[sg[p]]],
                 cs.ml, cs.cl, cs.f) = [p \in 1..n |-> out[sg[p]]]
==============================================================================================================
