------------------------------------------------ MODULE TrainTrace ------------------------------------------------
(* Trace validation of real fit / path executions against Train (code -> spec; C10 and the step predicates of      *)
(* C03, C06, C14, C17).  Events: begin, epoch (a new _batchify generator starts), batch, update (optimiser called),  *)
(* prox (sparse models), finish.  Float predicates evaluated by the recorder arrive as booleans that the actions     *)
(* require to be TRUE; every other field is an integer.                                                            *)
EXTENDS Train, Json, IOUtils

CONSTANTS TIDS
Traces == JsonDeserialize(IOEnv.TRACE_FILE).traces
VARIABLES tid, l
allvars == <<tvars, tid, l>>

Ev == Traces[tid][l]
More == l <= Len(Traces[tid])
IsEvent(e) == More /\ Ev.e = e /\ l' = l + 1 /\ UNCHANGED tid

TInit == Init /\ tid \in (IF TIDS = 0 THEN 1..Len(Traces) ELSE {TIDS}) /\ l = 1
TBegin == IsEvent("begin") /\ Begin([n |-> Ev.n, d |-> Ev.d, groups |-> Ev.groups, bs |-> Ev.bs, maxiter |-> Ev.maxiter, hasaff |-> Ev.hasaff, affid |-> Ev.affid,
                                     decorated |-> Ev.decorated, whole |-> Ev.whole, sparse |-> Ev.sparse, mode |-> Ev.mode])
TEpoch == IsEvent("epoch") /\ StartEpoch
BlockOK == /\ Ev.hasblock = cf.hasaff
           /\ (cf.affid => Ev.blockint /\ BlockAligned(Ev.idx, Ev.block))     \* injective id affinity: checked here
           /\ Ev.blockok                                                    \* other affinities: compared by the recorder
RecordedOK == cf.decorated => Ev.rec = Ev.idx
TBatch == IsEvent("batch") /\ Batch(Ev.idx) /\ BlockOK /\ RecordedOK
TUpdate == IsEvent("update") /\ Update /\ Ev.rows = Len(cur) /\ Ev.shapesok /\ Ev.finite /\ Ev.dirok
SetOfSeq(q) == {q[j] : j \in 1..Len(q)}
TProx == IsEvent("prox") /\ Prox(SetOfSeq(Ev.sel)) /\ Ev.thrialpha /\ Ev.lrsched /\ Ev.applied /\ Ev.selok /\ Ev.w1zero /\ Ev.groupsok /\ Ev.finite
TFinish == IsEvent("finish") /\ Finish /\ (cf.mode = "fit" => Ev.niter = cf.maxiter) /\ Ev.finite /\ Ev.coherent

TNext == TBegin \/ TEpoch \/ TBatch \/ TUpdate \/ TProx \/ TFinish
Accept == (l = Len(Traces[tid]) + 1 /\ ph = "done") => PrintT(ToJson([accept |-> tid, steps |-> steps, epochs |-> epoch]))

Diag == [at |-> tid, l |-> l, ph |-> ph,
         d |-> IF ~More THEN [eof |-> TRUE]
               ELSE IF Ev.e = "batch" THEN
                    [phase |-> ph = "batch" /\ remaining # {},
                     batchshape |-> ph = "batch" /\ BatchShape(Ev.idx),
                     blockaligned |-> ph = "batch" /\ BlockOK,
                     recorded |-> RecordedOK]
               ELSE IF Ev.e = "update" THEN
                    [phase |-> ph = "update", rows |-> Ev.rows = Len(cur), shapesok |-> Ev.shapesok, finite |-> Ev.finite,
                     dirok |-> Ev.dirok]
               ELSE IF Ev.e = "prox" THEN
                    [phase |-> ph = "prox", groupswhole |-> GroupsWhole({Ev.sel[j] : j \in 1..Len(Ev.sel)}), thrialpha |-> Ev.thrialpha, lrsched |-> Ev.lrsched, applied |-> Ev.applied,
                     selok |-> Ev.selok, w1zero |-> Ev.w1zero, groupsok |-> Ev.groupsok, finite |-> Ev.finite]
               ELSE IF Ev.e = "epoch" THEN
                    [phase |-> EpochOver, epochsleft |-> (cf.mode = "fit" => epoch < cf.maxiter)]
               ELSE IF Ev.e = "finish" THEN
                    [phase |-> EpochOver, allepochs |-> (cf.mode = "fit" => epoch = cf.maxiter),
                     niter |-> (cf.mode = "fit" => Ev.niter = cf.maxiter), finite |-> Ev.finite, coherent |-> Ev.coherent]
               ELSE [phase |-> ph = "start"]]
Progress == PrintT(ToJson(Diag))
==============================================================================================================
