------------------------------------------------- MODULE Groups -------------------------------------------------
(* The documented meaning of the `groups` hyper-parameter of the sparse models (C16).                            *)
(*                                                                                                              *)
(* Docstring (SparseLinearModel / SparseLinearMMD / SparseLinearMI / SparseMLPModel / SparseMLPMMD, identical):  *)
(*   "groups: list of arrays of various shapes, default=None                                                     *)
(*    If groups is set, it must describe a partition of the indices of variables. [...] Variable indices that     *)
(*    are not entered will be considered alone. For example, with 3 features, accepted values can be             *)
(*    [[0],[1],[2]], [[0,1],[2]] or [[0,1]]."                                                                    *)
(*   "groups_: list of lists of int or None. The explicit partition of the variables formed by the groups         *)
(*    parameter if it was not None."                                                                             *)
(*                                                                                                              *)
(* Hence, for d features and a list gs of index lists:                                                            *)
(*   - every entered index must be a variable index (0..d-1)                 -> otherwise the value is rejected   *)
(*   - the entered groups must be the blocks of a partition: no index twice, neither inside a group nor across    *)
(*     groups                                                                -> otherwise the value is rejected   *)
(*   - the explicit partition is the entered groups, in the order and with the inner order in which they were     *)
(*     entered, followed by one singleton per index that was not entered ("considered alone"), in increasing      *)
(*     order of the index; when every index was entered the groups are kept as given                             *)
(*   - None stays None (no grouping).                                                                            *)
(* The documentation does not say whether an EMPTY list or an EMPTY inner group is a legal way of writing a       *)
(* partition (a block of a partition is non-empty; "indices not entered are considered alone" would make [] mean  *)
(* "all alone"): such values are UNSPECIFIED unless they are rejected for another reason (index outside 0..d-1    *)
(* or repeated).                                                                                                *)
(*                                                                                                              *)
(* TLC enumerates EVERY list of at most MAXG groups, each group any sequence of at most MAXL indices out of       *)
(* -1..D (so: out-of-range on both sides, any inner order, repetitions), and prints the expected verdict and the  *)
(* expected explicit partition.  Module Params instantiates the operators for the `groups` column of its tables.  *)
EXTENDS Integers, Sequences, FiniteSets, TLC, Json

CONSTANTS D,        \* number of features
          MAXG,     \* maximal number of groups in the list
          MAXL,     \* maximal length of one group
          NCH,      \* number of work chunks
          CHUNKS    \* chunks explored by this run

VARIABLES gph, gchunk, glist
gvars == <<gph, gchunk, glist>>

--------------------------------------------------------------------------------------------------------------
RECURSIVE FlatTo(_, _)
FlatTo(gs, n) == IF n = 0 THEN <<>> ELSE FlatTo(gs, n - 1) \o gs[n]
Flat(gs) == FlatTo(gs, Len(gs))                                  \* every entered index, in entry order
RangeOf(s) == {s[i] : i \in 1..Len(s)}

InRange(gs, d) == \A i \in RangeOf(Flat(gs)) : 0 <= i /\ i < d
NoRepeat(gs) == Cardinality(RangeOf(Flat(gs))) = Len(Flat(gs))
WellFormed(gs) == Len(gs) >= 1 /\ \A j \in 1..Len(gs) : Len(gs[j]) >= 1
MissingSet(gs, d) == (0..(d - 1)) \ RangeOf(Flat(gs))

RECURSIVE Increasing(_)
Increasing(S) == IF S = {} THEN <<>>                              \* the elements of a finite set of integers, sorted
                 ELSE LET m == CHOOSE x \in S : \A y \in S : x <= y IN <<m>> \o Increasing(S \ {m})

Verdict(gs, d) == IF ~InRange(gs, d) \/ ~NoRepeat(gs) THEN "reject"
                  ELSE IF ~WellFormed(gs) THEN "unspecified"
                  ELSE "accept"
(* the explicit partition (meaningful when the verdict is not "reject") *)
Completed(gs, d) == LET miss == Increasing(MissingSet(gs, d))
                    IN gs \o [j \in 1..Len(miss) |-> <<miss[j]>>]

(* theorems about the definition itself, checked on every enumerated list *)
IsPartition(gs, d) == /\ RangeOf(Flat(gs)) = 0..(d - 1)
                      /\ Cardinality(RangeOf(Flat(gs))) = Len(Flat(gs))
Sound(gs, d) ==
    /\ Verdict(gs, d) = "accept" => /\ IsPartition(Completed(gs, d), d)
                                    /\ \A j \in 1..Len(Completed(gs, d)) : Len(Completed(gs, d)[j]) >= 1
                                    /\ SubSeq(Completed(gs, d), 1, Len(gs)) = gs
                                    /\ (MissingSet(gs, d) = {} => Completed(gs, d) = gs)
    /\ Verdict(gs, d) = "reject" <=> ~(\A i \in RangeOf(Flat(gs)) : i \in 0..(d - 1)) \/ ~NoRepeat(gs)

--------------------------------------------------------------------------------------------------------------
Alphabet == (0 - 1)..D
GroupSeqs == UNION {[1..l -> Alphabet] : l \in 0..MAXL}
Lists == UNION {[1..g -> GroupSeqs] : g \in 0..MAXG}
RECURSIVE HashTo(_, _)
HashTo(s, n) == IF n = 0 THEN 7 ELSE (HashTo(s, n - 1) * 31 + s[n] + 2) % 65521
Hash(gs) == (HashTo(Flat(gs), Len(Flat(gs))) + 13 * Len(gs)) % 65521

Output(gs) == [d |-> D, groups |-> gs, n |-> Len(gs), expect |-> Verdict(gs, D),
               completed |-> IF Verdict(gs, D) = "reject" THEN <<>> ELSE Completed(gs, D)]

GInit == gph = "start" /\ gchunk = 0 - 1 /\ glist = <<>>
GPickChunk == gph = "start" /\ gchunk' \in CHUNKS /\ gph' = "chunk" /\ UNCHANGED glist
GPickCase == /\ gph = "chunk"
             /\ \E gs \in Lists : Hash(gs) % NCH = gchunk /\ glist' = gs
             /\ gph' = "eval" /\ UNCHANGED gchunk
GNext == GPickChunk \/ GPickCase

GEmit == gph = "eval" => PrintT(ToJson(Output(glist))) /\ Sound(glist, D)
(* the documented examples: with 3 features [[0],[1],[2]], [[0,1],[2]] and [[0,1]] are accepted *)
DocExamples == gph = "start" =>
    /\ Verdict(<< <<0>>, <<1>>, <<2>> >>, 3) = "accept" /\ Completed(<< <<0>>, <<1>>, <<2>> >>, 3) = << <<0>>, <<1>>, <<2>> >>
    /\ Verdict(<< <<0, 1>>, <<2>> >>, 3) = "accept" /\ Completed(<< <<0, 1>>, <<2>> >>, 3) = << <<0, 1>>, <<2>> >>
    /\ Verdict(<< <<0, 1>> >>, 3) = "accept" /\ Completed(<< <<0, 1>> >>, 3) = << <<0, 1>>, <<2>> >>
    /\ Verdict(<< <<2>> >>, 3) = "accept" /\ Completed(<< <<2>> >>, 3) = << <<2>>, <<0>>, <<1>> >>
    /\ Verdict(<< <<0, 1>>, <<1, 2>> >>, 3) = "reject" /\ Verdict(<< <<0, 3>> >>, 3) = "reject"
    /\ Verdict(<< <<0, 0>> >>, 3) = "reject" /\ Verdict(<< <<0 - 1>> >>, 3) = "reject"
    /\ Verdict(<<>>, 3) = "unspecified" /\ Verdict(<< <<>> >>, 3) = "unspecified"
==============================================================================================================
