------------------------------------------------- MODULE Forward -------------------------------------------------
(* The FORWARDING TABLE of GemClus (C11): which objective, which OvA / OvO mode and which affinity an estimator    *)
(* trains and scores with, as a function of its class and of the hyper-parameters the documentation gives it.      *)
(* Transcribed from the class docstrings and the user guide, never from the constructors (the code under test).    *)
(*                                                                                                              *)
(*   Forward : (class, hyper-parameters) -> [family, ovo, source, verdict, warn]                                   *)
(*       family  \in {"kl","tv","hellinger","chi2","mmd","wasserstein"}  ("kernel_kmeans" for Kauri, "features"    *)
(*                for the feature map of KernelRIM, which is NOT a GEMINI affinity)                               *)
(*       source  = [kind |-> "named", name, params]   the scikit-learn kernel / metric `name` called with the     *)
(*                                                     keyword dictionary `params` (an id of ParamItems)           *)
(*               | [kind |-> "callable"]               the output of the user's callable                          *)
(*               | [kind |-> "precomputed"]            the very matrix passed as y                                 *)
(*               | [kind |-> "none"]                   no affinity (f-divergences)                                *)
(*       verdict = "error" iff the affinity is 'precomputed' and no matrix is given ("a missing matrix is an       *)
(*                 error"), "ok" otherwise;  warn = a parameter dictionary given together with a callable is      *)
(*                 ignored with a warning (MMDGEMINI / WassersteinGEMINI: "Ignored if the kernel is callable or   *)
(*                 precomputed").                                                                               *)
(*                                                                                                              *)
(* Documentation used:                                                                                          *)
(*   * generic estimators (gemini : str, GEMINI instance or None): "If set to None, the GEMINI will be MMD OvA    *)
(*     with linear kernel"; a name is looked up in gemclus.gemini.AVAILABLE_GEMINIS ("Default GEMINIs involve    *)
(*     the Euclidean metric or linear kernel"; 'mi' is the usual mutual information = KL OvA); "To incorporate     *)
(*     custom metrics, a GEMINI can also be passed as an instance".  Defaults: "mmd_ova", Douglas:                 *)
(*     "wasserstein_ova".                                                                                       *)
(*   * XxxMMD(kernel, kernel_params, ovo): "MMD OvA (False) or the MMD OvO (True)", "kernel_params: keyword        *)
(*     arguments to pass to the chosen kernel function", 'precomputed': "a custom kernel matrix must be passed    *)
(*     to the argument y of fit, fit_predict and/or score".  XxxWasserstein(metric, metric_params, ovo) likewise.  *)
(*   * RIM, KernelRIM, SparseLinearMI: "classical mutual information" (KL OvA), no affinity.  KernelRIM's          *)
(*     base_kernel defines the features K(X, X_train) of the kernelised logistic regression.                      *)
(*   * Kauri(kernel): kernel KMeans objective with the named kernel (default parameters) or 'precomputed'.        *)
(*                                                                                                              *)
(* TLC enumerates the whole table (PickChunk = one class, PickCase = one row) and prints one JSON line per row;    *)
(* checks/c11.py replays each row into the real estimator.  Spec-internal theorems are invariants of the same run. *)
EXTENDS Integers, Sequences, FiniteSets, TLC, Json, SequencesExt

CONSTANTS CLASSES      \* indices (into Classes) of the classes explored by this run; one work chunk per class

VARIABLES ph, chunk, row
vars == <<ph, chunk, row>>

--------------------------------------------------------------------------------------------------------------
(* vocabulary                                                                                                   *)
Kernels == {"additive_chi2", "chi2", "linear", "poly", "polynomial", "rbf", "laplacian", "sigmoid", "cosine"}
Metrics == {"cityblock", "cosine", "euclidean", "l1", "l2", "manhattan"}
FDivs == {"kl", "tv", "hellinger", "chi2"}
Families == FDivs \cup {"mmd", "wasserstein"}

(* keyword dictionaries, by id: sequences of <<keyword, numerator, denominator>> ("squared" = 1 means True).       *)
(* "none" is kernel_params=None, "empty" is {}.  Every non-default entry differs from the scikit-learn default     *)
(* (gamma = 1/n_features, degree = 3, coef0 = 1, squared = False), so that dropping the dictionary is observable. *)
ParamItems ==
    [none |-> <<>>, empty |-> <<>>,
     gamma_half |-> << <<"gamma", 1, 2>> >>,
     gamma_2 |-> << <<"gamma", 2, 1>> >>,
     deg2_coef1 |-> << <<"degree", 2, 1>>, <<"coef0", 1, 1>> >>,
     deg2_gamma_half_coef0 |-> << <<"degree", 2, 1>>, <<"gamma", 1, 2>>, <<"coef0", 0, 1>> >>,
     coef0_0 |-> << <<"coef0", 0, 1>> >>,
     gamma_eighth_coef0_2 |-> << <<"gamma", 1, 8>>, <<"coef0", 2, 1>> >>,
     squared |-> << <<"squared", 1, 1>> >>]
ParamIds == DOMAIN ParamItems

KernelParamIds(k) ==
    CASE k \in {"rbf", "laplacian", "chi2"} -> {"none", "gamma_half", "gamma_2"}
      [] k \in {"poly", "polynomial"}       -> {"none", "deg2_coef1", "deg2_gamma_half_coef0"}
      [] k = "sigmoid"                      -> {"none", "coef0_0", "gamma_eighth_coef0_2"}
      [] OTHER                              -> {"none", "empty"}
MetricParamIds(m) == IF m \in {"euclidean", "l2"} THEN {"none", "squared"} ELSE {"none", "empty"}

(* the 13 names of gemclus.gemini.AVAILABLE_GEMINIS as listed in the user guide: name -> <<family, ovo>>           *)
Registry ==
    [mmd_ova |-> <<"mmd", FALSE>>, mmd_ovo |-> <<"mmd", TRUE>>,
     wasserstein_ova |-> <<"wasserstein", FALSE>>, wasserstein_ovo |-> <<"wasserstein", TRUE>>,
     kl_ova |-> <<"kl", FALSE>>, kl_ovo |-> <<"kl", TRUE>>, mi |-> <<"kl", FALSE>>,
     tv_ova |-> <<"tv", FALSE>>, tv_ovo |-> <<"tv", TRUE>>,
     hellinger_ova |-> <<"hellinger", FALSE>>, hellinger_ovo |-> <<"hellinger", TRUE>>,
     chi2_ova |-> <<"chi2", FALSE>>, chi2_ovo |-> <<"chi2", TRUE>>]
GeminiNames == DOMAIN Registry

(* the GEMINI constructors: class -> family (MI has no ovo flag: it is KL OvA)                                     *)
FDivClass == [kl |-> "KLGEMINI", tv |-> "TVGEMINI", hellinger |-> "HellingerGEMINI", chi2 |-> "ChiSquareGEMINI"]

--------------------------------------------------------------------------------------------------------------
(* the 18 estimators and the forwarding hyper-parameters their documentation lists                              *)
Generic == {"LinearModel", "MLPModel", "SparseLinearModel", "SparseMLPModel", "CategoricalModel", "Douglas"}
MMDClasses == {"LinearMMD", "MLPMMD", "SparseLinearMMD", "SparseMLPMMD", "CategoricalMMD"}
WassClasses == {"LinearWasserstein", "MLPWasserstein", "CategoricalWasserstein"}
MIClasses == {"RIM", "KernelRIM", "SparseLinearMI"}
Classes == <<"LinearModel", "LinearMMD", "LinearWasserstein", "RIM", "KernelRIM", "MLPModel", "MLPMMD", "MLPWasserstein",
             "SparseLinearModel", "SparseLinearMMD", "SparseLinearMI", "SparseMLPModel", "SparseMLPMMD",
             "CategoricalModel", "CategoricalMMD", "CategoricalWasserstein", "Douglas", "Kauri">>
ClassSet == {Classes[i] : i \in 1..Len(Classes)}

Exposes(c) ==
    CASE c \in Generic     -> {"gemini"}
      [] c \in MMDClasses  -> {"kernel", "kernel_params", "ovo"}
      [] c \in WassClasses -> {"metric", "metric_params", "ovo"}
      [] c = "KernelRIM"   -> {"base_kernel", "base_kernel_params"}
      [] c = "Kauri"       -> {"kernel"}
      [] OTHER             -> {}                       \* RIM, SparseLinearMI

--------------------------------------------------------------------------------------------------------------
(* descriptors                                                                                                  *)
Src(kind, name, params) == [kind |-> kind, name |-> name, params |-> params]
NoSrc == Src("none", "-", "-")
Named(n, p) == Src("named", n, p)
Desc(f, o, s) == [family |-> f, ovo |-> o, source |-> s, verdict |-> "ok", warn |-> FALSE]

(* an affinity setting: what the user wrote for (kernel | metric, its parameter dictionary) and whether a matrix   *)
(* is passed as y                                                                                                *)
Setting(a, p, y) == [aff |-> a, params |-> p, y |-> y]
SettingsOver(names, Ids(_), extra) ==
    UNION {{Setting(n, p, "absent") : p \in Ids(n)} : n \in names}
    \cup {Setting("callable", p, "absent") : p \in {"none", extra}}
    \cup {Setting("precomputed", p, y) : p \in {"none", extra}, y \in {"given", "absent"}}
KernelSettings == SettingsOver(Kernels, KernelParamIds, "gamma_half")
MetricSettings == SettingsOver(Metrics, MetricParamIds, "squared")
(* KernelRIM.base_kernel: named or callable, no 'precomputed' *)
FeatureSettings == {s \in KernelSettings : s.aff # "precomputed"}
(* Kauri.kernel: "all kernel parameters are the default ones", named or 'precomputed' *)
KauriSettings == {Setting(n, "none", "absent") : n \in Kernels}
                 \cup {Setting("precomputed", "none", y) : y \in {"given", "absent"}}

SourceOf(s) == CASE s.aff = "callable"    -> Src("callable", "-", "-")
                 [] s.aff = "precomputed" -> Src("precomputed", "-", "-")
                 [] OTHER                 -> Named(s.aff, s.params)
(* the documented meaning of (family, ovo) with a user-chosen affinity *)
WithAffinity(f, o, s) ==
    [family |-> f, ovo |-> o, source |-> SourceOf(s),
     verdict |-> IF s.aff = "precomputed" /\ s.y = "absent" THEN "error" ELSE "ok",
     warn |-> s.aff = "callable" /\ s.params # "none"]
(* the documented meaning of a registry name: "Default GEMINIs involve the Euclidean metric or linear kernel" *)
DefaultSource(f) == CASE f = "mmd" -> Named("linear", "none") [] f = "wasserstein" -> Named("euclidean", "none")
                      [] OTHER -> NoSrc
ByName(g) == Desc(Registry[g][1], Registry[g][2], DefaultSource(Registry[g][1]))

--------------------------------------------------------------------------------------------------------------
(* hyper-parameters of a row (uniform record; "-" = not a parameter of this class / left at its default value)    *)
NA == Setting("-", "-", "-")
Hyp(gem, inst, s, ovo) == [gemini |-> gem, inst |-> inst, aff |-> s.aff, params |-> s.params, ovo |-> ovo, y |-> s.y]
B2S(b) == IF b THEN "true" ELSE "false"
Row(c, role, h, e) == [cls |-> c, role |-> role, hyper |-> h, expect |-> e]

GenericRows(c) ==
       {Row(c, "gemini", Hyp("default", "-", NA, "-"), ByName(IF c = "Douglas" THEN "wasserstein_ova" ELSE "mmd_ova"))}
  \cup {Row(c, "gemini", Hyp("none", "-", NA, "-"), Desc("mmd", FALSE, Named("linear", "none")))}
  \cup {Row(c, "gemini", Hyp(g, "-", NA, "-"), ByName(g)) : g \in GeminiNames}
  \cup {Row(c, "gemini", Hyp("instance", "MMDGEMINI", s, B2S(o)), WithAffinity("mmd", o, s)) :
            s \in KernelSettings, o \in BOOLEAN}
  \cup {Row(c, "gemini", Hyp("instance", "WassersteinGEMINI", s, B2S(o)), WithAffinity("wasserstein", o, s)) :
            s \in MetricSettings, o \in BOOLEAN}
  \cup {Row(c, "gemini", Hyp("instance", FDivClass[f], NA, B2S(o)), Desc(f, o, NoSrc)) : f \in FDivs, o \in BOOLEAN}
  \cup {Row(c, "gemini", Hyp("instance", "MI", NA, "-"), Desc("kl", FALSE, NoSrc))}

MMDRows(c) ==
       {Row(c, "gemini", Hyp("-", "-", NA, "-"), Desc("mmd", FALSE, Named("linear", "none")))}        \* bare constructor
  \cup {Row(c, "gemini", Hyp("-", "-", s, B2S(o)), WithAffinity("mmd", o, s)) : s \in KernelSettings, o \in BOOLEAN}
WassRows(c) ==
       {Row(c, "gemini", Hyp("-", "-", NA, "-"), Desc("wasserstein", FALSE, Named("euclidean", "none")))}
  \cup {Row(c, "gemini", Hyp("-", "-", s, B2S(o)), WithAffinity("wasserstein", o, s)) : s \in MetricSettings, o \in BOOLEAN}
MIRows(c) ==
       {Row(c, "gemini", Hyp("-", "-", NA, "-"), Desc("kl", FALSE, NoSrc))}
  \cup (IF c = "KernelRIM"
        THEN {Row(c, "features", Hyp("-", "-", NA, "-"), Desc("features", FALSE, Named("linear", "none")))}
             \cup {Row(c, "features", Hyp("-", "-", s, "-"), WithAffinity("features", FALSE, s)) : s \in FeatureSettings}
        ELSE {})
KauriRows(c) ==
       {Row(c, "kauri", Hyp("-", "-", NA, "-"), Desc("kernel_kmeans", FALSE, Named("linear", "none")))}
  \cup {Row(c, "kauri", Hyp("-", "-", s, "-"), WithAffinity("kernel_kmeans", FALSE, s)) : s \in KauriSettings}

RowsOf(c) == CASE c \in Generic -> GenericRows(c) [] c \in MMDClasses -> MMDRows(c) [] c \in WassClasses -> WassRows(c)
               [] c \in MIClasses -> MIRows(c) [] c = "Kauri" -> KauriRows(c)
Table == UNION {RowsOf(c) : c \in ClassSet}
RowSeq == [i \in 1..Len(Classes) |-> SetToSeq(RowsOf(Classes[i]))]          \* constant: evaluated once

--------------------------------------------------------------------------------------------------------------
Init == ph = "start" /\ chunk = 0 /\ row = <<>>
PickChunk == ph = "start" /\ chunk' \in CLASSES /\ ph' = "chunk" /\ UNCHANGED row
PickCase == /\ ph = "chunk"
            /\ \E j \in 1..Len(RowSeq[chunk]) : row' = RowSeq[chunk][j]
            /\ ph' = "eval" /\ UNCHANGED chunk
Next == PickChunk \/ PickCase

--------------------------------------------------------------------------------------------------------------
(* spec-internal theorems                                                                                       *)
(* the source kinds a class must be exercised with, from what it exposes                                          *)
KindsFor(c) ==
    (IF "gemini" \in Exposes(c) THEN {"none", "named", "callable", "precomputed", "error"} ELSE {})
    \cup (IF "kernel" \in Exposes(c) /\ c # "Kauri" THEN {"named", "callable", "precomputed", "error"} ELSE {})
    \cup (IF "metric" \in Exposes(c) THEN {"named", "callable", "precomputed", "error"} ELSE {})
    \cup (IF "base_kernel" \in Exposes(c) THEN {"named", "callable", "none"} ELSE {})
    \cup (IF c = "Kauri" THEN {"named", "precomputed", "error"} ELSE {})
    \cup (IF Exposes(c) = {} THEN {"none"} ELSE {})
KindOf(r) == IF r.expect.verdict = "error" THEN "error" ELSE r.expect.source.kind
(* every estimator that exposes kernel / metric / ovo / gemini / base_kernel has a row for each of its source      *)
(* kinds, both modes when it exposes ovo, every registry name and None when it exposes gemini, every kernel /      *)
(* metric name with and without a non-default dictionary when it takes one                                       *)
Covered ==
    \A c \in ClassSet :
        LET rs == RowsOf(c) IN
        /\ \A kd \in KindsFor(c) : \E r \in rs : KindOf(r) = kd
        /\ "ovo" \in Exposes(c) => \A o \in BOOLEAN : \A kd \in KindsFor(c) \ {"none"} :
                                        \E r \in rs : KindOf(r) = kd /\ r.expect.ovo = o
        /\ "gemini" \in Exposes(c) => /\ \A g \in GeminiNames \cup {"none", "default"} : \E r \in rs : r.hyper.gemini = g
                                      /\ \A f \in Families, o \in BOOLEAN :
                                            \E r \in rs : r.hyper.gemini = "instance" /\ r.expect.family = f /\ r.expect.ovo = o
        /\ ("kernel" \in Exposes(c) \/ "base_kernel" \in Exposes(c)) =>
                \A k \in Kernels : \E r \in rs : r.expect.source = Named(k, "none")
        /\ ("kernel_params" \in Exposes(c) \/ "base_kernel_params" \in Exposes(c)) =>
                \A k \in Kernels : \E r \in rs : r.expect.source.kind = "named" /\ r.expect.source.name = k
                                                 /\ r.expect.source.params # "none"
        /\ "metric" \in Exposes(c) => \A m \in Metrics : \E r \in rs : r.expect.source = Named(m, "none")
        /\ "metric_params" \in Exposes(c) => \E r \in rs : r.expect.source = Named("euclidean", "squared")
(* the table is a function: one expectation per (class, role, hyper-parameters) *)
Functional == \A r1, r2 \in Table : (r1.cls = r2.cls /\ r1.role = r2.role /\ r1.hyper = r2.hyper) => r1.expect = r2.expect
(* f-divergences never have an affinity, geometric GEMINIs always have one; errors only for a missing matrix *)
WellFormed ==
    \A r \in Table :
        /\ r.expect.family \in Families \cup {"kernel_kmeans", "features"}
        /\ (r.expect.family \in FDivs) <=> (r.expect.source.kind = "none")
        /\ r.expect.source.kind = "named" =>
              /\ r.expect.source.params \in ParamIds
              /\ r.expect.source.name \in (IF r.expect.family = "wasserstein" THEN Metrics ELSE Kernels)
        /\ r.expect.verdict = "error" <=> (r.expect.source.kind = "precomputed" /\ r.hyper.y = "absent")
        /\ r.expect.warn => r.expect.source.kind = "callable"
(* a registry name and the corresponding instance built with default arguments mean the same thing *)
NameIsDefaultInstance ==
    \A c \in Generic, g \in GeminiNames :
        LET d == ByName(g) IN
        \/ d.source.kind = "none"
        \/ \E r \in RowsOf(c) : r.hyper.gemini = "instance" /\ r.expect = d
TableTheorems == Covered /\ Functional /\ WellFormed /\ NameIsDefaultInstance

(* exporting: one JSON line per class (what it exposes) and one per row *)
Items(p) == IF p \in ParamIds THEN ParamItems[p] ELSE <<>>
Output(r) == [cls |-> r.cls, role |-> r.role, hyper |-> r.hyper, hyper_items |-> Items(r.hyper.params),
              expect |-> r.expect, expect_items |-> Items(r.expect.source.params)]
Emit == /\ ph = "chunk" => PrintT(ToJson([exposes_of |-> Classes[chunk], exposes |-> Exposes(Classes[chunk]),
                                          rows |-> Len(RowSeq[chunk])]))
        /\ ph = "eval" => PrintT(ToJson(Output(row)))

==============================================================================================================
