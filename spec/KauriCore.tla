-------------------------------------------------- MODULE KauriCore --------------------------------------------------
(* KAURI: greedy construction of a kernel-KMeans clustering tree (C08, C09, C19).                                 *)
(*                                                                                                              *)
(* Abstract state of a tree under construction: which leaf each sample is in, which cluster each leaf belongs   *)
(* to.  The objective is  SUM_k sigma(C_k x C_k) / |C_k|  (sigma = grand sum of the kernel over the index set),  *)
(* kept in exact integers by scaling with L = lcm(1..N).  A candidate split is (explorable leaf, feature of the  *)
(* drawn subset, observed threshold leaving >= min_leaf samples on each side, cluster targets of the two         *)
(* children) with the four assignment kinds the algorithm documents:                                             *)
(*    star     one child opens cluster nC, the other stays in the leaf's cluster k      (needs nC < max_clusters) *)
(*    dstar    left opens nC, right opens nC+1      (needs nC < max_clusters-1, leaf not the whole of cluster k)  *)
(*    switch   one child joins an existing k' # k, the other stays in k                            (needs nC>=2) *)
(*    realloc  left joins k_l, right joins k_r, both existing, # k, k_l # k_r  (needs nC>=3, leaf not whole of k) *)
(* Gain(c) is DEFINED as Obj(after c) - Obj(before): the spec never uses the closed-form gain formulas.          *)
EXTENDS Integers, Sequences, FiniteSets, TLC, Json, SequencesExt

CONSTANTS N,          \* samples
          D           \* features

Strict(s) == s \o <<>>
RECURSIVE SumF(_, _)
SumF(S, f) == IF S = {} THEN 0 ELSE LET e == CHOOSE e \in S : TRUE IN f[e] + SumF(S \ {e}, f)
RECURSIVE GCDi(_, _)
GCDi(a, b) == IF b = 0 THEN a ELSE GCDi(b, a % b)
RECURSIVE LcmTo(_)
LcmTo(n) == IF n <= 1 THEN 1 ELSE LET l == LcmTo(n - 1) IN (l * n) \div GCDi(l, n)
L == LcmTo(N)

KernelNames == {"lin", "lin1", "mix", "pre"}
Kern(nm, X) == Strict([i \in 1..N |-> Strict([j \in 1..N |->
    LET lin == SumF(1..D, [f \in 1..D |-> X[i][f] * X[j][f]]) IN
    CASE nm = "lin"  -> lin
      [] nm = "lin1" -> lin + (IF i = j THEN 1 ELSE 0)
      [] nm = "mix"  -> lin - (IF i = j /\ i % 2 = 1 THEN 3 ELSE 0)
      [] nm = "pre"  -> ((i * j + 2 * i + 2 * j) % 5) - 1])])

--------------------------------------------------------------------------------------------------------------
(* st = [leafOf: 1..N -> leaf id, clOf: leaf id -> cluster id, nL, nC]; leaves are 0..nL-1, clusters 0..nC-1     *)
RootState == [leafOf |-> [i \in 1..N |-> 0], clOf |-> <<0>>, nL |-> 1, nC |-> 1]
ClOfLeaf(st, j) == st.clOf[j + 1]
Members(st, j) == {i \in 1..N : st.leafOf[i] = j}
Cluster(st, k) == {i \in 1..N : ClOfLeaf(st, st.leafOf[i]) = k}
Lab(st) == [i \in 1..N |-> ClOfLeaf(st, st.leafOf[i])]

Stock(K, A, B) == SumF(A \X B, [p \in A \X B |-> K[p[1]][p[2]]])
ObjLab(K, lab) == LET ks == {lab[i] : i \in 1..N} IN
    SumF(ks, [k \in ks |-> LET C == {i \in 1..N : lab[i] = k} IN (Stock(K, C, C) * L) \div Cardinality(C)])

LeftOf(X, M, f, t) == {i \in M : X[i][f] <= t}
Thresholds(X, st, j, f, minleaf) ==
    LET M == Members(st, j) IN
      {t \in {X[i][f] : i \in M} : /\ Cardinality(LeftOf(X, M, f, t)) >= minleaf
                                   /\ Cardinality(M \ LeftOf(X, M, f, t)) >= minleaf}

Assignments(st, j, kmax) ==
    LET k == ClOfLeaf(st, j)
        whole == Members(st, j) = Cluster(st, k)
        others == (0..(st.nC - 1)) \ {k}
    IN (IF st.nC < kmax - 1 /\ ~whole THEN {[lt |-> st.nC, rt |-> st.nC + 1, kind |-> "dstar"]} ELSE {})
       \cup (IF st.nC < kmax THEN {[lt |-> st.nC, rt |-> k, kind |-> "star"], [lt |-> k, rt |-> st.nC, kind |-> "star"]}
             ELSE {})
       \cup (IF st.nC >= 2 THEN {[lt |-> k2, rt |-> k, kind |-> "switch"] : k2 \in others}
                                \cup {[lt |-> k, rt |-> k2, kind |-> "switch"] : k2 \in others} ELSE {})
       \cup (IF st.nC >= 3 /\ ~whole
             THEN {[lt |-> pr[1], rt |-> pr[2], kind |-> "realloc"] : pr \in {q \in others \X others : q[1] # q[2]}}
             ELSE {})

Cands(X, st, expl, fsub, kmax, minleaf) ==
    UNION {UNION {UNION {{[leaf |-> j, f |-> f, th |-> t, lt |-> a.lt, rt |-> a.rt, kind |-> a.kind]
                            : a \in Assignments(st, j, kmax)}
                         : t \in Thresholds(X, st, j, f, minleaf)}
                  : f \in fsub}
           : j \in expl}

AfterLab(X, st, c) ==
    LET M == Members(st, c.leaf)
        Lf == LeftOf(X, M, c.f, c.th)
    IN [i \in 1..N |-> IF i \in Lf THEN c.lt ELSE IF i \in M THEN c.rt ELSE ClOfLeaf(st, st.leafOf[i])]
Gain(X, K, st, c) == ObjLab(K, AfterLab(X, st, c)) - ObjLab(K, Lab(st))

(* the structural effect of a split: left keeps the leaf id, right gets leaf id nL *)
Apply(X, st, c) ==
    LET M == Members(st, c.leaf)
        Lf == LeftOf(X, M, c.f, c.th)
        newC == IF c.lt >= st.nC /\ c.rt >= st.nC THEN st.nC + 2
                ELSE IF c.lt >= st.nC \/ c.rt >= st.nC THEN st.nC + 1 ELSE st.nC
    IN [leafOf |-> [i \in 1..N |-> IF i \in M \ Lf THEN st.nL ELSE st.leafOf[i]],
        clOf |-> Append([j \in 1..st.nL |-> IF j = c.leaf + 1 THEN c.lt ELSE st.clOf[j]], c.rt),
        nL |-> st.nL + 1, nC |-> newC]

(* well-formedness of a state: every cluster id below nC is used, every leaf non-empty *)
WellFormed(st) == /\ \A k \in 0..(st.nC - 1) : Cluster(st, k) # {}
                  /\ \A j \in 0..(st.nL - 1) : Members(st, j) # {}
                  /\ \A i \in 1..N : ClOfLeaf(st, st.leafOf[i]) < st.nC
==============================================================================================================
