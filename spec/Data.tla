-------------------------------------------------- MODULE Data --------------------------------------------------
(* The synthetic data generators of gemclus.data as PROTOCOLS over an abstract random number generator (C20).    *)
(*                                                                                                              *)
(* "The samples match the documented distribution" is reduced to three exact statements:                        *)
(*   (1) the generator asks the RNG for the documented primitives, in order, with the documented parameters     *)
(*       (choice(K, p) for the component, normal / multivariate_normal(mean_k, cov_k) per component, chisquare    *)
(*       for the Student-t mixing variable, one final permutation for gstm);                                     *)
(*   (2) output row i is draw i of the component named by label y[i] (provenance), Student-t rows are            *)
(*       sqrt(df / u_i) * z_i + loc, celeux_two's redundant variables are offsets + informative @ b + noise;     *)
(*   (3) parameter sets that do not describe a mixture are rejected (Valid).                                     *)
(* NumPy's samplers themselves are trusted.  The abstract RNG answers call number c (1-based, all methods         *)
(* counted) of normal / multivariate_normal with the array whose entry (i, j) is Tag(c, i, j), so that every      *)
(* output entry names the call, the draw index and the column it came from; choice, chisquare and permutation     *)
(* answer with environment-chosen values (labels; u_i = df / sf_i^2 for an integer factor sf_i; a permutation).   *)
(*                                                                                                              *)
(* Number encodings (TLC has integers only):                                                                     *)
(*   locations, offsets, outputs X ......... integers in units of 1/10          (S = 10)                           *)
(*   proportions ........................... rationals <<num, den>> (module Rat)                                 *)
(*   covariance entries .................... pairs <<a, b>> meaning (a + b*sqrt(3)) / 4  (Z[sqrt 3], quarters):    *)
(*                                           the rotations by pi/3 and pi/6 of celeux_two are exact in this ring *)
(*   variance seen by `normal` (= scale^2) . integer in units of 1/4                                              *)
(*   degrees of freedom, alpha, mu ......... integers in units of 1/10                                            *)
(*                                                                                                              *)
(* Documented constants.  The docstrings give shapes, defaults and the construction in words and cite their       *)
(* sources; the numbers below are those of the cited constructions:                                              *)
(*   gstm ........ GEMINI paper (Ohl et al. 2022), Gaussian-Student mixture: three Gaussians N(alpha*(1,1)),      *)
(*                 N(alpha*(1,-1)), N(alpha*(-1,1)) with identity covariance, proportions 1/3 on 3n div 4        *)
(*                 samples (source comment "proportions 1/3 on 3/4 of the samples"), a Student-t with location   *)
(*                 alpha*(-1,-1), identity scale and df degrees of freedom on the rest, labelled 3, shuffled.    *)
(*   celeux_one .. Celeux et al. 2014, section 3.1: mu_1 = -mu_2 = (mu,..,mu) in R^5, mu_3 = 0, identity          *)
(*                 covariances, equal proportions, p independent N(0,1) noise variables appended.  (The          *)
(*                 docstring's "means 1, 0 and 1 ... scaled by mu" is read as this construction.)                 *)
(*   celeux_two .. Celeux et al. 2014, section 3.2 (Maugis et al. 2009): informative variables from four          *)
(*                 equiprobable N(mu_k, I_2), mu = (0,0),(4,0),(0,2),(4,2); X^{3..11} = (0,0,0.4,...,2.8)         *)
(*                 + X^{1,2} b + eps, b = ((0.5,1),(2,0),(0,3),(-1,2),(2,-4),(0.5,0),(4,0.5),(3,0),(2,1)),         *)
(*                 eps ~ N(0, diag(I_3, 0.5 I_2, Rot(pi/3)' diag(1,3) Rot(pi/3), Rot(pi/6)' diag(2,6) Rot(pi/6))); *)
(*                 X^{12..14} ~ N((3.2, 3.6, 4), I_3).                                                           *)
EXTENDS Rat, Json

CONSTANTS MODE,      \* "proto": enumerate generator runs; "valid": enumerate parameter-set classes; "trace": see DataTrace
          NMAX,      \* largest n enumerated for draw_gmm / student / celeux_* (gstm: n in 4..NMAX+3)
          STRIDE,    \* sampling stride for the large families (1 = exhaustive)
          GSCALE     \* gstm: scale of the sampling stride of the final permutation (see GStride)

VARIABLES ph,        \* "start" | "vshape" | "verdict" | "run" | "done"
          gen,       \* generator name
          args,      \* its arguments (encoded as above); in MODE "valid" the parameter-set description
          k,         \* number of RNG calls made so far
          rets,      \* what the RNG answered: [y: labels, sf: Student factors, perm: permutation]
          out        \* returned [X, y]
dvars == <<ph, gen, args, k, rets, out>>

S == 10
Tag(c, i, j) == 10000 * c + 100 * i + j
TagCall(x) == (x \div S) \div 10000
TagRow(x) == ((x \div S) % 10000) \div 100
TagCol(x) == (x \div S) % 100

RECURSIVE SumSeq(_)
SumSeq(s) == IF Len(s) = 0 THEN 0 ELSE Head(s) + SumSeq(Tail(s))

--------------------------------------------------------------------------------------------------------------
(* Z[sqrt 3]: <<a, b>> = a + b sqrt(3) *)
Z0 == <<0, 0>>
ZAdd(x, y) == <<x[1] + y[1], x[2] + y[2]>>
ZNeg(x) == <<-x[1], -x[2]>>
ZMul(x, y) == <<x[1] * y[1] + 3 * x[2] * y[2], x[1] * y[2] + x[2] * y[1]>>
ZScale(c, x) == <<c * x[1], c * x[2]>>

(* covariance matrices, entries in quarters *)
CovOfInts(M) == Strict([i \in 1..Len(M) |-> Strict([j \in 1..Len(M[i]) |-> <<4 * M[i][j], 0>>])])
ScaledEye(d, q) == Strict([i \in 1..d |-> Strict([j \in 1..d |-> IF i = j THEN <<q, 0>> ELSE Z0])])
Eye(d) == ScaledEye(d, 4)
(* rotation matrices, entries in halves: Rot(theta) = [[cos, -sin], [sin, cos]] *)
Rot(c, s) == << <<c, ZNeg(s)>>, <<s, c>> >>
RotPi3 == Rot(<<1, 0>>, <<0, 1>>)                 \* cos(pi/3) = 1/2, sin(pi/3) = sqrt(3)/2
RotPi6 == Rot(<<0, 1>>, <<1, 0>>)                 \* cos(pi/6) = sqrt(3)/2, sin(pi/6) = 1/2
(* R' diag(D) R: halves * halves = quarters *)
RtDR(Ro, D) == Strict([i \in 1..2 |-> Strict([j \in 1..2 |->
                  ZAdd(ZScale(D[1], ZMul(Ro[1][i], Ro[1][j])), ZScale(D[2], ZMul(Ro[2][i], Ro[2][j])))])])
RECURSIVE BlockDiag(_)
BlockDiag(bs) == IF Len(bs) = 0 THEN <<>> ELSE
    LET A == Head(bs)
        B == BlockDiag(Tail(bs))
        a == Len(A)
        n == a + Len(B)
    IN Strict([i \in 1..n |-> Strict([j \in 1..n |-> IF i <= a /\ j <= a THEN A[i][j]
                                                   ELSE IF i > a /\ j > a THEN B[i - a][j - a] ELSE Z0])])

--------------------------------------------------------------------------------------------------------------
(* documented constants *)
Equal(K) == Strict([c \in 1..K |-> <<1, K>>])                        \* equal proportions
GstmLocs(al) == << <<al, al>>, <<al, -al>>, <<-al, al>> >>
GstmTLoc(al) == <<-al, -al>>
GstmNg(n) == (3 * n) \div 4
C1Means(mu) == << Strict([j \in 1..5 |-> mu]), Strict([j \in 1..5 |-> -mu]), Strict([j \in 1..5 |-> 0]) >>
C2Means == << <<0, 0>>, <<40, 0>>, <<0, 20>>, <<40, 20>> >>
C2B2 == << <<1, 4, 0, -2, 4, 1, 8, 6, 4>>,                           \* 2 * b (b is 2 x 9)
           <<2, 0, 6, 4, -8, 0, 1, 0, 2>> >>
C2Off == <<0, 0, 4, 8, 12, 16, 20, 24, 28>>
C2Omega1 == RtDR(RotPi3, <<1, 3>>)
C2Omega2 == RtDR(RotPi6, <<2, 6>>)
C2CovNoise == BlockDiag(<< Eye(3), ScaledEye(2, 2), C2Omega1, C2Omega2 >>)
C2NoiseMean == <<32, 36, 40>>
Zeros(d) == Strict([j \in 1..d |-> 0])
Consts == [b2 |-> C2B2, off |-> C2Off, means2 |-> C2Means, covnoise |-> C2CovNoise, noisemean |-> C2NoiseMean,
           omega1 |-> C2Omega1, omega2 |-> C2Omega2]

--------------------------------------------------------------------------------------------------------------
(* RNG calls *)
NoCall == [m |-> "", shape |-> <<>>, K |-> 0, p |-> <<>>, loc |-> <<>>, var |-> 0, cov |-> <<>>, df |-> 0]
Choice(K, p, n) == [NoCall EXCEPT !.m = "choice", !.shape = <<n>>, !.K = K, !.p = p]
Normal1(l, v, n) == [NoCall EXCEPT !.m = "normal", !.shape = <<n>>, !.loc = <<l>>, !.var = v]
NormalNP(n, p) == [NoCall EXCEPT !.m = "normal", !.shape = <<n, p>>, !.loc = <<0>>, !.var = 4]     \* standard normal
MVN(l, c, n) == [NoCall EXCEPT !.m = "mvn", !.shape = <<n>>, !.loc = l, !.cov = c]
Chi(df, n) == [NoCall EXCEPT !.m = "chisquare", !.shape = <<n>>, !.df = df]
Perm(n) == [NoCall EXCEPT !.m = "permutation", !.shape = <<n>>]

(* draw_gmm: the component of every sample, then n draws of every component in order.  In one dimension the     *)
(* 1 x 1 covariance is the VARIANCE of the component: numpy's normal(loc, scale) must see scale^2 = variance.    *)
GmmProto(n, d, loc, cov, p) ==
    <<Choice(Len(loc), p, n)>> \o
    [c \in 1..Len(loc) |-> IF d = 1 THEN Normal1(loc[c][1], cov[c][1][1][1], n) ELSE MVN(loc[c], cov[c], n)]
StudentProto(n, d, scale, df) == << MVN(Zeros(d), scale, n), Chi(df, n) >>

Proto(g, a) ==
    CASE g = "draw_gmm" -> GmmProto(a.n, a.d, a.loc, a.cov, a.p)
      [] g = "student" -> StudentProto(a.n, a.d, a.cov, a.df)
      [] g = "gstm" -> GmmProto(GstmNg(a.n), 2, GstmLocs(a.alpha), <<Eye(2), Eye(2), Eye(2)>>, Equal(3))
                       \o StudentProto(a.n - GstmNg(a.n), 2, Eye(2), a.df) \o <<Perm(a.n)>>
      [] g = "celeux_one" -> GmmProto(a.n, 5, C1Means(a.mu), <<Eye(5), Eye(5), Eye(5)>>, Equal(3))
                             \o <<NormalNP(a.n, a.pn)>>
      [] g = "celeux_two" -> GmmProto(a.n, 2, C2Means, <<Eye(2), Eye(2), Eye(2), Eye(2)>>, Equal(4))
                             \o << MVN(Zeros(9), C2CovNoise, a.n), MVN(C2NoiseMean, Eye(3), a.n) >>

(* outputs.  Component c (0-based) of a draw_gmm whose choice call is call number c0 is drawn by call c0+1+c. *)
GmmRow(c0, lab, i, d) == Strict([j \in 1..d |-> S * Tag(c0 + 1 + lab, i, j)])
GmmX(c0, y, d) == Strict([i \in 1..Len(y) |-> GmmRow(c0, y[i], i, d)])
(* Student-t: X = sqrt(df / u) * nx + loc with u_i = df / sf_i^2, nx = call c *)
StudentX(c, n, d, sf, loc) == Strict([i \in 1..n |-> Strict([j \in 1..d |-> sf[i] * S * Tag(c, i, j) + loc[j]])])

Output(g, a, r) ==
    CASE g = "draw_gmm" -> [X |-> GmmX(1, r.y, a.d), y |-> r.y]
      [] g = "student" -> [X |-> StudentX(1, a.n, a.d, r.sf, a.loc), y |-> <<>>]
      [] g = "gstm" ->
            LET ns == a.n - GstmNg(a.n)
                XA == GmmX(1, r.y, 2) \o StudentX(5, ns, 2, r.sf, GstmTLoc(a.alpha))
                YA == r.y \o [i \in 1..ns |-> 3]
            IN [X |-> Strict([i \in 1..a.n |-> XA[r.perm[i] + 1]]), y |-> Strict([i \in 1..a.n |-> YA[r.perm[i] + 1]])]
      [] g = "celeux_one" ->
            [X |-> Strict([i \in 1..a.n |-> GmmRow(1, r.y[i], i, 5) \o [j \in 1..a.pn |-> S * Tag(5, i, j)]]), y |-> r.y]
      [] g = "celeux_two" ->
            [X |-> Strict([i \in 1..a.n |->
                      LET good == GmmRow(1, r.y[i], i, 2)
                      IN good \o [j \in 1..9 |-> C2Off[j] + (good[1] * C2B2[1][j] + good[2] * C2B2[2][j]) \div 2
                                                 + S * Tag(6, i, j)]
                              \o [j \in 1..3 |-> S * Tag(7, i, j)]]),
             y |-> r.y]

Width(g, a) == CASE g \in {"draw_gmm", "student"} -> a.d [] g = "gstm" -> 2 [] g = "celeux_one" -> 5 + a.pn
                 [] g = "celeux_two" -> 14
NLabels(g, a) == CASE g = "draw_gmm" -> Len(a.loc) [] g = "student" -> 0 [] g = "gstm" -> 4 [] g = "celeux_one" -> 3
                   [] g = "celeux_two" -> 4

--------------------------------------------------------------------------------------------------------------
(* the state machine *)
NoRets == [y |-> <<>>, sf |-> <<>>, perm |-> <<>>]
DInit == ph = "start" /\ gen = "" /\ args = <<>> /\ k = 0 /\ rets = NoRets /\ out = <<>>

Setup(g, a) == /\ ph = "start"
               /\ gen' = g /\ args' = a /\ k' = 0 /\ rets' = NoRets /\ out' = <<>> /\ ph' = "run"

IsPerm0(pm, n) == Len(pm) = n /\ \A v \in 0..(n - 1) : \E i \in 1..n : pm[i] = v
RetOK(call, ret) ==
    LET n == call.shape[1] IN
    CASE call.m = "choice" -> Len(ret) = n /\ \A i \in 1..n : ret[i] \in 0..(call.K - 1)
      [] call.m = "chisquare" -> Len(ret) = n /\ \A i \in 1..n : ret[i] >= 1
      [] call.m = "permutation" -> IsPerm0(ret, n)
      [] OTHER -> Len(ret) = 0
NextCall == Proto(gen, args)[k + 1]
Draw(call, ret) ==
    /\ ph = "run" /\ k < Len(Proto(gen, args))
    /\ call = NextCall
    /\ RetOK(call, ret)
    /\ rets' = IF call.m = "choice" THEN [rets EXCEPT !.y = ret]
               ELSE IF call.m = "chisquare" THEN [rets EXCEPT !.sf = ret]
               ELSE IF call.m = "permutation" THEN [rets EXCEPT !.perm = ret] ELSE rets
    /\ k' = k + 1 /\ UNCHANGED <<ph, gen, args, out>>
Return == /\ ph = "run" /\ k = Len(Proto(gen, args))
          /\ out' = Output(gen, args, rets) /\ ph' = "done" /\ UNCHANGED <<gen, args, k, rets>>

(* properties of every completed run (model-checked on the enumerated runs and evaluated on every real trace) *)
Shapes == ph = "done" =>
    /\ Len(out.X) = args.n /\ \A i \in 1..args.n : Len(out.X[i]) = Width(gen, args)
    /\ (gen # "student" => Len(out.y) = args.n /\ \A i \in 1..args.n : out.y[i] \in 0..(NLabels(gen, args) - 1))
(* every row labelled with a Gaussian component is a draw of the call that sampled that component, used once *)
GaussianRows == IF gen = "gstm" THEN {i \in 1..args.n : out.y[i] < 3} ELSE IF gen = "student" THEN {} ELSE 1..args.n
Provenance == ph = "done" =>
    /\ \A i \in GaussianRows : \A j \in 1..(IF gen = "celeux_one" THEN 5 ELSE IF gen = "celeux_two" THEN 2 ELSE Width(gen, args)) :
           TagCall(out.X[i][j]) = 2 + out.y[i] /\ TagCol(out.X[i][j]) = j /\ TagRow(out.X[i][j]) = TagRow(out.X[i][1])
    /\ \A i, i2 \in GaussianRows : i # i2 => TagRow(out.X[i][1]) # TagRow(out.X[i2][1])
    /\ (gen = "gstm" => Cardinality({i \in 1..args.n : out.y[i] = 3}) = args.n - GstmNg(args.n))

--------------------------------------------------------------------------------------------------------------
(* parameter-set validity.  vp = [d, K (number of means), cov: sequence of integer matrices, p: numerators, pden] *)
QForm(M, x) == x[1] * (M[1][1] * x[1] + M[1][2] * x[2]) + x[2] * (M[2][1] * x[1] + M[2][2] * x[2])
SquareOf(M, d) == Len(M) = d /\ \A i \in 1..Len(M) : Len(M[i]) = d
AllZero(M) == \A i \in 1..Len(M) : \A j \in 1..Len(M[i]) : M[i][j] = 0
(* symmetric matrices of dimension <= 2: positive semi-definite iff all principal minors are non-negative *)
PSD(M) == IF Len(M) = 1 THEN M[1][1] >= 0
          ELSE /\ M[1][2] = M[2][1] /\ M[1][1] >= 0 /\ M[2][2] >= 0 /\ M[1][1] * M[2][2] - M[1][2] * M[2][1] >= 0
Singular(M) == IF Len(M) = 1 THEN M[1][1] = 0 ELSE M[1][1] * M[2][2] - M[1][2] * M[2][1] = 0
Diagonal(M) == \A i \in 1..Len(M) : \A j \in 1..Len(M) : i # j => M[i][j] = 0
Why(vp) == (IF Len(vp.cov) # vp.K THEN {"len-cov"} ELSE {}) \cup (IF Len(vp.p) # vp.K THEN {"len-p"} ELSE {})
           \cup (IF \E i \in 1..Len(vp.p) : vp.p[i] <= 0 THEN {"p-nonpositive"} ELSE {})
           \cup (IF SumSeq(vp.p) # vp.pden THEN {"p-sum"} ELSE {})
           \cup (IF \E c \in 1..Len(vp.cov) : ~SquareOf(vp.cov[c], vp.d) THEN {"cov-shape"}
                 ELSE (IF \E c \in 1..Len(vp.cov) : ~PSD(vp.cov[c]) THEN {"cov-not-psd"} ELSE {})
                      \cup (IF \E c \in 1..Len(vp.cov) : AllZero(vp.cov[c]) THEN {"cov-zero"} ELSE {}))
Valid(vp) == Why(vp) = {}
(* a zero eigenvalue of a non-diagonal matrix may be computed as -1e-17: neither verdict is demanded *)
Borderline(vp) == Valid(vp) /\ \E c \in 1..Len(vp.cov) : Singular(vp.cov[c]) /\ ~Diagonal(vp.cov[c])
StudentValid(vp) == vp.r = vp.d /\ vp.c = vp.d

--------------------------------------------------------------------------------------------------------------
(* enumeration, MODE "proto" *)
L1 == <<-15, 20, 5>>                                                    \* distinct locations, variances, proportions,
V1 == <<16, 4, 36>>                                                     \* so that any swap of two components shows
L2 == << <<0, 10>>, <<-25, 30>>, <<40, -5>> >>
M2 == << << <<2, 1>>, <<1, 1>> >>, << <<1, 0>>, <<0, 3>> >>, << <<4, -2>>, <<-2, 2>> >> >>
PK(K) == IF K = 2 THEN << <<1, 4>>, <<3, 4>> >> ELSE << <<1, 2>>, <<1, 8>>, <<3, 8>> >>
GmmArgs(n, d, K) == [n |-> n, d |-> d,
                     loc |-> Strict([c \in 1..K |-> IF d = 1 THEN <<L1[c]>> ELSE L2[c]]),
                     cov |-> Strict([c \in 1..K |-> IF d = 1 THEN << << <<V1[c], 0>> >> >> ELSE CovOfInts(M2[c])]),
                     p |-> PK(K)]
StudentArgs(n, d, df) == [n |-> n, d |-> d, loc |-> IF d = 1 THEN <<5>> ELSE <<-15, 20>>,
                          cov |-> IF d = 1 THEN CovOfInts(<< <<3>> >>) ELSE CovOfInts(M2[1]), df |-> df]

RECURSIVE HashSeq(_, _)
HashSeq(s, w) == IF Len(s) = 0 THEN 0 ELSE (s[1] + 1) * (w * w + 3 * w + 1) + HashSeq(Tail(s), w + 1)
GStride(n) == GSCALE * (CASE n = 4 -> 2 [] n = 5 -> 16 [] n = 6 -> 128 [] OTHER -> 2048)
Keep(y, n) == STRIDE = 1 \/ n < 4 \/ HashSeq(y, 1) % STRIDE = 0

PermTable == [n \in 4..(NMAX + 3) |-> {f \in [1..n -> 0..(n - 1)] : IsPerm0(f, n)}]      \* constant: evaluated once
MCSetup ==
    \/ \E n \in 1..NMAX, d \in 1..2, K \in 2..3 : Setup("draw_gmm", GmmArgs(n, d, K))
    \/ \E n \in 1..NMAX, d \in 1..2, df \in {5, 10, 100} : Setup("student", StudentArgs(n, d, df))
    \/ \E n \in 4..(NMAX + 3), ad \in {<<20, 10>>, <<5, 25>>} : Setup("gstm", [n |-> n, alpha |-> ad[1], df |-> ad[2]])
    \/ \E n \in 1..NMAX, pm \in {<<1, 17>>, <<3, 6>>} : Setup("celeux_one", [n |-> n, pn |-> pm[1], mu |-> pm[2]])
    \/ Setup("celeux_one", [n |-> 1, pn |-> 20, mu |-> 17])
    \/ \E n \in 1..NMAX : Setup("celeux_two", [n |-> n])
MCDraw ==
    /\ ph = "run" /\ k < Len(Proto(gen, args))
    /\ LET c == NextCall
           n == c.shape[1]
       IN \/ c.m = "choice" /\ \E y \in [1..n -> 0..(c.K - 1)] : Keep(y, n) /\ Draw(c, y)
          \/ c.m = "chisquare" /\ \E s \in [1..n -> {1, 2}] : Draw(c, s)
          \/ c.m = "permutation" /\ \E pm \in PermTable[n] :
                 /\ (HashSeq(pm, 1) + 5 * HashSeq(rets.y, 2) + 11 * HashSeq(rets.sf, 3)) % GStride(n) = 0
                 /\ Draw(c, pm)
          \/ c.m \in {"normal", "mvn"} /\ Draw(c, <<>>)

(* enumeration, MODE "valid": first the shape of the parameter set (parallelism), then its contents *)
PDen == 4
PGrid == {-1, 0, 1, 2, 3}
Sym2 == {<< <<a, b>>, <<b, c>> >> : a \in {-1, 0, 1, 2}, b \in {-1, 0, 1, 2}, c \in {-1, 0, 1, 2}}
Ones(r, c) == Strict([i \in 1..r |-> Strict([j \in 1..c |-> 1])])
I2 == << <<1, 0>>, <<0, 1>> >>
VShape == \/ ph = "start" /\ gen' = "draw_gmm" /\ ph' = "vshape" /\ UNCHANGED <<k, rets, out>>
             /\ \E d \in 1..2, K \in 2..3, Kc \in 2..3, Kp \in 2..3 : args' = [d |-> d, K |-> K, Kc |-> Kc, Kp |-> Kp]
          \/ ph = "start" /\ gen' = "student" /\ ph' = "verdict" /\ UNCHANGED <<k, rets, out>>
             /\ \E d \in 1..3, r \in 1..3, c \in 1..3 : args' = [d |-> d, r |-> r, c |-> c]
(* every valid and every single-fault parameter set is kept; multi-fault ones are sampled 1 / STRIDE *)
VKeep(vp, h) == STRIDE = 1 \/ Cardinality(Why(vp)) <= 1 \/ (HashSeq(vp.p, 2) + 7 * h) % STRIDE = 0
VP(d, K, lay, p, cov) == [d |-> d, K |-> K, layout |-> lay, p |-> Strict(p), pden |-> PDen, cov |-> cov]
VPick ==
    /\ ph = "vshape" /\ ph' = "verdict" /\ UNCHANGED <<gen, k, rets, out>>
    /\ \E p \in [1..args.Kp -> PGrid] :
         \/ /\ args.d = 1                          \* 1 x 1 covariances, handed over as (K,1) or as (K,1,1) arrays
            /\ \E v \in [1..args.Kc -> {-1, 0, 1, 4}], lay \in {"K1", "K11"} :
                 LET vp == VP(1, args.K, lay, p, Strict([c \in 1..args.Kc |-> << <<v[c]>> >>]))
                 IN VKeep(vp, HashSeq(v, 5) + (IF lay = "K1" THEN 0 ELSE 1)) /\ args' = vp
         \/ /\ args.d = 2                          \* one component with an arbitrary symmetric matrix, others identity
            /\ \E pos \in 1..args.Kc, M \in Sym2 :
                 LET vp == VP(2, args.K, "Kdd", p, Strict([c \in 1..args.Kc |-> IF c = pos THEN M ELSE I2]))
                 IN VKeep(vp, pos + 3 * (M[1][1] + 1) + 13 * (M[1][2] + 1) + 29 * (M[2][2] + 1)) /\ args' = vp
         \/ /\ args.d = 2                          \* covariances that are not d x d
            /\ \E rc \in {<<2, 3>>, <<3, 2>>, <<3, 3>>, <<1, 1>>} :
                 LET vp == VP(2, args.K, "Kdd", p, Strict([c \in 1..args.Kc |-> Ones(rc[1], rc[2])]))
                 IN VKeep(vp, rc[1] + 5 * rc[2]) /\ args' = vp

Next == IF MODE = "proto" THEN MCSetup \/ MCDraw \/ Return
        ELSE IF MODE = "valid" THEN VShape \/ VPick ELSE FALSE

(* the principal-minor test is the definition x'Mx >= 0 (a witness of indefiniteness exists in the small box) *)
PSDIsDefinition == (ph = "verdict" /\ gen = "draw_gmm") =>
    \A c \in 1..Len(args.cov) : (SquareOf(args.cov[c], 2) /\ args.cov[c][1][2] = args.cov[c][2][1]) =>
        (PSD(args.cov[c]) <=> \A x \in (-4..4) \X (-4..4) : QForm(args.cov[c], x) >= 0)

Emit == /\ (ph = "start" /\ MODE = "proto") => PrintT(ToJson([consts |-> Consts]))
        /\ (ph = "done" /\ MODE = "proto") =>
              PrintT(ToJson([mode |-> "proto", gen |-> gen, args |-> args,
                             rets |-> [y |-> Strict(rets.y), sf |-> Strict(rets.sf), perm |-> Strict(rets.perm)],
                             calls |-> Strict(Proto(gen, args)), X |-> out.X, y |-> Strict(out.y)]))
        /\ (ph = "verdict" /\ gen = "draw_gmm") =>
              PrintT(ToJson([mode |-> "valid", gen |-> gen, vp |-> args, valid |-> Valid(args),
                             borderline |-> Borderline(args), why |-> Why(args)]))
        /\ (ph = "verdict" /\ gen = "student") =>
              PrintT(ToJson([mode |-> "valid", gen |-> gen, vp |-> args, valid |-> StudentValid(args),
                             borderline |-> FALSE, why |-> IF StudentValid(args) THEN {} ELSE {"scale-shape"}]))
==============================================================================================================
