------------------------------------------------ MODULE KauriGlue ------------------------------------------------
(* The bookkeeping of Kauri.fit under an ARBITRARY search oracle (spec -> code, C08 / C09).                       *)
(*                                                                                                              *)
(* KauriFit only ever takes best splits, so the real executions it validates seldom contain the rarer kinds of   *)
(* step (both children leaving the cluster of the split leaf, double-star, a switch of the left child ...).      *)
(* Here the environment answers every search with ANY admissible candidate (the script), reported with its exact *)
(* gain when that is positive and with the made-up gain L otherwise; the loop of Kauri.fit (the Python side:      *)
(* Z, Y, explorable leaves, cluster / leaf counters, tree table, labels_) must follow DoSplit whatever the       *)
(* answer is.  Each finished behaviour is printed with its whole history and replayed into the real Kauri.fit    *)
(* whose find_best_split is replaced by the script; the arguments of every search and the final model are        *)
(* compared with the states printed here.  Meant for `tlc -simulate` (random scripts) and small exhaustive runs. *)
EXTENDS KauriFit

CONSTANTS V,          \* feature values 0..V
          STEER,      \* TRUE: steer random scripts towards double-star / reallocation steps (see Steered)
          XCODES      \* the datasets drawn by the harness, each written as a number in base V+1 (row-major digits)
VARIABLES hist,       \* per step: the search arguments the loop must present and the scripted answer
          kn

RawParams == [kmax : 2..4, maxdepth : {0, 2, 3}, minsplit : 2..3, minleaf : {1}, maxfeat : {0}, maxleaves : {0, 3, 5}]

RECURSIVE Pow(_, _)
Pow(b, e) == IF e = 0 THEN 1 ELSE b * Pow(b, e - 1)
Decode(code) == [i \in 1..N |-> [f \in 1..D |-> (code \div Pow(V + 1, (i - 1) * D + f - 1)) % (V + 1)]]
XS == {Decode(c) : c \in XCODES}
View(s) == [leafOf |-> s.leafOf, clOf |-> s.clOf, nL |-> s.nL, nC |-> s.nC]
Init == FInit /\ hist = <<>> /\ kn = ""
GSetup == /\ ph = "start"
          /\ \E x \in XS, k \in KernelNames, p \in RawParams :
                Setup(x, Kern(k, x), p) /\ kn' = k
          /\ hist' = <<>>
Reported(c) == IF G(c) > 0 THEN G(c) ELSE L
(* Random scripts are steered towards the kinds of step that real fits seldom take: when a double-star or a reallocation is *)
(* admissible it is preferred three times out of four, otherwise stars until there are three clusters, then switches (which create the       *)
(* clusters made of several leaves those two need).  The coin is a function of the state, so a script is still a TLC behaviour.          *)
Coin(m) == (SumF(1..N, st.leafOf) + 3 * st.nC + 5 * Len(hist) + st.nL) % m
Steered(cs) == LET rare == {c \in cs : c.kind \in {"dstar", "realloc"}}
                   sw == {c \in cs : c.kind = "switch"}
                   stars == {c \in cs : c.kind = "star"}
               IN IF rare # {} /\ Coin(4) # 0 THEN rare
                  ELSE IF st.nC < 3 /\ stars # {} /\ Coin(2) = 0 THEN stars
                  ELSE IF st.nC >= 3 /\ sw # {} /\ Coin(3) # 0 THEN sw ELSE cs
GOracle == /\ ph = "loop" /\ LoopCond
           /\ \E c \in (IF STEER THEN Steered(CandsNow(1..D)) ELSE CandsNow(1..D)) :
                 /\ DoSplit(c, Reported(c))
                 /\ hist' = Append(hist, [expl |-> SetToSeq(expl), before |-> View(st), nC |-> st.nC, nL |-> st.nL,
                                          leaf |-> c.leaf, f |-> c.f, th |-> c.th, lt |-> c.lt, rt |-> c.rt,
                                          kind |-> c.kind, gain |-> Reported(c), exact |-> G(c) > 0,
                                          stay |-> (c.lt = ClOfLeaf(st, c.leaf)) \/ (c.rt = ClOfLeaf(st, c.leaf))])
           /\ UNCHANGED <<X, K, par, dev, ph, kn>>
(* the script may also end the search early: a non-positive answer stops the loop *)
GStop == /\ ph = "loop" /\ LoopCond
         /\ (SumF(1..N, st.leafOf) + 3 * st.nC + Len(hist)) % 4 = 0          \* (keeps random scripts long: simulation picks the action first)
         /\ lastPos' = FALSE
         /\ hist' = Append(hist, [expl |-> SetToSeq(expl), before |-> View(st), nC |-> st.nC, nL |-> st.nL, leaf |-> -1, f |-> 0,
                                  th |-> 0, lt |-> 0, rt |-> 0, kind |-> "stop", gain |-> 0, exact |-> TRUE, stay |-> TRUE])
         /\ UNCHANGED <<X, K, par, st, expl, depthOf, leafNode, tree, gains, dev, ph, kn>>
GFinish == ph = "loop" /\ Finish /\ UNCHANGED <<hist, kn>>
Next == GSetup \/ GOracle \/ GStop \/ GFinish

Output == [n |-> N, d |-> D, X |-> X, K |-> K, kn |-> kn, L |-> L, par |-> par, hist |-> hist, final |-> View(st),
           labels |-> Lab(st), tree |-> tree, leafNode |-> leafNode, gains |-> gains, obj |-> ObjLab(K, Lab(st)),
           \* the Tree object's own interface: routing started at ANY node, number of nodes, depth of the tree and of each node
           routeFrom |-> [nd \in 1..Len(tree) |-> [i \in 1..N |-> RouteFrom(X[i], nd - 1)]],
           nnodes |-> Len(tree), height |-> Max({tree[i].depth : i \in 1..Len(tree)})]
Emit == ph = "done" => PrintT(ToJson(Output))
(* whatever the oracle answers, the loop keeps the limits, the shape of the tree and the routing contract *)
GlueLimits == Limits
GlueTreeShape == TreeShape
GlueRouting == RoutingReproducesPartition
==============================================================================================================
