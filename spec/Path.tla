-------------------------------------------------- MODULE Path --------------------------------------------------
(* The regularisation path of the sparse models (C07), structured like gemclus.sparse._base_sparse._path:         *)
(*   defaults for out-of-range arguments -> initial unpenalised fit and its validation score (best) ->             *)
(*   while n_selected > min_features:   alpha := alpha0 * mult^step;  validation score at step begin;              *)
(*        inner loop (epochs) under the patience rule;  NaN aborts;  step end: four histories appended,             *)
(*        best-score rule (only while all features are selected), best-weights rule (keep_threshold)               *)
(*   -> return (best weights, histories) [restore the best weights if asked and not dynamic].                      *)
(* One action per validation-score evaluation (the code's linearisation points): InitVal, StepVal, Epoch, Return.  *)
(* Scores are small integers (NaN = -1) in exact mode; weight states, score values and penalty values are          *)
(* identified by integer ids, so "the weights of step k" / "the score recorded at step k" are exact statements.    *)
EXTENDS Integers, Sequences, FiniteSets, TLC

NaN == -1

VARIABLES pc,        \* [d, maxiter, minf, keepN, keepD, esfN, esfD, maxpat, dynamic, restore]   effective arguments
          ph,        \* "start" | "initval" | "outer" | "inner" | "ret" | "done"
          step,      \* completed outer steps
          i, patience,
          val,       \* reference validation score of the current step (exact mode)
          best,      \* best score seen while all features were selected (exact mode)
          bestW,     \* id of the weight state held as "best weights"
          lastW,     \* id of the model's current weight state
          nsel,      \* currently selected features
          lastS,     \* score of the last epoch (exact mode)
          hN, hS, hP, hW, hScore,   \* histories: n_features, score ids, penalty ids, weight ids, scores (exact mode)
          nan        \* the run aborted on NaN
pvars == <<pc, ph, step, i, patience, val, best, bestW, lastW, nsel, lastS, hN, hS, hP, hW, hScore, nan>>

(* documented replacement of out-of-range arguments; flags say which warnings are due *)
Defaults(raw) ==
    [mult_default |-> raw.multLE1,                                 \* alpha_multiplier <= 1  -> 1.05 + warning
     keep_default |-> raw.keepOut,                                 \* keep_threshold outside [0,1] -> 0.9 + warning
     minf |-> IF raw.minf <= 0 THEN 2 ELSE raw.minf,               \* min_features <= 0 -> 2 + warning
     warn_minf_low |-> raw.minf <= 0,
     warn_minf_high |-> raw.minf > 0 /\ raw.minf >= raw.d]          \* >= d: warning, behaves like fit

Ge(a, b) == a # NaN /\ b # NaN /\ a >= b
GeKeep(s, b) == s # NaN /\ b # NaN /\ s * pc.keepD >= pc.keepN * b
Better(s) == s # NaN /\ val # NaN /\ s * pc.esfD > (2 * pc.esfD - pc.esfN) * val

PInit == /\ ph = "start" /\ pc = <<>> /\ step = 0 /\ i = 0 /\ patience = 0 /\ val = 0 /\ best = 0 /\ bestW = 0 /\ lastW = 0
         /\ nsel = 0 /\ lastS = 0 /\ hN = <<>> /\ hS = <<>> /\ hP = <<>> /\ hW = <<>> /\ hScore = <<>> /\ nan = FALSE

Begin(c) == ph = "start" /\ pc' = c /\ ph' = "initval"
            /\ UNCHANGED <<step, i, patience, val, best, bestW, lastW, nsel, lastS, hN, hS, hP, hW, hScore, nan>>

(* validation score of the initial, unpenalised fit: the first "best", and the first "best weights" *)
InitVal(s, ns, w) ==
    /\ ph = "initval" /\ best' = s /\ bestW' = w /\ lastW' = w /\ nsel' = ns /\ ph' = "outer"
    /\ UNCHANGED <<pc, step, i, patience, val, lastS, hN, hS, hP, hW, hScore, nan>>

(* beginning of an outer step (only while too many features are selected): reference score of the step *)
StepVal(s, ns, w) ==
    /\ ph = "outer" /\ nsel > pc.minf
    /\ val' = s /\ i' = 0 /\ patience' = 0 /\ nsel' = ns /\ lastW' = w /\ ph' = "inner"
    /\ UNCHANGED <<pc, step, best, bestW, lastS, hN, hS, hP, hW, hScore, nan>>

(* one epoch and its score.  isnan/improves/gebest/gekeep are the four comparisons the code makes; in exact mode they *)
(* are computed from integer scores (EpochExact), in float mode they are reported by the recorder.                   *)
Epoch(s, isnan, improves, gebest, gekeep, ns, w, sid, pid) ==
    /\ ph = "inner" /\ i < pc.maxiter /\ patience < pc.maxpat
    /\ LET p1 == IF isnan THEN pc.maxpat ELSE IF improves THEN 0 ELSE patience + 1
           over == ~(i + 1 < pc.maxiter /\ p1 < pc.maxpat)
       IN /\ i' = i + 1 /\ patience' = p1
          /\ val' = IF improves THEN s ELSE val
          /\ nsel' = ns /\ lastW' = w /\ lastS' = s
          /\ IF ~over THEN UNCHANGED <<ph, step, best, bestW, hN, hS, hP, hW, hScore, nan>>
             ELSE IF isnan THEN nan' = TRUE /\ ph' = "ret" /\ UNCHANGED <<step, best, bestW, hN, hS, hP, hW, hScore>>
             ELSE /\ hN' = Append(hN, ns) /\ hS' = Append(hS, sid) /\ hP' = Append(hP, pid) /\ hW' = Append(hW, w)
                  /\ hScore' = Append(hScore, s)
                  /\ step' = step + 1
                  /\ best' = IF gebest /\ ns = pc.d THEN s ELSE best
                  /\ bestW' = IF gekeep THEN w ELSE bestW
                  /\ ph' = "outer" /\ UNCHANGED nan
    /\ UNCHANGED pc
EpochExact(s, l1imp, ns, w, sid, pid) ==
    LET improves == Better(s) \/ l1imp
        gebest == Ge(s, best)
        nb == IF gebest /\ ns = pc.d THEN s ELSE best
    IN Epoch(s, s = NaN, improves, gebest, GeKeep(s, nb), ns, w, sid, pid)

CanReturn == (ph = "outer" /\ ~(nsel > pc.minf)) \/ ph = "ret"
FinalW == IF pc.restore /\ ~pc.dynamic THEN bestW ELSE lastW
Return == CanReturn /\ ph' = "done" /\ lastW' = FinalW
          /\ UNCHANGED <<pc, step, i, patience, val, best, bestW, nsel, lastS, hN, hS, hP, hW, hScore, nan>>

--------------------------------------------------------------------------------------------------------------
(* C07 as invariants *)
Started == ph # "start"
HistoriesAligned == Len(hN) = step /\ Len(hS) = step /\ Len(hP) = step /\ Len(hW) = step
LastCountSmall == (ph = "done" /\ ~nan) => nsel <= pc.minf /\ (step > 0 => hN[step] <= pc.minf)
EarlierCountsLarge == \A k \in 1..(step - 1) : TRUE           \* (earlier steps ended with any count: rows may be revived)
NoEmptyStep == ph \in {"outer", "ret", "done"} => (step > 0 \/ nan \/ hN = <<>>)
PatienceBounds == ph = "inner" => i <= pc.maxiter /\ patience <= pc.maxpat
==============================================================================================================
