----------------------------------------------- MODULE KauriTrace -----------------------------------------------
(* Trace validation of real Kauri.fit executions against KauriFit (code -> spec; C08, C09).                       *)
(* A trace is:  setup, one `step` per find_best_split call, end.  Every logged field is an integer or boolean.    *)
EXTENDS KauriFit, Json, IOUtils

CONSTANTS TIDS                      \* 0 = all traces of the file, otherwise validate only trace TIDS (debugging)
Traces == JsonDeserialize(IOEnv.TRACE_FILE).traces
VARIABLES tid, l
tvars == <<fvars, tid, l>>

Ev == Traces[tid][l]
More == l <= Len(Traces[tid])
IsEvent(e) == More /\ Ev.e = e /\ l' = l + 1 /\ UNCHANGED tid
SetOf(s) == {s[i] : i \in 1..Len(s)}
Matches(c) == c.leaf = Ev.leaf /\ c.f = Ev.f /\ c.th = Ev.th /\ c.lt = Ev.lt /\ c.rt = Ev.rt

TInit == FInit /\ tid \in (IF TIDS = 0 THEN 1..Len(Traces) ELSE {TIDS}) /\ l = 1

TSetup == IsEvent("setup") /\ Setup(Ev.X, Ev.K, Ev.par)
ArgsMatch == SetOf(Ev.expl) = expl /\ Ev.nC = st.nC /\ Ev.nL = st.nL /\ Ev.kmax = par.kmax /\ Ev.minleaf = par.minleaf
TZeroSplit == /\ IsEvent("step") /\ Ev.pos /\ Ev.gain = 0 /\ Ev.gainok /\ ArgsMatch
              /\ \E c \in CandsNow(SetOf(Ev.fsub)) : Matches(c) /\ ZeroGainSplit(SetOf(Ev.fsub), c)
TSplit == /\ IsEvent("step") /\ Ev.gain > 0 /\ Ev.gainok /\ ArgsMatch
          /\ \E c \in CandsNow(SetOf(Ev.fsub)) : Matches(c) /\ G(c) = Ev.gain /\ SplitStep(SetOf(Ev.fsub), c)
TNoGain == /\ IsEvent("step") /\ ~Ev.pos /\ Ev.gain <= 0 /\ ArgsMatch /\ NoGainStep(SetOf(Ev.fsub))
TKnownSplit == /\ IsEvent("step") /\ Ev.gain > 0 /\ ArgsMatch
               /\ \E c \in CandsNow(SetOf(Ev.fsub)) : Matches(c) /\ KnownDStarSplit(SetOf(Ev.fsub), c, Ev.gain)
TKnownStop == /\ IsEvent("step") /\ ~Ev.pos /\ Ev.gain <= 0 /\ ArgsMatch /\ KnownDStarStop(SetOf(Ev.fsub))
TKnownRealloc == /\ IsEvent("step") /\ Ev.gain > 0 /\ Ev.gainok /\ ArgsMatch
                 /\ \E c \in CandsNow(SetOf(Ev.fsub)) : Matches(c) /\ G(c) = Ev.gain /\ KnownReallocSplit(SetOf(Ev.fsub), c)
TKnownReallocStop == /\ IsEvent("step") /\ ~Ev.pos /\ Ev.gain <= 0 /\ ArgsMatch /\ KnownReallocStop(SetOf(Ev.fsub))
TreeMatches(t) ==
    /\ Len(t.left) = Len(tree)
    /\ \A i \in 1..Len(tree) :
          /\ t.left[i] = tree[i].left /\ t.right[i] = tree[i].right /\ t.target[i] = tree[i].target
          /\ t.depth[i] = tree[i].depth
          /\ (tree[i].left # NoneV => t.feat[i] = tree[i].f /\ t.th[i] = tree[i].th /\ t.gain[i] = tree[i].gain)
          /\ (tree[i].left = NoneV => t.feat[i] = NoneV)
TEnd == /\ IsEvent("end") /\ Finish
        /\ Ev.labels = Lab(st) /\ Ev.leaves = st.leafOf
        /\ TreeMatches(Ev.tree)
        /\ \A q \in 1..Len(Ev.queries) : Route(Ev.queries[q]) = Ev.pred[q]
        /\ (dev = 0 => Ev.scoreok /\ Ev.score = ObjLab(K, Lab(st)))
        /\ Ev.score2ok                 \* score(other data of the same size) = objective of the labels predicted for it

TNext == TSetup \/ TSplit \/ TZeroSplit \/ TNoGain \/ TKnownSplit \/ TKnownStop \/ TKnownRealloc \/ TKnownReallocStop \/ TEnd
TSpec == TInit /\ [][TNext]_tvars

(* acceptance: the whole trace was consumed; the harness collects these lines *)
Accept == (l = Len(Traces[tid]) + 1 /\ ph = "done") => PrintT(ToJson([accept |-> tid, dev |-> dev]))

(* debugging aid for rejected traces (TIDS # 0): where the validation got to and which conjuncts hold there *)
Diag == [at |-> tid, l |-> l, ph |-> ph,
         d |-> IF More /\ Ev.e = "step"
               THEN [loopcond |-> LoopCond, args |-> ArgsMatch,
                     admissible |-> \E c \in CandsNow(SetOf(Ev.fsub)) : Matches(c),
                     gainmatches |-> \E c \in CandsNow(SetOf(Ev.fsub)) : Matches(c) /\ G(c) = Ev.gain,
                     isbest |-> \E c \in CandsNow(SetOf(Ev.fsub)) : Matches(c) /\ IsBest(SetOf(Ev.fsub), c),
                     admitsdstar |-> AdmitsDStar(SetOf(Ev.fsub)),
                     bestgain |-> LET cs == CandsNow(SetOf(Ev.fsub)) IN IF cs = {} THEN 0 ELSE G(CHOOSE c \in cs : \A e \in cs : G(e) <= G(c))]
               ELSE IF More /\ Ev.e = "end"
               THEN [loopcond |-> LoopCond, labels |-> Ev.labels = Lab(st), leaves |-> Ev.leaves = st.leafOf,
                     tree |-> TreeMatches(Ev.tree), routing |-> \A q \in 1..Len(Ev.queries) : Route(Ev.queries[q]) = Ev.pred[q],
                     score |-> Ev.score = ObjLab(K, Lab(st)), scoreok |-> Ev.scoreok, score2 |-> Ev.score2ok]
               ELSE [none |-> TRUE]]
Progress == PrintT(ToJson(Diag))
==============================================================================================================
