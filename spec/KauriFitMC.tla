----------------------------------------------- MODULE KauriFitMC -----------------------------------------------
(* Exhaustive exploration of the Kauri.fit state machine (C09 on the specification itself, C19 source of trees):  *)
(* every dataset on the grid x kernel x hyperparameter combination, every feature-subset draw, every tie-break.  *)
EXTENDS KauriFit

CONSTANTS V, NCH, CHUNKS,
          PSTRIDE    \* 1: every (kernel, hyperparameter) combination per dataset; s > 1: a deterministic 1/s sample
VARIABLES chunk

RawParams == [kmax : 1..4, maxdepth : {0, 1, 2, 3}, minsplit : 2..4, minleaf : 1..2, maxfeat : {0} \cup (1..D),
              maxleaves : {0, 2, 3}]
ValidRaw(p) == 2 * p.minleaf <= p.minsplit
HashX(x) == SumF((1..N) \X (1..D), [q \in (1..N) \X (1..D) |-> x[q[1]][q[2]] * (37 * (q[1] * D + q[2]) * (q[1] * D + q[2]) + 101 * q[1] + 7 * q[2])])
HashP(kn, p) == 13 * p.kmax + 17 * p.maxdepth + 19 * p.minsplit + 23 * p.minleaf + 29 * p.maxfeat + 31 * p.maxleaves
                + (CASE kn = "lin" -> 3 [] kn = "lin1" -> 5 [] kn = "mix" -> 11 [] OTHER -> 41)

Init == FInit /\ chunk = -1
PickChunk == ph = "start" /\ chunk = -1 /\ chunk' \in CHUNKS /\ UNCHANGED fvars
PickCase == /\ ph = "start" /\ chunk # -1
            /\ \E x \in [1..N -> [1..D -> 0..V]] :
                  /\ HashX(x) % NCH = chunk
                  /\ \E kn \in KernelNames, p \in RawParams :
                        /\ ValidRaw(p) /\ (PSTRIDE = 1 \/ (HashP(kn, p) + HashX(x)) % PSTRIDE = 0)
                        /\ Setup(x, Kern(kn, x), p)
            /\ UNCHANGED chunk
MCSplit == ph = "loop" /\ (\E fs \in FeatureSubsets : \E c \in CandsNow(fs) : SplitStep(fs, c)) /\ UNCHANGED chunk
MCZeroSplit == ph = "loop" /\ (\E fs \in FeatureSubsets : \E c \in CandsNow(fs) : ZeroGainSplit(fs, c)) /\ UNCHANGED chunk
MCNoGain == ph = "loop" /\ (\E fs \in FeatureSubsets : NoGainStep(fs)) /\ UNCHANGED chunk
MCFinish == ph = "loop" /\ Finish /\ UNCHANGED chunk
Next == PickChunk \/ PickCase \/ MCSplit \/ MCZeroSplit \/ MCNoGain \/ MCFinish

(* the fit always terminates: no behaviour can take more than N split steps *)
Terminates == Len(gains) <= N - 1
==============================================================================================================
