------------------------------------------------ MODULE PathTrace ------------------------------------------------
(* Trace validation of real path() executions against Path (code -> spec; C07, with C06/C12 step predicates).        *)
(* Events: pbegin (arguments and observed warnings), val (one per compute_val_score call; `pre` = number of training   *)
(* epochs since the previous call), ret (the returned tuple, restored weights).  Score / penalty / weight values are   *)
(* logged as integer ids (equal ids <=> equal floats / identical weight arrays); in exact mode (scripted GEMINI with    *)
(* integer scores) the scores themselves are logged and every comparison is recomputed here.                          *)
EXTENDS Path, Json, IOUtils

CONSTANTS TIDS
Traces == JsonDeserialize(IOEnv.TRACE_FILE).traces
VARIABLES tid, l, exact
allvars == <<pvars, tid, l, exact>>
Ev == Traces[tid][l]
More == l <= Len(Traces[tid])
IsEvent(e) == More /\ Ev.e = e /\ l' = l + 1 /\ UNCHANGED <<tid>>

TInit == PInit /\ tid \in (IF TIDS = 0 THEN 1..Len(Traces) ELSE {TIDS}) /\ l = 1 /\ exact = FALSE

Dflt(ev) == Defaults([multLE1 |-> ev.multLE1, keepOut |-> ev.keepOut, minf |-> ev.minf, d |-> ev.d])
WarningsOK(ev) == LET df == Dflt(ev) IN
    /\ ev.warn_mult = df.mult_default /\ ev.warn_keep = df.keep_default
    /\ ev.warn_minf_low = df.warn_minf_low /\ ev.warn_minf_high = df.warn_minf_high
    /\ ev.mult_is_default = df.mult_default /\ ev.keep_is_default = df.keep_default
TBegin == /\ IsEvent("pbegin") /\ WarningsOK(Ev)
          /\ Begin([d |-> Ev.d, maxiter |-> Ev.maxiter, minf |-> Dflt(Ev).minf, keepN |-> Ev.keepN, keepD |-> Ev.keepD,
                    esfN |-> Ev.esfN, esfD |-> Ev.esfD, maxpat |-> Ev.maxpat, dynamic |-> Ev.dynamic, restore |-> Ev.restore])
          /\ exact' = Ev.exact
StepFlags == Ev.alphaok /\ Ev.selok /\ Ev.finite
TInitVal == IsEvent("val") /\ StepFlags /\ InitVal(Ev.s, Ev.nsel, Ev.w) /\ UNCHANGED exact
TStepVal == IsEvent("val") /\ Ev.pre = 0 /\ StepFlags /\ Ev.step = step /\ StepVal(Ev.s, Ev.nsel, Ev.w) /\ UNCHANGED exact
ExactAgrees == exact => LET nb == IF Ge(Ev.s, best) /\ Ev.nsel = pc.d THEN Ev.s ELSE best IN
                  /\ Ev.isnan = (Ev.s = NaN)
                  /\ Ev.improves = (Better(Ev.s) \/ Ev.l1imp)
                  /\ Ev.gebest = Ge(Ev.s, best)
                  /\ Ev.gekeep = GeKeep(Ev.s, nb)
TEpoch == /\ IsEvent("val") /\ Ev.pre = 1 /\ StepFlags /\ ExactAgrees
          /\ Epoch(Ev.s, Ev.isnan, Ev.improves, Ev.gebest, Ev.gekeep, Ev.nsel, Ev.w, Ev.sid, Ev.pid)
          /\ UNCHANGED exact
RetMatches == /\ Ev.lens = <<step, step, step, step>>
              /\ Ev.nfeat = hN /\ Ev.gem = hS /\ Ev.pen = hP /\ Ev.alphasok
              /\ Ev.bestw = bestW /\ Ev.finalw = FinalW /\ Ev.nanwarned = nan /\ Ev.selok
TReturn == IsEvent("ret") /\ RetMatches /\ Return /\ UNCHANGED exact

TNext == TBegin \/ TInitVal \/ TStepVal \/ TEpoch \/ TReturn
Accept == (l = Len(Traces[tid]) + 1 /\ ph = "done") => PrintT(ToJson([accept |-> tid, steps |-> step, nan |-> nan]))

Diag == [at |-> tid, l |-> l, ph |-> ph,
         d |-> IF ~More THEN [eof |-> TRUE]
               ELSE IF Ev.e = "pbegin" THEN [warnings |-> WarningsOK(Ev)]
               ELSE IF Ev.e = "val" THEN
                    [flags_alpha |-> Ev.alphaok, flags_sel |-> Ev.selok, flags_finite |-> Ev.finite,
                     expected_stepval |-> ph = "outer" /\ nsel > pc.minf, expected_epoch |-> ph = "inner" /\ i < pc.maxiter /\ patience < pc.maxpat,
                     expected_return |-> CanReturn, pre |-> Ev.pre,
                     exactagrees |-> (ph = "inner" /\ Ev.pre = 1) => ExactAgrees]
               ELSE [canreturn |-> CanReturn, lens |-> Ev.lens = <<step, step, step, step>>, nfeat |-> Ev.nfeat = hN,
                     gem |-> Ev.gem = hS, pen |-> Ev.pen = hP, alphas |-> Ev.alphasok, bestw |-> Ev.bestw = bestW,
                     finalw |-> Ev.finalw = FinalW, nanwarned |-> Ev.nanwarned = nan, flags_sel |-> Ev.selok]]
Progress == PrintT(ToJson(Diag))
==============================================================================================================
