------------------------------------------------ MODULE Lifecycle ------------------------------------------------
(* The life cycle of ONE estimator object under its public calls (C12).                                         *)
(*                                                                                                              *)
(* The documented contract, from first principles (scikit-learn estimator API + the GemClus docstrings:          *)
(* "random_state: pass an int for reproducible results across multiple function calls"):                         *)
(*   * the hyperparameters of an object are what the constructor / set_params last stored; no other call         *)
(*     changes them (`params` changes only in SetParams; Clone copies them);                                     *)
(*   * a successful fit / fit_predict / path REPLACES the model: with an integer random_state the new model is   *)
(*     a function of <<kind, hyperparameters in force, data>> and of nothing else - in particular not of what    *)
(*     earlier fits, failed fits, predictions, scores, paths or parameter changes left behind;                   *)
(*   * predict / predict_proba / score only read the model; a clone is unfitted;                                 *)
(*   * a fit rejected by validation (FitBad) promises nothing about the model it leaves (kept or dropped), only   *)
(*     that later fits do not depend on it.                                                                      *)
(*                                                                                                              *)
(* Abstract state: `params` in {"c1","c2"} (two hyperparameter configurations; the harness says which concrete  *)
(* values they stand for, per estimator class), `fitted` = NoModel or <<kind, params, data>> = the provenance of *)
(* the current model, `hist` = the calls made so far (each entry also records the configuration get_params()     *)
(* must report after the call).  The state graph IS the enumeration: TLC explores every history of at most        *)
(* MAXLEN calls and prints, for each history ending in a successful fit / fit_predict / path, the history and    *)
(* the provenance of the final model.  THEOREM used by the binding (HistoryIndependent): two histories with the  *)
(* same printed `final` must leave observationally equal models on the real estimator.                          *)
EXTENDS Integers, Sequences, FiniteSets, TLC, Json

CONSTANTS MAXLEN,    \* longest history explored (CONSTRAINT Bounded)
          HASPATH    \* TRUE for the estimators that offer path() (the five sparse models)

VARIABLES params, fitted, hist
vars == <<params, fitted, hist>>

Params == {"c1", "c2"}
Data == {"D1", "D2"}
Kinds == {"fit", "path"}
NoModel == <<>>
Models == Kinds \X Params \X Data
FitOps == {"fit", "fit_predict", "path"}
ReadOps == {"predict", "predict_proba", "score"}
Ops == FitOps \cup ReadOps \cup {"fit_bad", "set_params", "clone"}
KindOf(op) == IF op = "path" THEN "path" ELSE "fit"

(* one entry of the history: the call, its argument (a dataset, a configuration or ""), and the configuration   *)
(* the object holds after the call                                                                              *)
Log(op, arg) == hist' = Append(hist, [op |-> op, arg |-> arg, p |-> params'])

Init == params = "c1" /\ fitted = NoModel /\ hist = <<>>

Fit(d)          == params' = params /\ fitted' = <<"fit", params, d>> /\ Log("fit", d)
FitPredict(d)   == params' = params /\ fitted' = <<"fit", params, d>> /\ Log("fit_predict", d)
FitBad          == params' = params /\ fitted' \in {fitted, NoModel} /\ Log("fit_bad", "")
Predict(d)      == fitted # NoModel /\ UNCHANGED <<params, fitted>> /\ Log("predict", d)
PredictProba(d) == fitted # NoModel /\ UNCHANGED <<params, fitted>> /\ Log("predict_proba", d)
Score(d)        == fitted # NoModel /\ UNCHANGED <<params, fitted>> /\ Log("score", d)
SetParams(c)    == params' = c /\ fitted' = fitted /\ Log("set_params", c)
Path(d)         == HASPATH /\ params' = params /\ fitted' = <<"path", params, d>> /\ Log("path", d)
Clone           == params' = params /\ fitted' = NoModel /\ Log("clone", "")

Next == \/ \E d \in Data : Fit(d) \/ FitPredict(d) \/ Predict(d) \/ PredictProba(d) \/ Score(d) \/ Path(d)
        \/ \E c \in Params : SetParams(c)
        \/ FitBad \/ Clone

Bounded == Len(hist) <= MAXLEN

--------------------------------------------------------------------------------------------------------------
(* Theorems, checked on every explored state.  They are stated on the HISTORY alone (denotationally), so they    *)
(* say what an observer who only saw the calls may conclude.                                                    *)
TypeOK == /\ params \in Params
          /\ fitted = NoModel \/ fitted \in Models
          /\ \A i \in 1..Len(hist) : hist[i].op \in Ops /\ hist[i].p \in Params

(* the configuration in force after a history: the argument of its last set_params, the constructor's otherwise *)
RECURSIVE ParamsOf(_)
ParamsOf(h) == IF h = <<>> THEN "c1"
               ELSE IF h[Len(h)].op = "set_params" THEN h[Len(h)].arg
               ELSE ParamsOf(SubSeq(h, 1, Len(h) - 1))

(* the models a history may leave: only FitBad is allowed a choice *)
RECURSIVE ModelsOf(_)
ModelsOf(h) == IF h = <<>> THEN {NoModel}
               ELSE LET c == h[Len(h)]
                        before == SubSeq(h, 1, Len(h) - 1)
                    IN  CASE c.op \in FitOps  -> {<<KindOf(c.op), ParamsOf(before), c.arg>>}
                          [] c.op = "clone"   -> {NoModel}
                          [] c.op = "fit_bad" -> ModelsOf(before) \cup {NoModel}
                          [] OTHER            -> ModelsOf(before)

OnlySetParamsChangesParams == /\ params = ParamsOf(hist)
                              /\ \A i \in 1..Len(hist) : hist[i].p = ParamsOf(SubSeq(hist, 1, i))
Provenance == fitted \in ModelsOf(hist)
(* the theorem the binding exploits: right after a successful fit / path the model depends on the history only   *)
(* through (the kind of that last call, its data, the configuration in force)                                    *)
HistoryIndependent == (hist # <<>> /\ hist[Len(hist)].op \in FitOps) =>
                          fitted = <<KindOf(hist[Len(hist)].op), params, hist[Len(hist)].arg>>
ReadersNeedAModel == \A i \in 1..Len(hist) : hist[i].op \in ReadOps => ModelsOf(SubSeq(hist, 1, i - 1)) # {NoModel}
PathOnlyWhenOffered == HASPATH \/ \A i \in 1..Len(hist) : hist[i].op # "path"

(* export: one JSON line per history that ends in a successful fit / fit_predict / path.  (TLC also evaluates     *)
(* invariants on the successors that CONSTRAINT Bounded discards, hence the explicit length guard.)             *)
Emit == (hist # <<>> /\ Len(hist) <= MAXLEN /\ hist[Len(hist)].op \in FitOps) => PrintT(ToJson([hist |-> hist, final |-> fitted]))

==============================================================================================================
