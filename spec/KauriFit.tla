------------------------------------------------ MODULE KauriFit ------------------------------------------------
(* Kauri.fit as a state machine (C08 trace part, C09, C19): the greedy loop                                      *)
(*     while last_gain > 0 /\ n_leaves < max_leaves /\ leaves_to_explore # {} :                                   *)
(*         draw a feature subset; take a best admissible split if its gain is positive, else stop                 *)
(* over the abstract state of KauriCore plus the tree being built (node table, depth, explorable leaves).         *)
(* One action per loop iteration (Step), the choice of the feature subset is the environment's.                  *)
EXTENDS KauriCore

NoneV == -1                    \* "no child / no feature / no threshold"

VARIABLES X,          \* dataset: sequence of N rows of D integers
          K,          \* kernel matrix (integers)
          par,        \* effective parameters [kmax, maxdepth, minsplit, minleaf, maxfeat, maxleaves]
          st,         \* [leafOf, clOf, nL, nC]
          expl,       \* explorable leaves
          depthOf,    \* depth of each leaf (sequence indexed leaf+1)
          leafNode,   \* tree node of each leaf (sequence indexed leaf+1, node ids from 0)
          tree,       \* node table: sequence (index = node id + 1) of [left, right, f, th, target, depth, gain, size]
          gains,      \* gains of the splits in order
          lastPos,    \* last_gain > 0
          dev,        \* number of named deviations taken (known findings), 0 in the pure specification
          ph
fvars == <<X, K, par, st, expl, depthOf, leafNode, tree, gains, lastPos, dev, ph>>

Node(l, r, f, t, tg, dp, g, sz) == [left |-> l, right |-> r, f |-> f, th |-> t, target |-> tg, depth |-> dp, gain |-> g, size |-> sz]
RootNode == Node(NoneV, NoneV, NoneV, NoneV, 0, 0, 0, N)

(* hyperparameters as the user gives them (0 encodes None) -> effective values, as documented *)
Effective(raw) == [kmax |-> raw.kmax,
                   maxdepth |-> IF raw.maxdepth = 0 THEN N ELSE raw.maxdepth,
                   minsplit |-> raw.minsplit, minleaf |-> raw.minleaf,
                   maxfeat |-> IF raw.maxfeat = 0 THEN D ELSE IF raw.maxfeat > D THEN D ELSE raw.maxfeat,
                   maxleaves |-> IF raw.maxleaves = 0 THEN N ELSE raw.maxleaves]

FInit == /\ ph = "start" /\ X = <<>> /\ K = <<>> /\ par = <<>> /\ st = RootState /\ expl = {} /\ depthOf = <<0>>
         /\ leafNode = <<0>> /\ tree = <<RootNode>> /\ gains = <<>> /\ lastPos = TRUE /\ dev = 0

Setup(x, k, raw) ==
    /\ ph = "start"
    /\ X' = x /\ K' = k /\ par' = Effective(raw)
    /\ st' = RootState
    /\ expl' = IF N >= raw.minsplit THEN {0} ELSE {}         \* a node with fewer than min_samples_split samples is never split
    /\ depthOf' = <<0>> /\ leafNode' = <<0>> /\ tree' = <<RootNode>> /\ gains' = <<>> /\ lastPos' = TRUE /\ dev' = 0
    /\ ph' = "loop"

LoopCond == lastPos /\ st.nL < par.maxleaves /\ expl # {}
CandsNow(fsub) == Cands(X, st, expl, fsub, par.kmax, par.minleaf)
G(c) == Gain(X, K, st, c)
IsBest(fsub, c) == c \in CandsNow(fsub) /\ \A e \in CandsNow(fsub) : G(e) <= G(c)
AdmitsDStar(fsub) == \E e \in CandsNow(fsub) : e.kind = "dstar"

DoSplit(c, g) ==
    LET M == Members(st, c.leaf)
        Lf == LeftOf(X, M, c.f, c.th)
        Rt == M \ Lf
        father == leafNode[c.leaf + 1]
        nn == Len(tree)                               \* ids of the two new nodes: nn, nn+1
        pd == depthOf[c.leaf + 1]
        old == tree[father + 1]
    IN /\ st' = Apply(X, st, c)
       /\ tree' = [tree EXCEPT ![father + 1] = Node(nn, nn + 1, c.f, c.th, old.target, old.depth, g, old.size)]
                    \o << Node(NoneV, NoneV, NoneV, NoneV, c.lt, pd + 1, 0, Cardinality(Lf)),
                          Node(NoneV, NoneV, NoneV, NoneV, c.rt, pd + 1, 0, Cardinality(Rt)) >>
       /\ leafNode' = Append([leafNode EXCEPT ![c.leaf + 1] = nn], nn + 1)
       /\ depthOf' = Append([depthOf EXCEPT ![c.leaf + 1] = pd + 1], pd + 1)
       /\ expl' = (expl \ {c.leaf}) \cup
                  (IF pd + 1 < par.maxdepth
                   THEN (IF Cardinality(Lf) >= par.minsplit THEN {c.leaf} ELSE {}) \cup
                        (IF Cardinality(Rt) >= par.minsplit THEN {st.nL} ELSE {})
                   ELSE {})
       /\ gains' = Append(gains, g)
       /\ lastPos' = TRUE

FeatureSubsets == {fs \in SUBSET (1..D) : Cardinality(fs) = par.maxfeat}

(* one loop iteration with the drawn feature subset: a best split with positive gain ... *)
SplitStep(fsub, c) ==
    /\ ph = "loop" /\ LoopCond /\ fsub \in FeatureSubsets
    /\ IsBest(fsub, c) /\ G(c) > 0
    /\ DoSplit(c, G(c))
    /\ UNCHANGED <<X, K, par, dev, ph>>
(* Rounding tolerance: when the best exact gain is exactly 0, floating point may report it as a tiny positive number and   *)
(* the implementation then applies that zero-gain split (the property only says when fitting MAY stop).  Both are allowed. *)
ZeroGainSplit(fsub, c) ==
    /\ ph = "loop" /\ LoopCond /\ fsub \in FeatureSubsets
    /\ IsBest(fsub, c) /\ G(c) = 0
    /\ DoSplit(c, 0)
    /\ UNCHANGED <<X, K, par, dev, ph>>
(* ... or no admissible split has positive gain: the loop ends *)
NoGainStep(fsub) ==
    /\ ph = "loop" /\ LoopCond /\ fsub \in FeatureSubsets
    /\ \A e \in CandsNow(fsub) : G(e) <= 0
    /\ lastPos' = FALSE
    /\ UNCHANGED <<X, K, par, st, expl, depthOf, leafNode, tree, gains, dev, ph>>
Finish == /\ ph = "loop" /\ ~LoopCond /\ ph' = "done"
          /\ UNCHANGED <<X, K, par, st, expl, depthOf, leafNode, tree, gains, lastPos, dev>>

(* Named deviations (known findings C08-dstar-gain, C08-dstar-undervalued): enabled only in states that admit a double-star candidate.      *)
(* They take the step the implementation took (any admissible candidate, gain as reported) so that the rest of   *)
(* a recorded execution is still examined by the ordinary actions.  Never enabled in the pure specification.     *)
KnownDStarSplit(fsub, c, g) ==
    /\ ph = "loop" /\ LoopCond /\ fsub \in FeatureSubsets
    /\ AdmitsDStar(fsub) /\ c \in CandsNow(fsub) /\ g > 0
    /\ ~(IsBest(fsub, c) /\ G(c) = g)
    /\ DoSplit(c, g)
    /\ dev' = dev + 1
    /\ UNCHANGED <<X, K, par, ph>>
KnownDStarStop(fsub) ==
    /\ ph = "loop" /\ LoopCond /\ fsub \in FeatureSubsets
    /\ AdmitsDStar(fsub) /\ \E e \in CandsNow(fsub) : G(e) > 0
    /\ lastPos' = FALSE /\ dev' = dev + 1
    /\ UNCHANGED <<X, K, par, st, expl, depthOf, leafNode, tree, gains, ph>>

(* Named deviation (known finding C08-realloc-second-best): with four or more clusters the bookkeeping of the second-best     *)
(* target of the right child is wrong, so a reallocation can be undervalued.  The step taken is an admissible candidate with    *)
(* its exact gain, and every candidate that beats it is a reallocation.  Counted in thousands in `dev`.                       *)
KnownReallocSplit(fsub, c) ==
    /\ ph = "loop" /\ LoopCond /\ fsub \in FeatureSubsets
    /\ st.nC >= 4 /\ c \in CandsNow(fsub) /\ G(c) > 0 /\ ~IsBest(fsub, c)
    /\ \A e \in CandsNow(fsub) : G(e) > G(c) => e.kind = "realloc"
    /\ DoSplit(c, G(c))
    /\ dev' = dev + 1000
    /\ UNCHANGED <<X, K, par, ph>>
KnownReallocStop(fsub) ==
    /\ ph = "loop" /\ LoopCond /\ fsub \in FeatureSubsets
    /\ st.nC >= 4 /\ \E e \in CandsNow(fsub) : G(e) > 0
    /\ \A e \in CandsNow(fsub) : G(e) > 0 => e.kind = "realloc"
    /\ lastPos' = FALSE /\ dev' = dev + 1000
    /\ UNCHANGED <<X, K, par, st, expl, depthOf, leafNode, tree, gains, ph>>

--------------------------------------------------------------------------------------------------------------
(* routing a point through the node table: `<=` goes left *)
RECURSIVE RouteFrom(_, _)
RouteFrom(pt, nd) == LET n == tree[nd + 1] IN
    IF n.left = NoneV THEN n.target
    ELSE IF pt[n.f] <= n.th THEN RouteFrom(pt, n.left) ELSE RouteFrom(pt, n.right)
Route(pt) == RouteFrom(pt, 0)
RECURSIVE LeafNodeFrom(_, _)
LeafNodeFrom(pt, nd) == LET n == tree[nd + 1] IN
    IF n.left = NoneV THEN nd
    ELSE IF pt[n.f] <= n.th THEN LeafNodeFrom(pt, n.left) ELSE LeafNodeFrom(pt, n.right)

RECURSIVE SumSeq(_)
SumSeq(s) == IF s = <<>> THEN 0 ELSE Head(s) + SumSeq(Tail(s))

(* C09: structural limits and self-consistency of the tree, in every state of the construction *)
Started == ph \in {"loop", "done"}
Limits == Started =>
    /\ st.nL <= par.maxleaves
    /\ \A j \in 1..st.nL : depthOf[j] <= par.maxdepth
    /\ st.nC <= par.kmax /\ WellFormed(st)
    /\ (st.nL > 1 => \A j \in 0..(st.nL - 1) : Cardinality(Members(st, j)) >= par.minleaf)
    /\ Len(tree) = 2 * st.nL - 1
    /\ \A i \in 1..Len(tree) : tree[i].left # NoneV =>
          /\ tree[i].size >= par.minsplit                                    \* no small node is ever split
          /\ tree[i].th \in {X[s][tree[i].f] : s \in 1..N}                    \* thresholds are observed values
          /\ tree[i].depth < par.maxdepth
TreeShape == Started =>
    /\ \A j \in 0..(st.nL - 1) : LET n == tree[leafNode[j + 1] + 1] IN
          n.left = NoneV /\ n.target = ClOfLeaf(st, j) /\ n.depth = depthOf[j + 1] /\ n.size = Cardinality(Members(st, j))
    /\ Cardinality({leafNode[j] : j \in 1..st.nL}) = st.nL
    /\ Cardinality({i \in 1..Len(tree) : tree[i].left = NoneV}) = st.nL
RoutingReproducesPartition == Started =>
    \A i \in 1..N : Route(X[i]) = Lab(st)[i] /\ LeafNodeFrom(X[i], 0) = leafNode[st.leafOf[i] + 1]
ScoreIsSum == (Started /\ dev = 0) =>
    ObjLab(K, Lab(st)) = ObjLab(K, [i \in 1..N |-> 0]) + SumSeq(gains)
(* fitting stops only when no admissible split has positive gain or a structural limit is hit *)
StopsOnlyWhenDone == (ph = "done" /\ dev = 0) =>
    \/ st.nL >= par.maxleaves \/ expl = {} \/ ~lastPos
==============================================================================================================
