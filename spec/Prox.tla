-------------------------------------------------- MODULE Prox --------------------------------------------------
(* The two proximal operators of the sparse models, from first principles, in exact arithmetic (C05).           *)
(*                                                                                                              *)
(* (a) GROUP LASSO.  prox(w) = argmin_z 1/2 |z - w|^2 + alpha |z|_2 for one row w (one feature, or one flattened  *)
(*     feature group).  Documented meaning: z = 0 if |w| <= alpha, else z = (1 - alpha/|w|) w.  For an integer row  *)
(*     the test |w| <= alpha is the exact rational test |w|^2 <= alpha^2 and z_i = w_i - alpha w_i rsqrt(|w|^2) is  *)
(*     a symbolic term bag (module Rat); for rows of rational norm everything is an exact rational.               *)
(* (b) HIER-PROX (LassoNet).  argmin over (beta, theta) of 1/2|beta - v|^2 + 1/2|theta - u|^2 + alpha|beta|_2      *)
(*     subject to |theta_j| <= M |beta|_2 for every j.  First-principles minimiser, independent of the published  *)
(*     algorithm: for a fixed b = |beta| >= 0 the best beta is b v/|v| (Cauchy-Schwarz) and the best theta_j is     *)
(*     sign(u_j) min(|u_j|, M b) (projection on an interval), which leaves the strictly convex piecewise          *)
(*     quadratic  phi(b) = 1/2 (b - |v|)^2 + alpha b + 1/2 SUM_j (|u_j| - M b)_+^2  on b >= 0.  phi is minimised    *)
(*     by taking, on every piece between two consecutive breakpoints |u_j|/M, the stationary point of that piece's *)
(*     quadratic clipped to the piece, and keeping the candidate with the smallest phi.  phi is strictly convex,  *)
(*     so the minimiser (b, hence beta and theta) is UNIQUE whenever v # 0: ties between hidden weights or a       *)
(*     candidate sitting on a breakpoint change which piece reports it, never its value.  Hence the theorem       *)
(*     `Algorithm = Minimiser` below needs no tie exclusion.  If v = 0 the direction of beta is free unless the    *)
(*     minimiser is beta = 0; the property keeps v = 0 in scope only for u = 0 and alpha > 0 (minimiser (0,0)).   *)
(* (c) The ALGORITHM of the LassoNet paper as the library implements it (sorted |u|, cumulative sums, x_s, w_s,     *)
(*     index search) is transcribed separately; `AlgIsMin` makes the oracle itself a model-checked theorem.       *)
(* (d) GROUP WRAPPERS.  For every set partition of the features, the rows of a group are flattened (row-major, in *)
(*     the order the group lists them) to one row, the operator is applied, and the result is reshaped back.      *)
(*                                                                                                              *)
(* |v| is rational by construction (Pythagorean / axis rows); alpha and M are small rationals.                   *)
EXTENDS Rat, Json, SequencesExt

CONSTANTS MODE,     \* "lasso" | "hier" | "glasso" | "ghier"
          RNG,      \* integer entries of w (lasso) and u (hier) range over -RNG..RNG
          LMAX,     \* lasso: maximal row length; hier: maximal number of hidden units h
          VSET,     \* hier: which list of skip rows ("small" | "large")
          ALPHA4,   \* thresholds alpha >= 0 in quarters: alpha = n/4 for n in ALPHA4 (cfg files cannot hold tuples)
          M4,       \* hierarchy constants M >= 0 in quarters
          D, KO, H, \* group modes: features, width of the (skip) weight matrix, hidden units
          NSEED,    \* group modes: number of generated weight / hidden matrices
          SUB,      \* ghier: keep the skip matrices with Hash % SUB = 0 (1 = all)
          NBMAX     \* the neighbour theorems are evaluated on points with at most NBMAX coordinates

VARIABLES ph, chunk, c, res
vars == <<ph, chunk, c, res>>

RECURSIVE ISumTo(_, _)
ISumTo(f, n) == IF n = 0 THEN 0 ELSE ISumTo(f, n - 1) + f[n]
SumSq(r) == ISumTo([i \in 1..Len(r) |-> r[i] * r[i]], Len(r))          \* |r|^2 of an integer row
RatNorm(r) == IsSquare(SumSq(r))
INorm(r) == ISqrt(SumSq(r))                                           \* |r| when RatNorm(r)
RSumSq(y) == RSum([i \in 1..Len(y) |-> RSq(y[i])])                     \* |y|^2 of a rational row
RDist2(y, r) == RSum([i \in 1..Len(y) |-> RSq(RSub(y[i], R(r[i])))])   \* |y - r|^2, r an integer row
Sgn(n) == IF n > 0 THEN 1 ELSE IF n < 0 THEN -1 ELSE 0
AbsSeq(u) == Strict([j \in 1..Len(u) |-> AbsI(u[j])])
IsZeroRow(r) == \A i \in 1..Len(r) : r[i] = 0

(* sign of a/b - c/d (b, d > 0) by the Euclidean algorithm: never multiplies, so it cannot overflow 32 bits       *)
(* (TLC: \div floors and % is non-negative for a positive divisor; it is only applied to non-negative fractions) *)
RECURSIVE CmpFrac(_, _, _, _)
CmpFrac(a, b, p, q) ==
    LET qa == a \div b
        qp == p \div q
        ra == a % b
        rp == p % q
    IN IF qa # qp THEN (IF qa < qp THEN -1 ELSE 1)
       ELSE IF ra = 0 /\ rp = 0 THEN 0
       ELSE IF ra = 0 THEN -1
       ELSE IF rp = 0 THEN 1
       ELSE CmpFrac(q, rp, b, ra)                                     \* ra/b ? rp/q  <=>  q/rp ? b/ra
RCmp(x, y) == CmpFrac(x[1], x[2], y[1], y[2])

(* alpha * sqrt(q) >= cc for rationals alpha >= 0, q >= 0, cc: decided exactly by squaring                        *)
SqrtGe(al, q, cc) == RLe(cc, RZero) \/ RCmp(RSq(cc), RMul(RSq(al), q)) <= 0

ALPHAS == {Q(n, 4) : n \in ALPHA4}
MS == {Q(n, 4) : n \in M4}
Steps == {<<1, 4>>, <<1, 1>>}                                          \* neighbour grids
Deltas(n) == [1..n -> {-1, 0, 1}]
LcmI(a, b) == (a \div GCD(a, b)) * b
RECURSIVE DenLcmTo(_, _)
DenLcmTo(y, n) == IF n = 0 THEN 1 ELSE LcmI(DenLcmTo(y, n - 1), y[n][2])
DenLcm(y) == DenLcmTo(y, Len(y))

--------------------------------------------------------------------------------------------------------------
(* (a) group lasso on one integer row                                                                           *)
LassoZero(w, al) == RLe(R(SumSq(w)), RSq(al))                          \* |w| <= alpha
Tidy(bag) == LET b == NonZero(Strict([t \in 1..Len(bag) |-> Simp(bag[t])]))
             IN IF IsRational(b) THEN NonZero(<<TId(RatOf(b))>>) ELSE b
LassoBag(w, al) ==                                                     \* z_i = w_i - alpha w_i / sqrt(|w|^2)
    LET n2 == R(SumSq(w))
        zero == LassoZero(w, al)
    IN Strict([i \in 1..Len(w) |->
          IF zero THEN <<>> ELSE Tidy(<<TId(R(w[i])), T(RNeg(RMul(al, R(w[i]))), "rsqrt", n2)>>)])
LassoRat(w, al) ==                                                     \* closed form, rows of rational norm
    LET nw == INorm(w)
    IN Strict([i \in 1..Len(w) |-> IF LassoZero(w, al) THEN RZero ELSE RMul(RSub(ROne, RDiv(al, R(nw))), R(w[i]))])
LassoEval(w, al) ==
    [zero |-> LassoZero(w, al), rat |-> RatNorm(w), z |-> LassoBag(w, al),
     zr |-> IF RatNorm(w) THEN LassoRat(w, al) ELSE <<>>]

(* KKT conditions of the convex problem (necessary and sufficient): 0 in z - w + alpha d|z|.                     *)
(*   z # 0:  z - w + alpha z/|z| = 0 with z = t w, t = 1 - alpha/|w| > 0, so z/|z| = w/|w|;                         *)
(*   z = 0:  w in alpha * unit ball, i.e. |w| <= alpha.                                                           *)
LassoKKT(w, al, r) ==
    LET n2 == R(SumSq(w))
    IN IF r.zero THEN RLe(n2, RSq(al)) /\ \A i \in 1..Len(w) : r.z[i] = <<>>
       ELSE /\ RLt(RSq(al), n2)
            /\ \A i \in 1..Len(w) :
                 DOMAIN CanonS(r.z[i] \o <<TId(R(-w[i])), T(RMul(al, R(w[i])), "rsqrt", n2)>>) = {}
            /\ r.rat => \A i \in 1..Len(w) : r.z[i] = NonZero(<<TId(r.zr[i])>>)     \* bag form = closed form
(* no point of the 1/4- and 1-grids around z has a smaller objective (rows of rational norm: f(z) is rational)   *)
LassoNoBetter(w, al, r) ==
    (r.rat /\ Len(w) <= NBMAX) =>
        LET z == r.zr
            fstar == RAdd(RHalf(RDist2(z, w)), RMul(al, RSqrt(RSumSq(z))))    \* f(z), |z| rational as z = t w
        IN /\ RIsSquare(RSumSq(z))
           /\ \A st \in Steps, dl \in Deltas(Len(w)) :
                 LET y == Strict([i \in 1..Len(w) |-> RAdd(z[i], RMul(st, R(dl[i])))])
                 IN SqrtGe(al, RSumSq(y), RSub(fstar, RHalf(RDist2(y, w))))

--------------------------------------------------------------------------------------------------------------
(* (b) HIER-PROX minimiser from first principles.  nv = |v| (integer), ua = |u| (integers)                       *)
Pos(x) == RMax(x, RZero)
Phi(nv, ua, al, m, b) ==
    RAdd(RAdd(RHalf(RSq(RSub(b, R(nv)))), RMul(al, b)),
         RHalf(RSum([j \in 1..Len(ua) |-> RSq(Pos(RSub(R(ua[j]), RMul(m, b))))])))
DPhi(nv, ua, al, m, b) ==                                             \* phi is C1: derivative (right derivative at 0)
    RSub(RAdd(RSub(b, R(nv)), al), RMul(m, RSum([j \in 1..Len(ua) |-> Pos(RSub(R(ua[j]), RMul(m, b)))])))
Breaks(ua, m) == IF m = RZero THEN {RZero}                            \* M = 0: phi is one quadratic on [0, oo)
                 ELSE {RZero} \cup {RDiv(R(ua[j]), m) : j \in 1..Len(ua)}
PieceCand(nv, ua, al, m, bp, i) ==
    LET lo == bp[i]
        act == {j \in 1..Len(ua) : RLt(RMul(m, lo), R(ua[j]))}         \* |u_j| - M b > 0 inside the piece
        sA == ISumTo([j \in 1..Len(ua) |-> IF j \in act THEN ua[j] ELSE 0], Len(ua))
        st == RDiv(RAdd(RSub(R(nv), al), RMul(m, R(sA))), RAdd(ROne, RMul(R(Cardinality(act)), RSq(m))))
        c1 == RMax(st, lo)
    IN IF i < Len(bp) THEN RMin(c1, bp[i + 1]) ELSE c1
Cands(nv, ua, al, m) ==                                               \* one candidate per piece, as a sequence
    LET bp == SetToSortSeq(Breaks(ua, m), RLt)
    IN Strict([i \in 1..Len(bp) |-> PieceCand(nv, ua, al, m, bp, i)])
Minimiser(v, u, al, m) ==
    LET nv == INorm(v)
        ua == AbsSeq(u)
        cs == Cands(nv, ua, al, m)
        fs == Strict([i \in 1..Len(cs) |-> Phi(nv, ua, al, m, cs[i])])
        bi == CHOOSE i \in 1..Len(cs) : \A i2 \in 1..Len(cs) : RCmp(fs[i], fs[i2]) <= 0
        best == cs[bi]
    IN [b |-> best, f |-> fs[bi], nbest |-> Cardinality({cs[i] : i \in {i2 \in 1..Len(cs) : fs[i2] = fs[bi]}}),
        beta |-> Strict([i \in 1..Len(v) |-> IF nv = 0 THEN RZero ELSE RMul(best, Q(v[i], nv))]),
        theta |-> Strict([j \in 1..Len(u) |-> RMul(R(Sgn(u[j])), RMin(R(ua[j]), RMul(m, best)))])]

(* (c) the published algorithm, transcribed as implemented (index s of the paper = position s + 1 here)           *)
RECURSIVE InsDesc(_, _)
InsDesc(s, x) == IF s = <<>> THEN <<x>> ELSE IF x >= Head(s) THEN <<x>> \o s ELSE <<Head(s)>> \o InsDesc(Tail(s), x)
RECURSIVE SortDesc(_)
SortDesc(s) == IF s = <<>> THEN <<>> ELSE InsDesc(SortDesc(Tail(s)), Head(s))
Algorithm(v, u, al, m) ==                                              \* v # 0
    LET h == Len(u)
        nv == R(INorm(v))
        us == SortDesc(AbsSeq(u))                                      \* |u|_(1) >= ... >= |u|_(h)
        a == Strict([p \in 1..(h + 1) |-> RSub(al, RMul(m, R(ISumTo(us, p - 1))))])
        x == Strict([p \in 1..(h + 1) |-> RDiv(Pos(RSub(ROne, RDiv(a[p], nv))), RAdd(ROne, RMul(R(p - 1), RSq(m))))])
        w == Strict([p \in 1..(h + 1) |-> RMul(RMul(m, x[p]), nv)])
        lower == Strict([p \in 1..(h + 1) |-> IF p <= h THEN R(us[p]) ELSE RZero])
        idx == Cardinality({p \in 1..(h + 1) : RLt(w[p], lower[p])})   \* the library: number of s with lower_s > w_s
        \* the paper: the first s with |u|_(s+1) <= w_s <= |u|_(s)   (|u|_(0) = oo, |u|_(h+1) = 0)
        ok == {p \in 1..(h + 1) : RLe(lower[p], w[p]) /\ (p = 1 \/ RLe(w[p], R(us[p - 1])))}
        first == IF ok = {} THEN 0 ELSE CHOOSE p \in ok : \A p2 \in ok : p <= p2
        xs == x[idx + 1]
        ws == w[idx + 1]
    IN [idx |-> idx, x |-> xs, w |-> ws,
        prefix |-> {p \in 1..(h + 1) : RLt(w[p], lower[p])} = 1..idx,  \* the count is an index only if this holds
        paper |-> first # 0 /\ x[IF first = 0 THEN 1 ELSE first] = xs /\ w[IF first = 0 THEN 1 ELSE first] = ws,
        beta |-> Strict([i \in 1..Len(v) |-> RMul(xs, R(v[i]))]),
        theta |-> Strict([j \in 1..h |-> RMul(R(IF u[j] >= 0 THEN 1 ELSE -1), RMin(R(AbsI(u[j])), ws))])]

HierEval(v, u, al, m) ==
    [min |-> Minimiser(v, u, al, m), alg |-> IF IsZeroRow(v) THEN <<>> ELSE Algorithm(v, u, al, m)]

InScope(v, u, al) == IsZeroRow(v) => (IsZeroRow(u) /\ al # RZero)      \* the property's quantifier
HierAlgIsMin(v, r) == ~IsZeroRow(v) => (r.alg.beta = r.min.beta /\ r.alg.theta = r.min.theta)
HierPaperAgrees(v, r) == ~IsZeroRow(v) => (r.alg.paper /\ r.alg.prefix)
HierFeasible(v, u, al, m, r) ==                                            \* |theta_j| <= M |beta|,  |beta| = b
    /\ RSumSq(r.min.beta) = (IF IsZeroRow(v) THEN RZero ELSE RSq(r.min.b))
    /\ RLe(RZero, r.min.b)
    /\ r.min.f = RAdd(RAdd(RHalf(RDist2(r.min.beta, v)), RHalf(RDist2(r.min.theta, u))), RMul(al, r.min.b))
    /\ \A j \in 1..Len(u) : RLe(RAbs(r.min.theta[j]), RMul(m, r.min.b))
HierStationary(v, u, al, m, r) ==                                      \* convex phi: b minimises iff this holds
    LET d == DPhi(INorm(v), AbsSeq(u), al, m, r.min.b)
    IN IF r.min.b = RZero THEN RLe(RZero, d) ELSE d = RZero
HierUnique(r) == r.min.nbest = 1
(* NEIGHBOUR THEOREM in the full (beta, theta) space: no FEASIBLE point y = (beta, theta) + unit * delta, delta in  *)
(* {-1,0,1}^(K+h), has a smaller objective, for unit = 1/L (the finest grid containing the minimiser), 1/4 and 1.  *)
(* This validates the reduction to phi(b).  It is evaluated in integers scaled by the common denominator L (no     *)
(* gcds: 50x faster than rationals):  F(y) >= F*  <=>  8 L Aq |YB| >= C  with  C = 32 L^2 F* - 16|YB - L v|^2 -       *)
(* 16|YT - L u|^2, alpha = Aq/4, YB = L yb, YT = L yt; squares are compared through CmpFrac so nothing overflows.  *)
Int4(x) == x[1] * (4 \div x[2])                                        \* 4x for x a multiple of 1/4
Scaled(x, L) == x[1] * (L \div x[2])
LDEN == 200                                                            \* 32-bit safe up to this common denominator
HierL(r) == LcmI(LcmI(LcmI(DenLcm(r.min.beta), DenLcm(r.min.theta)), r.min.b[2]), 4)
HierNbr(v, u, r) == Len(v) + Len(u) <= NBMAX /\ HierL(r) <= LDEN
HierNoBetter(v, u, al, m, r) ==
    HierNbr(v, u, r) =>
        LET k == Len(v)
            h == Len(u)
            L == HierL(r)
            Aq == Int4(al)
            Mq == Int4(m)
            BS == Strict([i \in 1..k |-> Scaled(r.min.beta[i], L)])
            TS == Strict([j \in 1..h |-> Scaled(r.min.theta[j], L)])
            F32 == Scaled(r.min.f, 32 * L * L)
            P == 64 * L * L * Aq * Aq
        IN /\ (32 * L * L) % r.min.f[2] = 0
           /\ \A unit \in {1, L \div 4, L}, dl \in Deltas(k + h) :
                 LET YB == Strict([i \in 1..k |-> BS[i] + unit * dl[i]])
                     YT == Strict([j \in 1..h |-> TS[j] + unit * dl[k + j]])
                     nb2 == SumSq(YB)
                     feas == \A j \in 1..h : IF Mq = 0 THEN YT[j] = 0
                                                       ELSE CmpFrac(16 * YT[j] * YT[j], Mq * Mq, nb2, 1) <= 0
                     C == F32 - 16 * SumSq([i \in 1..k |-> YB[i] - L * v[i]])
                              - 16 * SumSq([j \in 1..h |-> YT[j] - L * u[j]])
                 IN feas => (C <= 0 \/ (P > 0 /\ nb2 > 0 /\ CmpFrac(C, P, nb2, C) <= 0))

--------------------------------------------------------------------------------------------------------------
(* (d) group wrappers                                                                                           *)
MinOf(S) == CHOOSE x \in S : \A y \in S : x <= y
Parts(d) == {P \in SUBSET (SUBSET (1..d) \ {{}}) :
                UNION P = 1..d /\ \A g1, g2 \in P : g1 = g2 \/ g1 \cap g2 = {}}
PartSeq(P) == LET gs == SetToSortSeq(P, LAMBDA g1, g2 : MinOf(g1) < MinOf(g2))
              IN Strict([t \in 1..Len(gs) |-> SetToSortSeq(gs[t], <)])
AllGroupings == {PartSeq(P) : P \in Parts(D)}                          \* every set partition of 1..D
Flat(W, g, wd) == Strict([t \in 1..(Len(g) * wd) |-> W[g[(t - 1) \div wd + 1]][((t - 1) % wd) + 1]])
GroupOf(gs, i) == CHOOSE t \in 1..Len(gs) : \E p \in 1..Len(gs[t]) : gs[t][p] = i
PosIn(g, i) == CHOOSE p \in 1..Len(g) : g[p] = i
Unflat(gs, fl, d, wd) ==                                               \* fl[t] = result for flattened group t
    Strict([i \in 1..d |-> Strict([j \in 1..wd |->
        LET t == GroupOf(gs, i) IN fl[t][(PosIn(gs[t], i) - 1) * wd + j]])])

GenVal(seed, i, j) == ((seed * seed * 5 + seed * (3 * i + 5 * j) + 2 * i * i + 3 * i * j + 4 * i + j) % 7) - 3
GenMat(seed, d, wd) == Strict([i \in 1..d |-> Strict([j \in 1..wd |->
                          IF (seed + 2 * i) % 5 = 0 THEN 0 ELSE GenVal(seed, i, j)])])

GLassoEval(gs, W, al) ==
    LET fl == Strict([t \in 1..Len(gs) |-> LassoEval(Flat(W, gs[t], H), al)])
    IN [zero |-> Strict([t \in 1..Len(gs) |-> fl[t].zero]),
        Z |-> Unflat(gs, Strict([t \in 1..Len(gs) |-> fl[t].z]), D, H), fl |-> fl]

VR == IF D * KO <= 4 THEN 3 ELSE IF D * KO <= 6 THEN 2 ELSE 1
MatHash(V) == ISumTo([i \in 1..D |-> ISumTo([j \in 1..KO |-> V[i][j] * (37 * (i * KO + j) * (i * KO + j) + 101 * (i * KO + j))], KO)], D)
SkipMats(gs) == {V \in [1..D -> [1..KO -> (-VR)..VR]] :
                    /\ MatHash(V) % SUB = 0
                    /\ \A t \in 1..Len(gs) : RatNorm(Flat(V, gs[t], KO))}
MaskHidden(gs, V, U) ==                                                \* groups with zero skip weights: scope u = 0
    Strict([i \in 1..D |-> IF IsZeroRow(Flat(V, gs[GroupOf(gs, i)], KO)) THEN [j \in 1..H |-> 0] ELSE U[i]])
GHierEval(gs, V, U, al, m) ==
    LET fl == Strict([t \in 1..Len(gs) |-> HierEval(Flat(V, gs[t], KO), Flat(U, gs[t], H), al, m)])
    IN [B |-> Unflat(gs, Strict([t \in 1..Len(gs) |-> fl[t].min.beta]), D, KO),
        T |-> Unflat(gs, Strict([t \in 1..Len(gs) |-> fl[t].min.theta]), D, H), fl |-> fl]

--------------------------------------------------------------------------------------------------------------
VRows ==
    IF VSET = "small"
    THEN {<<2>>, <<-3>>, <<3, 4>>, <<0, 5>>, <<1, 2, 2>>, <<2, 3, 6>>, <<0>>, <<0, 0>>}
    ELSE {<<2>>, <<-3>>, <<3, 4>>, <<0, 5>>, <<1, 2, 2>>, <<2, 3, 6>>, <<0>>, <<0, 0>>,
          <<1>>, <<-1>>, <<7>>, <<-4, 3>>, <<-2, 0>>, <<5, 12>>, <<0, 0, 1>>, <<-2, 1, 2>>, <<6, -2, 3>>, <<0, 0, 0>>}
Rows(n) == [1..n -> (-RNG)..RNG]

ChunkSet ==
    CASE MODE = "lasso"  -> {<<n, al, w1>> : n \in 1..LMAX, al \in ALPHAS, w1 \in (-RNG)..RNG}
      [] MODE = "hier"   -> {<<v, al, m>> : v \in VRows, al \in ALPHAS, m \in MS}
      [] MODE = "glasso" -> {<<gs, al>> : gs \in AllGroupings, al \in ALPHAS}
      [] MODE = "ghier"  -> {<<gs, al, m>> : gs \in AllGroupings, al \in ALPHAS, m \in MS}

Init == ph = "start" /\ chunk = <<>> /\ c = <<>> /\ res = <<>>
PickChunk == ph = "start" /\ chunk' \in ChunkSet /\ ph' = "chunk" /\ UNCHANGED <<c, res>>
PickLasso == \E w \in Rows(chunk[1]) :
                /\ w[1] = chunk[3]
                /\ c' = [w |-> w, al |-> chunk[2]]
                /\ res' = LassoEval(w, chunk[2])
PickHier == \E n \in 1..LMAX : \E u \in Rows(n) :
                /\ InScope(chunk[1], u, chunk[2])
                /\ c' = [v |-> chunk[1], u |-> u, al |-> chunk[2], m |-> chunk[3]]
                /\ res' = HierEval(chunk[1], u, chunk[2], chunk[3])
PickGLasso == \E seed \in 1..NSEED :
                LET W == GenMat(seed, D, H)
                IN /\ c' = [gs |-> chunk[1], W |-> W, al |-> chunk[2]]
                   /\ res' = GLassoEval(chunk[1], W, chunk[2])
PickGHier == \E V \in SkipMats(chunk[1]), seed \in 1..NSEED :
                LET U == MaskHidden(chunk[1], V, GenMat(seed, D, H))
                IN /\ \A t \in 1..Len(chunk[1]) : InScope(Flat(V, chunk[1][t], KO), Flat(U, chunk[1][t], H), chunk[2])
                   /\ c' = [gs |-> chunk[1], V |-> V, U |-> U, al |-> chunk[2], m |-> chunk[3]]
                   /\ res' = GHierEval(chunk[1], V, U, chunk[2], chunk[3])
PickCase == /\ ph = "chunk"
            /\ \/ MODE = "lasso" /\ PickLasso
               \/ MODE = "hier" /\ PickHier
               \/ MODE = "glasso" /\ PickGLasso
               \/ MODE = "ghier" /\ PickGHier
            /\ ph' = "eval" /\ UNCHANGED chunk
Next == PickChunk \/ PickCase

--------------------------------------------------------------------------------------------------------------
(* spec-internal theorems, checked on every enumerated case                                                     *)
Ev == ph = "eval"
KKT == Ev =>
    CASE MODE = "lasso"  -> LassoKKT(c.w, c.al, res)
      [] MODE = "glasso" -> \A t \in 1..Len(c.gs) : LassoKKT(Flat(c.W, c.gs[t], H), c.al, res.fl[t])
      [] OTHER -> TRUE
NoBetterNeighbour == Ev =>
    CASE MODE = "lasso"  -> LassoNoBetter(c.w, c.al, res)
      [] MODE = "hier"   -> HierNoBetter(c.v, c.u, c.al, c.m, res)
      [] OTHER -> TRUE
AlgIsMin == Ev =>
    CASE MODE = "hier"  -> HierAlgIsMin(c.v, res) /\ HierPaperAgrees(c.v, res)
      [] MODE = "ghier" -> \A t \in 1..Len(c.gs) : LET v == Flat(c.V, c.gs[t], KO)
                                                    IN HierAlgIsMin(v, res.fl[t]) /\ HierPaperAgrees(v, res.fl[t])
      [] OTHER -> TRUE
Feasible == Ev =>
    CASE MODE = "hier"  -> HierFeasible(c.v, c.u, c.al, c.m, res)
      [] MODE = "ghier" -> \A t \in 1..Len(c.gs) :
                              HierFeasible(Flat(c.V, c.gs[t], KO), Flat(c.U, c.gs[t], H), c.al, c.m, res.fl[t])
      [] OTHER -> TRUE
Stationary == Ev =>
    CASE MODE = "hier"  -> HierStationary(c.v, c.u, c.al, c.m, res) /\ HierUnique(res)
      [] MODE = "ghier" -> \A t \in 1..Len(c.gs) :
                              /\ HierStationary(Flat(c.V, c.gs[t], KO), Flat(c.U, c.gs[t], H), c.al, c.m, res.fl[t])
                              /\ HierUnique(res.fl[t])
      [] OTHER -> TRUE
(* every feature belongs to exactly one group and the reshaped result has the shape of the input                 *)
GroupShape == (Ev /\ MODE \in {"glasso", "ghier"}) =>
    /\ \A i \in 1..D : Cardinality({t \in 1..Len(c.gs) : \E p \in 1..Len(c.gs[t]) : c.gs[t][p] = i}) = 1
    /\ IF MODE = "glasso" THEN Len(res.Z) = D /\ \A i \in 1..D : Len(res.Z[i]) = H
       ELSE Len(res.B) = D /\ Len(res.T) = D /\ \A i \in 1..D : Len(res.B[i]) = KO /\ Len(res.T[i]) = H

(* exporting every evaluated case: one JSON line per state (the harness replays it into the real code)           *)
Output ==
    CASE MODE = "lasso"  -> [mode |-> MODE, w |-> c.w, al |-> c.al, zero |-> res.zero, rat |-> res.rat, z |-> res.z]
      [] MODE = "hier"   -> [mode |-> MODE, v |-> c.v, u |-> c.u, al |-> c.al, m |-> c.m, b |-> res.min.b,
                             f |-> res.min.f, beta |-> res.min.beta, theta |-> res.min.theta,
                             idx |-> IF IsZeroRow(c.v) THEN -1 ELSE res.alg.idx, nbr |-> HierNbr(c.v, c.u, res)]
      [] MODE = "glasso" -> [mode |-> MODE, gs |-> c.gs, W |-> c.W, al |-> c.al, zero |-> res.zero, Z |-> res.Z]
      [] MODE = "ghier"  -> [mode |-> MODE, gs |-> c.gs, V |-> c.V, U |-> c.U, al |-> c.al, m |-> c.m,
                             B |-> res.B, T |-> res.T]
Emit == Ev => PrintT(ToJson(Output))
==============================================================================================================
