-------------------------------------------------- MODULE Rat --------------------------------------------------
(* Exact arithmetic substrate shared by the numeric specifications.                                             *)
(*   - rationals <<num, den>>, den > 0, gcd-normalised after every operation (TLC integers are 32-bit and TLC    *)
(*     aborts on overflow instead of wrapping, so an overflow is a machinery failure and never a wrong verdict); *)
(*   - forward-mode dual numbers <<value, derivative>> over those rationals;                                     *)
(*   - symbolic term bags: a sequence of [c, fn, a] meaning  SUM c * fn(a)  with fn in                            *)
(*       "id" (a ignored), "log", "sqrt", "rsqrt" (= 1/sqrt).                                                     *)
(*     Transcendental leaves are never evaluated in TLA+; the harness evaluates a bag with Fractions + math.     *)
EXTENDS Integers, Sequences, FiniteSets, TLC

RECURSIVE GCD(_, _)
GCD(a, b) == IF b = 0 THEN (IF a < 0 THEN -a ELSE a) ELSE GCD(b, a % b)
AbsI(a) == IF a < 0 THEN -a ELSE a
MinI(a, b) == IF a < b THEN a ELSE b
MaxI(a, b) == IF a < b THEN b ELSE a

Norm(n, d) == LET g == GCD(AbsI(n), AbsI(d))
                  s == IF d < 0 THEN -1 ELSE 1
              IN <<(s * n) \div g, (s * d) \div g>>
R(n) == <<n, 1>>
Q(n, d) == Norm(n, d)
RZero == <<0, 1>>
ROne == <<1, 1>>
RAdd(x, y) == LET g == GCD(x[2], y[2])
                  l == (x[2] \div g) * y[2]
              IN Norm(x[1] * (l \div x[2]) + y[1] * (l \div y[2]), l)
RNeg(x) == <<-x[1], x[2]>>
RSub(x, y) == RAdd(x, RNeg(y))
RMul(x, y) == LET g1 == GCD(AbsI(x[1]), y[2])
                  g2 == GCD(AbsI(y[1]), x[2])
              IN IF x[1] = 0 \/ y[1] = 0 THEN RZero
                 ELSE <<(x[1] \div g1) * (y[1] \div g2), (x[2] \div g2) * (y[2] \div g1)>>
RInv(x) == IF x[1] > 0 THEN <<x[2], x[1]>> ELSE <<-x[2], -x[1]>>      \* x # 0
RDiv(x, y) == RMul(x, RInv(y))
RLt(x, y) == x[1] * y[2] < y[1] * x[2]
RLe(x, y) == x[1] * y[2] <= y[1] * x[2]
REq(x, y) == x = y                                                   \* both normalised
RSgn(x) == IF x[1] > 0 THEN 1 ELSE IF x[1] < 0 THEN -1 ELSE 0
RAbs(x) == <<AbsI(x[1]), x[2]>>
RMax(x, y) == IF RLt(x, y) THEN y ELSE x
RMin(x, y) == IF RLt(x, y) THEN x ELSE y
RHalf(x) == RMul(x, <<1, 2>>)
RSq(x) == RMul(x, x)

(* TLC evaluates [i \in 1..n |-> e] lazily and re-evaluates e at every application; concatenating with the    *)
(* empty tuple materialises the sequence once (measured: 60x fewer evaluations in module Gemini).               *)
Strict(s) == s \o <<>>

RECURSIVE RSumTo(_, _)
RSumTo(f, n) == IF n = 0 THEN RZero ELSE RAdd(RSumTo(f, n - 1), f[n])
RSum(f) == RSumTo(f, Len(f))                                         \* f a sequence of rationals

(* An integer square root test: rationals whose square root is rational.                                        *)
RECURSIVE ISqrtFrom(_, _)
ISqrtFrom(n, r) == IF r * r >= n THEN r ELSE ISqrtFrom(n, r + 1)
ISqrt(n) == ISqrtFrom(n, 0)                                          \* least r with r*r >= n
IsSquare(n) == n >= 0 /\ ISqrt(n) * ISqrt(n) = n
RIsSquare(x) == IsSquare(x[1]) /\ IsSquare(x[2])
RSqrt(x) == <<ISqrt(x[1]), ISqrt(x[2])>>                             \* only when RIsSquare(x)

--------------------------------------------------------------------------------------------------------------
(* dual numbers *)
DC(v) == <<v, RZero>>
DV(v, d) == <<v, d>>
DAdd(x, y) == <<RAdd(x[1], y[1]), RAdd(x[2], y[2])>>
DSub(x, y) == <<RSub(x[1], y[1]), RSub(x[2], y[2])>>
DNeg(x) == <<RNeg(x[1]), RNeg(x[2])>>
DMul(x, y) == <<RMul(x[1], y[1]), RAdd(RMul(x[2], y[1]), RMul(x[1], y[2]))>>
DDiv(x, y) == <<RDiv(x[1], y[1]), RDiv(RSub(RMul(x[2], y[1]), RMul(x[1], y[2])), RMul(y[1], y[1]))>>
DScale(r, x) == <<RMul(r, x[1]), RMul(r, x[2])>>
DZero == DC(RZero)
DOne == DC(ROne)

RECURSIVE DSumTo(_, _)
DSumTo(f, n) == IF n = 0 THEN DZero ELSE DAdd(DSumTo(f, n - 1), f[n])
DSum(f) == DSumTo(f, Len(f))

--------------------------------------------------------------------------------------------------------------
(* term bags *)
T(c, fn, a) == [c |-> c, fn |-> fn, a |-> a]
TId(c) == T(c, "id", ROne)

RECURSIVE Flatten(_)
Flatten(ss) == IF ss = <<>> THEN <<>> ELSE Head(ss) \o Flatten(Tail(ss))

(* a dual term [c: Dual, fn, a: Dual] denotes c * fn(a) with both factors depending on the perturbation        *)
DT(c, fn, a) == [c |-> c, fn |-> fn, a |-> a]
DTId(c) == DT(c, "id", DOne)
TermValue(t) == T(t.c[1], t.fn, t.a[1])
TermDeriv(t) ==
    CASE t.fn = "id"   -> <<TId(t.c[2])>>
      [] t.fn = "log"  -> <<T(t.c[2], "log", t.a[1]), TId(RDiv(RMul(t.c[1], t.a[2]), t.a[1]))>>
      [] t.fn = "sqrt" -> <<T(t.c[2], "sqrt", t.a[1]), T(RHalf(RMul(t.c[1], t.a[2])), "rsqrt", t.a[1])>>
NonZero(b) == SelectSeq(b, LAMBDA t : t.c # RZero)
BagValue(ts) == NonZero(Strict([i \in 1..Len(ts) |-> TermValue(ts[i])]))
BagDeriv(ts) == NonZero(Flatten([i \in 1..Len(ts) |-> TermDeriv(ts[i])]))
ScaleTerms(w, ts) == Strict([i \in 1..Len(ts) |-> DT(DMul(w, ts[i].c), ts[i].fn, ts[i].a)])

(* canonical form of a rational bag: function (fn, a) -> summed coefficient, zero entries dropped.  Two bags    *)
(* with equal canonical forms denote the same real number (sufficient, not necessary).                          *)
Keys(b) == {<<b[i].fn, IF b[i].fn = "id" THEN ROne ELSE b[i].a>> : i \in 1..Len(b)}
CoefOf(b, k) == RSum(SelectSeq([i \in 1..Len(b) |->
                                  IF <<b[i].fn, IF b[i].fn = "id" THEN ROne ELSE b[i].a>> = k THEN b[i].c ELSE RZero],
                               LAMBDA x : TRUE))
Canon(b) == LET ks == {k \in Keys(b) : CoefOf(b, k) # RZero} IN [k \in ks |-> CoefOf(b, k)]
(* symbolic simplification used by the spec-internal theorems: log 1 = 0, sqrt of a perfect-square rational      *)
SmallSquare(x) == x[1] <= 1000000 /\ x[2] <= 1000000 /\ RIsSquare(x)
Simp(t) == IF t.fn = "log" /\ t.a = ROne THEN TId(RZero)
           ELSE IF t.fn = "sqrt" /\ SmallSquare(t.a) THEN TId(RMul(t.c, RSqrt(t.a)))
           ELSE IF t.fn = "rsqrt" /\ SmallSquare(t.a) THEN TId(RDiv(t.c, RSqrt(t.a)))
           ELSE t
CanonS(b) == Canon(Strict([i \in 1..Len(b) |-> Simp(b[i])]))
(* a bag with only "id" terms is a plain rational *)
IsRational(b) == \A i \in 1..Len(b) : b[i].fn = "id" \/ b[i].c = RZero
RatOf(b) == RSum([i \in 1..Len(b) |-> IF b[i].fn = "id" THEN b[i].c ELSE RZero])
==============================================================================================================
