"""C16 - invalid hyper-parameters and malformed inputs are rejected, never trained on; every in-domain value is accepted.

spec/Params.tla holds the DOCUMENTED domain of every parameter of the 18 estimators, the 7 GEMINI constructors and the
validated functions (transcribed from the docstrings) and enumerates: the default configuration, the baseline, every
one-parameter-off configuration over the universe of representatives, the pairs of the combination rules, the
malformed-data classes and every use before fit.  spec/Groups.tla enumerates every list of feature groups over small
feature sets with the expected verdict and the expected explicit partition.  Every printed case is replayed into the
real code (vf/params.py builds the concrete values)."""
import collections, contextlib, json, re, signal
import numpy as np
from vf import tlc, params
from vf.common import MachineryError, NCPU
from vf.report import Report

FAMILY = (ValueError, TypeError)          # sklearn's and gemclus' InvalidParameterError, NotFittedError derive from these
CASE_TIMEOUT = 60                         # seconds; a configuration that does not come back is reported as a hang
NPARAMS_CLASSES = 32

# (D, MAXG, MAXL): every list of <= MAXG groups of <= MAXL indices out of -1..D
GROUP_GRIDS = {
    "quick": [(1, 3, 2), (2, 3, 2), (3, 3, 1), (3, 2, 3), (3, 3, 2)],
    "thorough": [(1, 3, 3), (2, 3, 3), (3, 3, 1), (3, 2, 3), (3, 3, 2)],
}


class _Hang(BaseException):
    pass


@contextlib.contextmanager
def time_limit(seconds):
    def handler(signum, frame):
        raise _Hang()
    old = signal.signal(signal.SIGALRM, handler)
    signal.setitimer(signal.ITIMER_REAL, seconds)
    try:
        yield
    finally:
        signal.setitimer(signal.ITIMER_REAL, 0)
        signal.signal(signal.SIGALRM, old)


def attempt(fn):
    """('ok', result) | ('rejected', exc) for the ValueError/TypeError family | ('crash', exc) | ('hang', None)."""
    try:
        with time_limit(CASE_TIMEOUT), params.quiet():
            return "ok", fn()
    except _Hang:
        return "hang", None
    except FAMILY as e:
        return "rejected", e
    except Exception as e:
        return "crash", e


def attempt_isolated(fn):
    """attempt() in a forked child: a hyperparameter that slips through validation can reach compiled code and kill the
    process (segmentation fault); the parent then reports ('crash', description) instead of dying with it."""
    import os, pickle
    r, w = os.pipe()
    pid = os.fork()
    if pid == 0:
        os.close(r)
        try:
            status, res = attempt(fn)
            payload = (status, None if status == "ok" else (type(res).__name__ + ": " + str(res))[:300] if res is not None else None)
        except BaseException as e:                    # noqa
            payload = ("crash", f"{type(e).__name__}: {e}"[:300])
        try:
            os.write(w, pickle.dumps(payload))
        finally:
            os._exit(0)
    os.close(w)
    data = b""
    while True:
        chunk = os.read(r, 65536)
        if not chunk:
            break
        data += chunk
    os.close(r)
    _, code = os.waitpid(pid, 0)
    if os.WIFSIGNALED(code) or not data:
        return "crash", RuntimeError(f"the process was killed by signal {os.WTERMSIG(code) if os.WIFSIGNALED(code) else '?'} "
                                     f"(a native crash in compiled code)")
    status, msg = pickle.loads(data)
    if status == "ok":
        return "ok", None
    if status == "rejected":
        return "rejected", ValueError(msg)
    return status, RuntimeError(msg) if msg else None


def describe(status, e):
    if status in ("rejected", "crash"):
        return f"{type(e).__name__}: {re.sub(r'0x[0-9A-Fa-f]+', '0x..', ' '.join(str(e).split()))[:140]}"
    return status


def short(status, e):
    return type(e).__name__ if status in ("rejected", "crash") else status


def show(rid, c):
    """Deterministic rendering of a representative: the literal for plain values, <id> for objects."""
    v = params.value(rid, c)
    return repr(v) if isinstance(v, (int, float, str, bool, list, dict, type(None))) else f"<{rid}>"


class Stats:
    def __init__(self):
        self.unspecified = collections.defaultdict(collections.Counter)   # "param=rep" -> outcome counter
        self.after_reject = collections.Counter()                         # how predict fails after a rejected fit
        self.disagreements = collections.defaultdict(list)                # (what, off, rid, tag, exc) -> [cls]
        self.counts = collections.Counter()


def violation(rep, st, cls, off, rid, tag, desc, replay, exc=""):
    st.disagreements[(off, rid, tag, exc)].append(cls)
    rep.violation(desc, replay, tags=(cls, off, rid, tag, f"{off}={rid}:{tag}", f"{cls}.{off}:{tag}",
                                      f"{cls}.{off}={rid}:{tag}"))


def no_fitted_model(rep, st, est, cls, off, rid, what, replay, c):
    """After a rejected fit the estimator must not look or behave like a fitted one."""
    if hasattr(est, "labels_"):
        violation(rep, st, cls, off, rid, "labels-after-failed-fit",
                  f"{what}: fit raised but the estimator has labels_", replay)
    s, r = attempt(lambda: est.predict(c.X))
    if s == "ok":
        violation(rep, st, cls, off, rid, "predict-works-after-failed-fit",
                  f"{what}: fit raised, yet predict(X) afterwards returns {np.asarray(r).tolist()} instead of raising "
                  f"(the estimator is left with a model that was never trained)", replay)
    elif s == "hang":
        violation(rep, st, cls, off, rid, "hang", f"{what}: predict after the failed fit does not return", replay)
    else:
        st.after_reject[short(s, r)] += 1


def judge(rep, st, cls, off, rid, expect, status, res, what, replay):
    """Compare the outcome of the validating call with the documented verdict. True when it was rejected as expected."""
    if status == "hang":
        violation(rep, st, cls, off, rid, "hang", f"{what}: no answer within {CASE_TIMEOUT}s", replay)
        return False
    if expect == "accept":
        if status != "ok":
            violation(rep, st, cls, off, rid, "valid-config-raises",
                      f"{what}: documented as legal, but raises {describe(status, res)}", replay, short(status, res))
        return False
    if expect == "reject":
        if status == "ok":
            violation(rep, st, cls, off, rid, "invalid-config-accepted",
                      f"{what}: outside the documented domain, but accepted without any error", replay)
            return False
        if status == "crash":
            violation(rep, st, cls, off, rid, "wrong-exception-type",
                      f"{what}: outside the documented domain; raises {describe(status, res)} which is neither a "
                      f"ValueError nor a TypeError", replay, short(status, res))
        return True
    st.unspecified[f"{off}={rid}"][short(status, res)] += 1
    return False


def check_case(rep, st, case):
    cls, kind, off = case["cls"], case["kind"], case["off"]
    ent = params.REGISTRY[cls]
    c = params.ctx()
    asg = case["params"] if isinstance(case["params"], dict) else {}
    rid = ",".join(asg[o] for o in off.split(",")) if kind in ("one", "pair") else ""
    replay = {"params_case": case}
    st.counts[kind] += 1
    rep.case((cls, kind, off, rid))
    if kind in ("default", "baseline", "one", "pair"):
        shown = "()" if kind == "default" else "(" + ", ".join(f"{o}={show(asg[o], c)}" for o in off.split(",") if o) + ")"
        what = f"{cls}{shown}" + ("" if ent["kind"] != "estimator" else ".fit(X)")
        if ent["kind"] == "estimator":
            est = params.make(cls, asg, c, default=kind == "default")     # sklearn style: the constructor never validates
            status, res = attempt(lambda: params.fit_tiny(est, c))
            if judge(rep, st, cls, off, rid, case["expect"], status, res, what, replay):
                no_fitted_model(rep, st, est, cls, off, rid, what, replay, c)
            elif case["expect"] == "accept" and status == "ok" and not hasattr(est, "labels_"):
                violation(rep, st, cls, off, rid, "no-labels-after-fit", f"{what}: fit returned without labels_", replay)
            if case["expect"] == "reject" and kind == "one" and st.counts[f"refit:{cls}:{off}"] < 2:
                st.counts[f"refit:{cls}:{off}"] += 1        # two rejected representatives per (class, parameter)
                # the same out-of-domain value reaching an estimator that has ALREADY been fitted once (set_params between two
                # fits): validation must happen at every fit, not only at the first one
                with params.quiet():
                    est2 = params.make(cls, None, c)
                st0, _ = attempt(lambda: params.fit_tiny(est2, c))
                if st0 == "ok":
                    try:
                        with params.quiet():
                            est2.set_params(**{o: getattr(est, o) for o in off.split(",") if o})
                        status2, res2 = attempt_isolated(lambda: params.fit_tiny(est2, c))
                    except Exception as e_:
                        status2, res2 = "raised", e_             # set_params itself refused the value: also a rejection
                    st.counts["refit"] += 1
                    rep.case((cls, "refit", off, rid))
                    judge(rep, st, cls, off, rid + ":refit", "reject", status2, res2, what + " [after a first valid fit + set_params]", replay)
        elif ent["kind"] == "gemini":
            status, res = attempt(lambda: params.make(cls, asg, c, default=kind == "default"))
            judge(rep, st, cls, off, rid, case["expect"], status, res, what, replay)
        else:
            with params.quiet():
                thunk = params.make(cls, asg, c, default=kind == "default")
            status, res = attempt(thunk)
            judge(rep, st, cls, off, rid, case["expect"], status, res, what, replay)
    elif kind == "noaffinity":
        est = params.make(cls, asg, c)
        what = f"{cls}({off}='precomputed').fit(X) without the matrix"
        status, res = attempt(lambda: est.fit(c.X))
        if judge(rep, st, cls, off, "precomputed-without-matrix", "reject", status, res, what, replay):
            no_fitted_model(rep, st, est, cls, off, "precomputed-without-matrix", what, replay, c)
    elif kind == "data":
        X, extra = params.malformed(off, c)
        est = params.make(cls, extra, c)
        what = f"{cls}({', '.join(f'{k}={v}' for k, v in extra.items())}).fit(<{off}>)"
        status, res = attempt(lambda: params.fit_tiny(est, c, X=X))
        if judge(rep, st, cls, "data", off, "reject", status, res, what, replay):
            no_fitted_model(rep, st, est, cls, "data", off, what, replay, c)
    elif kind == "unfitted":
        est = params.make(cls, None, c)
        if off == "print_kauri_tree":
            from gemclus.tree import print_kauri_tree
            status, res = attempt(lambda: print_kauri_tree(est))
        else:
            status, res = attempt(lambda: getattr(est, off)(c.X))
        if status == "ok":
            violation(rep, st, cls, "unfitted", off, "returns-before-fit",
                      f"{cls}().{off} before fit returns {res!r} instead of raising", replay)
        elif status == "hang":
            violation(rep, st, cls, "unfitted", off, "hang", f"{cls}().{off} before fit does not return", replay)
        else:
            st.counts["unfitted:" + short(status, res)] += 1
    else:
        raise MachineryError(f"unknown case kind {kind}")


def run_params(rep, st, classes=None):
    cfg = tlc.cfg(constants=dict(CLASSES=set(classes or range(1, NPARAMS_CLASSES + 1))), invariants=["Emit", "TablesOK"])
    r = tlc.run("Params", cfg, workers=NCPU, timeout=600)
    if r.violated:
        raise MachineryError(f"Params.tla: spec-internal invariant {r.violated} violated\n{r.trace[:1500]}")
    head = [p for p in r.prints if "universe" in p]
    cases = [p for p in r.prints if "cls" in p]
    if len(head) != 1:
        raise MachineryError("Params.tla did not print its universe")
    baselines = {p["cls"]: p["params"] for p in cases if p["kind"] == "baseline"}
    bad = params.verify_against_spec(head[0]["universe"], baselines, head[0]["classes"] if classes is None else None)
    if (head[0]["nfeat"], head[0]["nsamp"]) != (params.N_FEATURES, params.N_SAMPLES):
        bad.append("dataset shape differs between Params.tla and vf/params.py")
    if bad:
        raise MachineryError("vf/params.py and spec/Params.tla disagree:\n  " + "\n  ".join(bad))
    rep.add_tlc("Params", r, note=f"{len(head[0]['universe'])} representatives, {len(baselines)} classes, "
                                  f"{len(cases)} cases")
    return head[0], cases


# -- groups ---------------------------------------------------------------------------------------------------------
def as_lists(gs):
    return None if gs is None else [[int(i) for i in g] for g in gs]


def check_groups_case(rep, st, case):
    from gemclus.sparse._base_sparse import check_groups
    from gemclus.sparse import SparseLinearModel, SparseMLPModel
    d, gs, expect, want = case["d"], case["groups"], case["expect"], case["completed"]
    c = params.ctx(d=d)
    rep.case(("groups", d, json.dumps(gs)))
    replay = {"groups_case": case}
    rid = json.dumps(gs)
    # (1) the helper
    status, res = attempt(lambda: check_groups([list(g) for g in gs], d))
    what = f"check_groups({gs}, {d})"
    judge(rep, st, "check_groups", "groups", rid, expect, status, res, what, replay)
    if expect == "accept" and status == "ok" and as_lists(res) != want:
        violation(rep, st, "check_groups", "groups", rid, "wrong-partition",
                  f"{what} returns {as_lists(res)}, documented explicit partition is {want}", replay)
    # (2) through a real fit
    models = [("SparseLinearModel", lambda: SparseLinearModel(n_clusters=2, groups=[list(g) for g in gs], max_iter=1,
                                                              random_state=0))]
    if expect != "reject":
        models.append(("SparseMLPModel", lambda: SparseMLPModel(n_clusters=2, groups=[list(g) for g in gs], max_iter=1,
                                                                n_hidden_dim=2, random_state=0)))
    for name, build in models:
        est = build()
        status, res = attempt(lambda: params.fit_tiny(est, c))
        what = f"{name}(groups={gs}).fit(X[{c.n}x{d}])"
        if judge(rep, st, name, "groups", rid, expect, status, res, what, replay):
            no_fitted_model(rep, st, est, name, "groups", rid, what, replay, c)
        if expect == "accept" and status == "ok" and as_lists(est.groups_) != want:
            violation(rep, st, name, "groups", rid, "wrong-partition",
                      f"{what}: groups_ = {as_lists(est.groups_)}, documented explicit partition is {want}", replay)


def run_groups(rep, st, grid):
    d, mg, ml = grid
    nch = 32
    cfg = tlc.cfg(init="GInit", next="GNext", constants=dict(D=d, MAXG=mg, MAXL=ml, NCH=nch, CHUNKS=set(range(nch))),
                  invariants=["GEmit", "DocExamples"])
    r = tlc.run("Groups", cfg, workers=NCPU, timeout=900)
    if r.violated:
        raise MachineryError(f"Groups.tla: spec-internal invariant {r.violated} violated\n{r.trace[:1500]}")
    na = sum(1 for p in r.prints if p["expect"] == "accept")
    rep.add_tlc("Groups", r, note=f"d={d}, <= {mg} groups of <= {ml} indices out of -1..{d}: {len(r.prints)} lists, "
                                  f"{na} accepted")
    return r.prints


# -- entry points -----------------------------------------------------------------------------------------------------
def grouped(st):
    """Disagreement classes; the (many) group lists that fail the same way are folded into one entry per class / tag."""
    out, folded = [], collections.defaultdict(list)
    for (off, rid, tag, exc), classes in sorted(st.disagreements.items(), key=lambda kv: (kv[0][2], kv[0][0], kv[0][1])):
        if off == "groups" and rid.startswith("["):
            for cl in classes:
                folded[(cl, tag, exc)].append(rid)
        else:
            out.append({"param": off, "value": rid, "tag": tag, "exception": exc, "classes": sorted(set(classes)),
                        "cases": len(classes)})
    for (cl, tag, exc), rids in sorted(folded.items()):
        out.append({"param": "groups", "value": f"{len(rids)} group lists, e.g. " + "; ".join(sorted(rids, key=len)[:3]),
                    "tag": tag, "exception": exc, "classes": [cl], "cases": len(rids)})
    return out


def summary(st):
    for g in grouped(st):
        print(f"DISAGREEMENT {g['tag']} [{g['param']}={g['value'][:90]}]{' ' + g['exception'] if g['exception'] else ''}: "
              f"{g['cases']} case(s) in {len(g['classes'])} class(es): {', '.join(g['classes'][:20])}")


def run(tier):
    rep = Report("C16", tier)
    st = Stats()
    rep.rule = ("Params.tla: for each of 18 estimators, 7 GEMINI constructors and 7 validated functions: the bare "
                "default configuration, the baseline, every parameter x every representative of the universe (others at "
                "the baseline), all integer pairs (min_samples_leaf, min_samples_split) of Kauri, every legal precomputed option fitted without its matrix, 7 malformed-data "
                "classes per estimator and every predict/predict_proba/score/print before fit; Groups.tla: every list "
                "of groups on the listed grids. A case is (class, kind, parameter, representative) resp. (d, group "
                "list); each is replayed into the real constructor / fit / call on a 6x3 integer dataset")
    head, cases = run_params(rep, st)
    order = {"default": 0, "baseline": 1}
    for case in sorted(cases, key=lambda p: (order.get(p["kind"], 2), p["cls"], p["off"], json.dumps(p["params"], sort_keys=True))):
        check_case(rep, st, case)
    wanted = [("LinearModel", "n_clusters", "int_0"), ("LinearMMD", "kernel", "str_rbf"), ("Kauri", "min_samples_leaf,min_samples_split", "int_2,int_3"),
              ("Douglas", "feature_mask", "ndarray_bool_len_d_plus_1"), ("MLPModel", "learning_rate", "float_0")]
    for case in cases:
        if case["kind"] in ("one", "pair"):
            rid = ",".join(case["params"][o] for o in case["off"].split(","))
            if (case["cls"], case["off"], rid) in wanted:
                rep.sample({"cls": case["cls"], case["off"]: rid, "expect": case["expect"]}, cap=5)
    ngroups = 0
    for grid in GROUP_GRIDS[tier]:
        prints = run_groups(rep, st, grid)
        ngroups += len(prints)
        for case in prints:
            check_groups_case(rep, st, case)
        acc = [p for p in prints if p["expect"] == "accept" and p["completed"] != p["groups"]]
        if acc:
            rep.sample({"d": grid[0], "groups": acc[-1]["groups"], "expect": "accept", "completed": acc[-1]["completed"]}, cap=8)
    rep.exhaustive = True
    rep.extra["table"] = {"classes": len(head["classes"]), "representatives": len(head["universe"]),
                          "parameter_columns": len({(p["cls"], p["off"]) for p in cases if p["kind"] == "one"}),
                          "cases_by_kind": dict(st.counts), "group_lists": ngroups}
    rep.extra["unspecified_outcomes"] = {k: dict(v) for k, v in sorted(st.unspecified.items()) if not k.startswith("groups=")}
    rep.extra["unspecified_group_lists"] = dict(sum((collections.Counter(v) for k, v in st.unspecified.items()
                                                     if k.startswith("groups=")), collections.Counter()))
    rep.extra["predict_after_rejected_fit_raises"] = dict(st.after_reject)
    rep.extra["disagreement_classes"] = grouped(st)
    rep.assumptions = [
        "domains are transcribed by hand from the docstrings (spec/Params.tla quotes them); where a docstring gives no "
        "bound the mathematically necessary domain is used and the boundary representative is 'unspecified' (executed, "
        "outcome recorded in the evidence, never asserted)",
        "ambiguous values are not judged: bool for a number, integer-valued float for an int, 0/1 for a bool, +inf for "
        "an unbounded real, negative seeds, callables for the estimators' kernel/metric, [] and [[]] as groups",
        "one-parameter-off only (plus the Kauri pair): interactions between other parameters are not explored; values "
        "are representatives, not all values; dataset fixed (6x3 non-negative integers, y = precomputed affinity when "
        "a 'precomputed' option is selected); contents of kernel_params / metric_params dictionaries are not explored",
        "the arguments of SparseLinearModel.path / SparseMLPModel.path are call arguments handled by warnings, they "
        "belong to C07/C12; must_link / cannot_link belong to C14; feature_names shorter than needed belongs to C19",
        "'no fitted model' is observed as: no labels_ attribute and predict(X) raising any exception",
    ]
    summary(st)
    return rep.finish()


def replay(path):
    blob = json.load(open(path))
    case = blob["case"]
    rep, st = Report("C16", "quick"), Stats()
    if "params_case" in case:
        print("replaying", case["params_case"])
        check_case(rep, st, case["params_case"])
    else:
        print("replaying", case["groups_case"])
        check_groups_case(rep, st, case["groups_case"])
    for d, _ in rep.violations:
        print("  ", d)
    summary(st)
    print("violations:", len(rep.violations))
    return 1 if rep.violations else 0
