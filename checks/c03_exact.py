"""C03 (a): exact spec -> code binding for Backprop.tla.  The runner draws a seeded sample of integer cases (all ReLU activation
patterns and all Douglas cut orderings are forced to occur), TLC computes the exact expected direction of every parameter with
dual numbers, and the real _compute_grads / _update_weights are run on Fraction object arrays and compared with ==."""
import itertools, json, os
from fractions import Fraction as Fr
import numpy as np
from vf import tlc
from vf.common import scratch, NCPU, MachineryError


def F(a):
    return np.array([[Fr(int(v)) for v in row] for row in a], dtype=object).reshape(np.shape(a))


def comp(rnd, q, k):
    """random composition of q into k positive parts"""
    cuts = sorted(rnd.sample(range(1, q), k - 1))
    return [b - a for a, b in zip([0] + cuts, cuts + [q])]


def gen_cases(rnd, count):
    cases, patterns, orders = [], set(), set()
    fams = ["linear", "rim", "mlp", "sparsemlp", "categorical", "kernelrim", "douglas"]
    ri = lambda lo, hi, r, c: [[rnd.randint(lo, hi) for _ in range(c)] for _ in range(r)]
    tries = 0
    while len(cases) < count and tries < count * 50:
        tries += 1
        fam = fams[len(cases) % len(fams)]
        n, d, K = rnd.randint(1, 3), rnd.randint(1, 2), rnd.randint(2, 3)
        q = rnd.choice([4, 6, 8]) if K <= 3 else 8
        c = dict(id=len(cases) + 1, fam="linear" if fam == "rim" else fam, sub=fam, q=q, X=ri(-2, 2, n, d), y=[comp(rnd, q, K) for _ in range(n)],
                 g=ri(-3, 3, n, K), reg=[0, 1], W=[], b=[], W1=[], b1=[], W2=[], b2=[], Ws=[], lg=[], Kf=[], T=[1, 1], bins=[], qb=1,
                 S=[], order=[])
        if fam in ("linear", "rim"):
            c.update(W=ri(-2, 2, d, K), b=ri(-2, 2, 1, K))
            if fam == "rim":
                c["reg"] = rnd.choice([[1, 2], [1, 10], [2, 1]])
        elif fam in ("mlp", "sparsemlp"):
            h = rnd.randint(1, 2)
            c.update(W1=ri(-2, 2, d, h), b1=ri(-2, 2, 1, h), W2=ri(-2, 2, h, K), b2=ri(-2, 2, 1, K))
            if fam == "sparsemlp":
                c["Ws"] = ri(-2, 2, d, K)
            pre = np.array(c["X"]) @ np.array(c["W1"]) + np.array(c["b1"])
            if np.any(pre == 0):
                continue                                   # ReLU kink: the derivative does not exist there
            patterns.add((h, tuple((pre > 0).astype(int).ravel().tolist())) if n == 1 else ("multi",))
        elif fam == "categorical":
            c.update(lg=ri(-2, 2, n, K), X=[])
        elif fam == "kernelrim":
            m = rnd.randint(max(n, 2), 3)                 # training set size; the batch has n <= m rows of the kernel
            pts = [rnd.randint(-2, 2) for _ in range(m)]
            Kf = [[pts[i] * pts[j] + (1 if i == j else 0) for j in range(m)] for i in range(m)]
            rows = rnd.sample(range(m), n)
            c.update(Kf=Kf, X=[Kf[r] for r in rows], W=ri(-2, 2, m, K), b=ri(-2, 2, 1, K), reg=rnd.choice([[1, 2], [1, 10], [3, 1]]))
        elif fam == "douglas":
            Fn = rnd.randint(1, 2)
            C = [rnd.randint(1, 3)] if Fn == 1 else [rnd.randint(1, 2) for _ in range(Fn)]
            qb = rnd.choice([4, 6])
            L = int(np.prod([cc + 1 for cc in C]))
            order = [list(rnd.sample(range(cc), cc)) for cc in C]
            c.update(X=[], bins=[[comp(rnd, qb, cc + 1) for _ in range(n)] for cc in C], qb=qb, S=ri(-2, 2, L, K), order=order,
                     T=rnd.choice([[1, 2], [1, 1], [2, 1], [1, 10]]))
            for o in order:
                orders.add(tuple(o))
        cases.append(c)
    return cases, patterns, orders


def code_direction(c):
    """Run the real code on Fraction arrays; returns list of (name, object array)."""
    from gemclus.linear import LinearModel, RIM, KernelRIM
    from gemclus.mlp import MLPModel
    from gemclus.sparse import SparseMLPModel
    from gemclus.nonparametric import CategoricalModel
    from gemclus.tree import Douglas
    y = np.array([[Fr(v, c["q"]) for v in row] for row in c["y"]], dtype=object)
    g = F(c["g"])
    X = F(c["X"]) if c["X"] else None
    sub = c["sub"]

    class Capture:
        learning_rate = 0.0

        def update_params(self, params, grads):
            self.grads = [np.array(x, dtype=object, copy=True) for x in grads]
    if sub in ("linear", "rim"):
        m = RIM(reg=Fr(*c["reg"])) if sub == "rim" else LinearModel()
        m.W_, m.b_ = F(c["W"]), F(c["b"])
        grads = m._compute_grads(X, y, g.copy())
        if sub == "rim":
            m.optimiser_ = Capture()
            m._update_weights(m._get_weights(), grads)
            grads = m.optimiser_.grads
        return list(zip(["W", "b"], grads))
    if sub in ("mlp", "sparsemlp"):
        m = SparseMLPModel() if sub == "sparsemlp" else MLPModel()
        m.W1_, m.b1_, m.W2_, m.b2_ = F(c["W1"]), F(c["b1"]), F(c["W2"]), F(c["b2"])
        pre = X @ m.W1_ + m.b1_
        m.H_ = np.where(pre > 0, pre, Fr(0))               # the retained forward state: relu(X W1 + b1)
        names = ["W1", "W2", "b1", "b2"]
        if sub == "sparsemlp":
            m.W_skip_ = F(c["Ws"])
            names = ["W1", "W2", "Ws", "b1", "b2"]
        return list(zip(names, m._compute_grads(X, y, g.copy())))
    if sub == "categorical":
        m = CategoricalModel()
        m.logits_ = F(c["lg"])
        return list(zip(["lg"], m._compute_grads(None, y, g.copy())))
    if sub == "kernelrim":
        m = KernelRIM(reg=Fr(*c["reg"]))
        m.W_, m.b_ = F(c["W"]), F(c["b"])
        m.training_kernel_ = F(c["Kf"])                    # attribute introduced by the repair of the batch/penalty defect
        m.input_data_ = F(c["Kf"])
        m.base_kernel = lambda A, B: A                     # K(X, training) for callers that recompute it
        return list(zip(["W", "b"], m._compute_grads(X, y, g.copy())))
    if sub == "douglas":
        m = Douglas(temperature=Fr(*c["T"]))
        bins = [np.array([[Fr(v, c["qb"]) for v in row] for row in Bf], dtype=object) for Bf in c["bins"]]
        m.cut_points_list_ = [(f, np.zeros(len(Bf[0]) - 1)) for f, Bf in enumerate(c["bins"])]
        m.leaf_scores_ = F(c["S"])
        leaf = bins[0]
        for Bn in bins[1:]:
            leaf = np.einsum("ij,ik->ijk", leaf, Bn).reshape((len(leaf), -1))
        m._leaf, m._all_binnings = leaf, bins
        # order = argsort(cut_points): the sorted cut at position s is the original cut order[s]
        m._all_orders = [np.array(o, dtype=np.int64) for o in c["order"]]
        out = m._compute_grads(None, y, g.copy())
        return [("S", out[0])] + [("cuts", np.asarray(o, dtype=object).reshape(1, -1)) for o in out[1:]]
    raise ValueError(sub)


def run_exact(rep, tier, rnd):
    count = 420 if tier == "quick" else 2500
    cases, patterns, orders = gen_cases(rnd, count)
    need = {(1, (0,)), (1, (1,)), (2, (0, 0)), (2, (0, 1)), (2, (1, 0)), (2, (1, 1))}
    if not need <= patterns or not {(0,), (0, 1), (1, 0), (1, 2, 0), (2, 0, 1)} <= orders:
        raise MachineryError(f"case sample misses ReLU patterns {need - patterns} or cut orderings")
    with scratch("bp") as d:
        path = os.path.join(d, "cases.json")
        json.dump({"cases": cases}, open(path, "w"))
        r = tlc.run("Backprop", tlc.cfg(constants=dict(NCH=64, CHUNKS=set(range(64))), invariants=["Emit"]),
                    env={"CASES_FILE": path}, workers=NCPU, timeout=3000)
    rep.add_tlc("Backprop", r, note=f"{len(cases)} sampled integer cases, exact directions by dual numbers")
    if len(r.prints) != len(cases):
        raise MachineryError(f"Backprop.tla evaluated {len(r.prints)} of {len(cases)} cases")
    by_id = {c["id"]: c for c in cases}
    for out in r.prints:
        c = by_id[out["id"]]
        rep.case(("exact", c["sub"], c["id"], json.dumps(c, sort_keys=True)))
        try:
            got = code_direction(c)
        except Exception as e:
            rep.violation(f"exact case {c['sub']} raised {type(e).__name__}: {e}", {"case": c}, tags=(c["sub"], "raises"))
            continue
        exp = out["out"]
        if len(exp) != len(got):
            rep.violation(f"{c['sub']}: {len(got)} arrays handed, {len(exp)} parameters", {"case": c}, tags=(c["sub"], "count"))
            continue
        for (gname, garr), e in zip(got, exp):
            want = np.array([[Fr(v[0], v[1]) for v in row] for row in e["dir"]], dtype=object)
            garr = np.asarray(garr, dtype=object)
            if garr.ndim == 1:
                garr = garr.reshape(1, -1)
            if garr.shape != want.shape or not all(Fr(a) == b for a, b in zip(garr.ravel(), want.ravel())):
                rep.violation(f"{c['sub']} parameter {e['name']}: code hands {[[str(v) for v in row] for row in garr.tolist()]} "
                              f"but minus the exact gradient is {[[str(v) for v in row] for row in want.tolist()]} (case {c})",
                              {"case": c, "param": e["name"]}, tags=(c["sub"], e["name"], "exact-direction"))
    rep.extra["exact_relu_patterns"] = sorted(str(p) for p in patterns)
    rep.sample({"exact_case": {k: v for k, v in cases[2].items() if v not in ([], None)}})
