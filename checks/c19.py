"""C19 - The printed KAURI tree is a faithful description of the fitted tree.
spec/KauriPrint.tla defines the printing grammar (token list of a depth-first walk of the node table), which lists of
feature names must be accepted, and a reader of the printed rules; TLC proves reader(printed) = Route on every final tree
of the fit state machine KauriFitMC (sampled datasets x kernels x hyperparameters) and emits node table + expected tokens
+ accept table + Route on a grid.  Every distinct emitted tree is INSTALLED on a really fitted gemclus.tree.Kauri; the
real print_kauri_tree's stdout is read back by a strict recursive-descent reader and compared with the spec's tokens,
with the real predict and with Route; lists of names of every length 0..d+1 are compared with the accept table (refused
= ValueError/TypeError BEFORE anything is printed); unfitted and foreign objects must be refused.  The same is done for
the trees of real Kauri.fit runs (d = 2, 3, sparse feature usage) and for generated node tables (d = 3, 4, depth <= 4),
whose expected output also comes from the spec (GInit/GNext)."""
import json, random, collections, itertools
from concurrent.futures import ThreadPoolExecutor
import numpy as np
from vf import kprint as kp, kauri
from vf.common import SEED, MachineryError
from vf.report import Report

# (N, D, V, PSTRIDE, NCH, number of chunks explored)
QUICK = [(3, 2, 1, 64, 64, 64), (4, 3, 1, 256, 256, 6), (4, 2, 2, 128, 256, 8), (5, 1, 4, 128, 256, 12),
         (5, 2, 1, 256, 256, 16)]
THOROUGH = [(3, 2, 1, 4, 64, 64), (4, 3, 1, 128, 64, 16), (4, 2, 2, 64, 64, 16), (5, 1, 4, 32, 64, 32),
            (5, 2, 1, 64, 64, 64), (6, 2, 1, 256, 64, 16), (6, 1, 3, 64, 64, 16), (5, 2, 2, 2048, 64, 3)]
REFUSAL = (ValueError, TypeError)
SCALES = (1, 0.5, 0.1, 1)        # installed thresholds = spec threshold x scale (0.1 x 3 = 0.30000000000000004: full repr needed)


# ---------------------------------------------------------------------------------------------------------------
def resolve(rules, names):
    """Nested rules with printed names -> nested rules with 0-based feature indices (once per printed text)."""
    if rules[0] == "leaf":
        return rules
    _, i, (n1, t1), lt, (n2, t2), rt = rules
    return ("split", i, (kp.feature_of(n1, names), t1), resolve(lt, names), (kp.feature_of(n2, names), t2), resolve(rt, names))


def read(rules, pt):
    while rules[0] == "split":
        _, _, (f1, t1), lt, (f2, t2), rt = rules
        if max(f1, f2) >= len(pt):
            raise kp.ParseError(f"rule on feature {max(f1, f2)} but points have {len(pt)} features")
        rules = lt if pt[f1] <= t1 else rt if pt[f2] > t2 else None
        if rules is None:
            return kp.NO_RULE
    return rules[2]


def points(d, v):
    g = kp.grid(d, v)
    half = [list(p) for p in itertools.product([x + 0.5 for x in range(-1, v + 1)], repeat=d)]
    if len(half) > 250:
        half = half[::len(half) // 250 + 1]
    return g, half


def describe(rec):
    inner = [(i, rec["feat"][i] - 1, rec["th"][i]) for i in range(len(rec["left"])) if rec["left"][i] != -1]
    return (f"d={rec['d']} tree: children_left={rec['left']} children_right={rec['right']} "
            f"splits(node, feature, threshold)={inner} target={rec['target']}")


def check_tree(rec, model, source, out, info=None, scale=1):
    """Compare the real printing of `model` (whose tree_ is rec's node table, thresholds multiplied by `scale`: the spec's
    integer grid stands for the grid scale * Z^d, which gives fractional thresholds) with the spec's record.
    Appends (description, replay, tags, names_len) to out; returns the number of comparisons made."""
    d, v = rec["d"], rec["v"]
    g, half = points(d, v)
    allpts = g + half
    spec_rules = {"default": resolve(kp.parse(rec["tokens"]), None)}
    names_full = [f"n{i + 1}" for i in range(d + 1)]
    spec_rules["named"] = resolve(kp.parse(rec["named"]), names_full)
    for k, pt in enumerate(g):          # the harness reader must be the spec's Read: otherwise nothing below means anything
        if read(spec_rules["default"], pt) != rec["route"][k] or read(spec_rules["named"], pt) != rec["route"][k]:
            raise MachineryError(f"harness reader disagrees with the spec's Route at {pt} on {describe(rec)}")
    def scaled(tokens):
        return [dict(t, th=t["th"] * scale) if "th" in t else t for t in tokens]
    exp_default, exp_named = scaled(rec["tokens"]), scaled(rec["named"])
    allpts = [[c * scale for c in pt] for pt in allpts]
    rules_s = resolve(kp.parse(exp_default), None)
    expect = [read(rules_s, pt) for pt in allpts]
    pred = [int(x) for x in model.predict(np.asarray(allpts, dtype=np.float64))]
    base = dict(tree={k: rec[k] for k in ("d", "v", "left", "right", "feat", "th", "target", "depth")}, source=source, scale=scale)
    sc = "" if scale == 1 else f" thresholds x {scale}"
    if info:
        base["fit"] = info
    ncmp = 0

    def bad(msg, tags, names):
        out.append((f"{describe(rec)}{sc} [{source}] feature_names={names!r}: {msg}", dict(base, names=names),
                    tuple(tags) + (source,), -1 if names is None else len(names)))

    def accepted_run(names, label, exp_tokens):
        """The call must print the spec's tokens; reading them back must give predict and Route."""
        text, exc = kp.call_print(model, "default" if names is None else names)
        shown = None if names is None else [str(x) for x in names]
        if exc is not None:
            return bad(f"the spec accepts this call, the code raised {type(exc).__name__}: {exc} after printing "
                       f"{text.count(chr(10))} line(s)", ("raises-on-valid-input", label), shown)
        try:
            toks = kp.lex(text)
            rules = kp.parse(toks)
        except kp.ParseError as e:
            return bad(f"printed text cannot be read back: {e}; text={text!r}", ("unparsable", label), shown)
        diff = kp.same_tokens(toks, exp_tokens)
        if diff:
            bad(f"printed text differs from the specified one at {diff}; text={text!r}", ("tokens-differ", label), shown)
        try:
            rr = resolve(rules, shown)
            got = [read(rr, pt) for pt in allpts]
        except kp.ParseError as e:
            return bad(f"printed rules cannot be applied: {e}; text={text!r}", ("rules-unusable", label), shown)
        for k, pt in enumerate(allpts):
            if got[k] != pred[k] or got[k] != expect[k]:
                tags = ["readback-differs", label] + (["readback-vs-predict"] if got[k] != pred[k] else []) + \
                       (["predict-vs-route"] if pred[k] != expect[k] else [])
                return bad(f"at point {pt}: the printed rules read back give cluster "
                           f"{'(no rule applies)' if got[k] == kp.NO_RULE else got[k]}, predict gives {pred[k]}, the "
                           f"specification's Route gives {expect[k]}; text={text!r}", tags, shown)

    # (b)(c) default names
    accepted_run(None, "default-names", exp_default)
    ncmp += 1
    # (d) lists of names of every length
    nused = len(rec["used"])
    for ln in range(d + 2):
        names = names_full[:ln]
        ncmp += 1
        if rec["accept"][ln]:
            accepted_run(names, "user-names", exp_named)
            continue
        text, exc = kp.call_print(model, names)
        if exc is not None and isinstance(exc, REFUSAL) and text == "":
            continue
        tags = ["feature-names-guard"] + (["sparse-feature-usage"] if ln >= nused else [])
        if exc is None:
            msg, tags = "the call returned normally", tags + ["not-refused"]
        elif text != "":
            msg = (f"the code raised {type(exc).__name__}: {exc} only after printing {text.count(chr(10))} line(s) "
                   f"({text!r})")
            tags += ["raised-after-printing", type(exc).__name__]
        else:
            msg, tags = f"the code raised {type(exc).__name__}: {exc}, not a ValueError/TypeError", tags + [type(exc).__name__]
        bad(f"{ln} name(s) cannot label feature index {rec['need'] - 1} used by the tree "
            f"({nused} distinct used feature(s), {rec['need']} names needed): the call must be refused with a "
            f"ValueError/TypeError before anything is printed, but {msg}", tags, names)
    # names given as an ndarray (as the library's own test does)
    if rec["accept"][d]:
        accepted_run(np.array(names_full[:d]), "user-names-ndarray", exp_named)
        ncmp += 1
        # names are arbitrary text: characters that mean something to a formatting routine are printed as they are
        awkward = ["100%", "%s", "{0}", "a {b} %d", "x\\y", "\u00e9 <", "%(n)s", "}{"]
        awk = [awkward[(i + len(rec["feat"])) % len(awkward)] + (str(i) if i >= len(awkward) else "") for i in range(d)]
        ren = dict(zip(names_full[:d], awk))
        accepted_run(awk, "user-names-awkward", [dict(t, name=ren[t["name"]]) if "name" in t else t for t in exp_named])
        ncmp += 1
    return ncmp


# ---------------------------------------------------------------------------------------------------------------
def check_guards(rep, out):
    """(e) unfitted and foreign objects are refused, with and without names, before anything is printed."""
    from gemclus.tree import Kauri
    from gemclus.tree.kauri import Tree
    from sklearn.cluster import KMeans
    from sklearn.tree import DecisionTreeClassifier
    import types
    fitted = kp.fitted_kauri(2)
    X = np.array([[0., 0.], [0., 1.], [5., 5.], [5., 6.]])
    objs = {"unfitted Kauri()": Kauri(), "unfitted Kauri(max_clusters=2, max_depth=1)": Kauri(max_clusters=2, max_depth=1),
            "fitted sklearn KMeans": KMeans(n_clusters=2, n_init=1, random_state=0).fit(X),
            "fitted sklearn DecisionTreeClassifier": DecisionTreeClassifier().fit(X, [0, 0, 1, 1]),
            "dict of tree arrays": dict(vars(fitted.tree_)), "None": None, "the Tree inside a fitted Kauri": fitted.tree_,
            "a fresh Tree()": Tree(), "the class Kauri": Kauri, "a string": "kauri",
            "namespace with a tree_ attribute": types.SimpleNamespace(tree_=fitted.tree_)}
    for what, obj in objs.items():
        for names in ("default", ["a", "b"]):
            rep.case(("guard", what, str(names)))
            text, exc = kp.call_print(obj, names)
            if exc is not None and isinstance(exc, REFUSAL) and text == "":
                continue
            kind = "unfitted" if what.startswith("unfitted") else "foreign-object"
            msg = "returned normally" if exc is None else f"raised {type(exc).__name__}: {exc}"
            out.append((f"print_kauri_tree({what}, feature_names={None if names == 'default' else names}) must be refused with a "
                        f"ValueError/TypeError before printing; it {msg} after printing {text!r}",
                        dict(guard=what, names=None if names == "default" else names), ("guard", kind), 0))
    # a fitted model is of course not refused
    text, exc = kp.call_print(fitted)
    if exc is not None or not text:
        out.append((f"a fitted Kauri is refused: {exc!r}", dict(guard="fitted"), ("guard", "fitted-refused"), 0))


# ---------------------------------------------------------------------------------------------------------------
def real_fits(tier, rnd):
    """(f) (X, params) of real fits: d = 2, 3 with sparse feature usage (constant columns), deeper trees, defaults."""
    cases = []
    base = {
        3: [[[0, 0, 0], [0, 0, 1], [0, 0, 5], [0, 0, 6]],                                 # only feature 2
            [[1, 1, 0], [1, 1, 2], [1, 1, 4], [1, 1, 5], [1, 1, 6], [1, 1, 3]],
            [[2, 0, 2], [2, 1, 2], [2, 5, 2], [2, 6, 2], [2, 3, 2]],                      # only feature 1
            [[0, 3, 0], [0, 3, 6], [6, 3, 0], [6, 3, 6], [0, 3, 1], [6, 3, 5]],           # features 0 and 2
            [[0, 1, 0], [0, 2, 6], [6, 5, 0], [6, 6, 6], [1, 0, 1], [5, 4, 5], [3, 3, 3]],
            [[0, 0, 0], [1, 0, 0], [5, 0, 0], [6, 0, 0]]],                                # only feature 0
        2: [[[2, 0], [2, 1], [2, 5], [2, 6]],                                             # only feature 1
            [[0, 0], [0, 6], [6, 0], [6, 6], [1, 1], [5, 5]],
            [[0, 4], [1, 4], [3, 4], [4, 4], [6, 4], [5, 4]],                             # only feature 0
            [[0, 0], [0, 3], [1, 1], [4, 0], [5, 3], [5, 4], [2, 6]]],
    }
    plist = [dict(max_clusters=2), dict(max_clusters=3), dict(max_clusters=4), dict(max_clusters=3, max_depth=1),
             dict(max_clusters=4, min_samples_leaf=1, min_samples_split=2, max_leaves=None)]
    for d, dsl in base.items():
        for X in dsl:
            for p in plist[:3]:
                cases.append((d, X, p))
    extra = 6 if tier == "quick" else 40
    for _ in range(extra):
        d = rnd.choice([2, 3])
        n = rnd.randint(5, 8)
        const = set(rnd.sample(range(d), rnd.randint(0, d - 1)))
        X = [[3 if f in const else rnd.randint(0, 6) for f in range(d)] for _ in range(n)]
        cases.append((d, X, rnd.choice(plist)))
    return cases


def generated_tables(d, v, count, rnd, maxdepth=4):
    """Node tables in the order _add_child creates them: random shapes, features from a random (often sparse) subset."""
    tabs = []
    for _ in range(count):
        feats = rnd.sample(range(1, d + 1), rnd.randint(1, d))
        left, right, feat, th, target, depth = [-1], [-1], [-1], [-1], [0], [0]
        for _ in range(rnd.randint(0, 6)):
            leaves = [i for i in range(len(left)) if left[i] == -1 and depth[i] < maxdepth]
            if not leaves:
                break
            i = rnd.choice(leaves)
            n = len(left)
            left[i], right[i], feat[i], th[i] = n, n + 1, rnd.choice(feats), rnd.randint(0, v)
            left += [-1, -1]; right += [-1, -1]; feat += [-1, -1]; th += [-1, -1]
            target += [rnd.randint(0, 3), rnd.randint(0, 3)]
            depth += [depth[i] + 1, depth[i] + 1]
        tabs.append(kp.node_table(left, right, feat, th, target, depth))
    return tabs


# ---------------------------------------------------------------------------------------------------------------
def spec_violation(rep, r, what):
    rep.violation(f"KauriPrint violates its own theorem {r.violated} on {what}", {"trace": r.trace[:4000]}, tags=("spec", r.violated))


def run(tier):
    rep = Report("C19", tier)
    rnd = random.Random(f"{SEED}-c19")
    rep.rule = ("a case is one (node table, way of calling print_kauri_tree) comparison: default names, a list of names of "
                "each length 0..d+1, an ndarray of d names; node tables are (1) the distinct final trees of KauriFitMC for "
                "the sampled (dataset chunk, kernel, hyperparameter) combinations, installed on a fitted Kauri, (2) the "
                "trees of real Kauri.fit runs, (3) generated tables of depth <= 4; distinct by (table, names); plus the "
                "refusal cases (object, names)")
    out = []
    confs = QUICK if tier == "quick" else THOROUGH
    jobs = []
    with ThreadPoolExecutor(max_workers=5) as ex:
        # (1) the fit state machine's final trees
        for (n, d, v, stride, nch, k) in confs:
            chunks = range(nch) if k >= nch else rnd.sample(range(nch), k)
            jobs.append((("mc", n, d, v, stride, f"{k}/{nch}"),
                         ex.submit(kp.final_trees, n, d, v, stride, nch, chunks, 4, 3000, (n, d, v) == confs[0][:3])))
        # (2) real fits, (3) generated tables -> grouped by d, expected output from the same spec
        models = collections.defaultdict(list)
        for d, X, p in real_fits(tier, rnd):
            try:
                _, m = kauri.record_fit(dict(p, random_state=0), X)
            except Exception as e:
                raise MachineryError(f"Kauri(**{p}).fit({X}) raised {type(e).__name__}: {e} (owned by C09)")
            models[d].append((m, dict(X=X, params=p)))
        groups = {}
        for d in sorted(models):
            groups[(d, 6)] = [kp.table_of_model(m) for m, _ in models[d]]
        nreal = {dv: len(t) for dv, t in groups.items()}
        ngen = 40 if tier == "quick" else 400
        groups[(3, 6)] = groups.get((3, 6), []) + generated_tables(3, 6, ngen, rnd)
        groups[(4, 2)] = generated_tables(4, 2, ngen, rnd)
        for (d, v), tabs in groups.items():
            jobs.append((("given", d, v), ex.submit(kp.given_trees, tabs, d, v, 4, 3000)))
        results = [(meta, f.result()) for meta, f in jobs]

    seen, nstates = {}, 0
    stats = collections.Counter()
    fitted = {}
    for meta, r in results:
        if meta[0] == "mc":
            _, n, d, v, stride, frac = meta
            rep.add_tlc("KauriPrint", r, note=f"N={n} D={d} V={v}: {frac} of the dataset chunks, 1/{stride} of the (kernel x "
                                              f"hyperparameter) combinations; {len(r.prints)} final trees")
            if r.violated:
                spec_violation(rep, r, f"a final tree of KauriFitMC N={n} D={d} V={v}")
                continue
            if r.coverage and any(r.coverage.get(a, (0, 0))[1] == 0 for a in ("MCSplit", "MCNoGain", "MCFinish")):
                raise MachineryError("vacuous model check: a KauriFitMC action was never taken")
            nstates += len(r.prints)
            for rec in r.prints:
                key = kp.tree_key(rec)
                if key in seen:
                    continue
                seen[key] = "spec-final-tree"
                scale = SCALES[len(seen) % len(SCALES)]
                model = kp.install(fitted.setdefault(d, kp.fitted_kauri(d)), rec, scale)
                ncmp = check_tree(rec, model, "spec-final-tree", out, scale=scale)
                note(rep, stats, rec, ncmp, "spec-final-tree")
        else:
            _, d, v = meta
            rep.add_tlc("KauriPrint", r, note=f"GInit/GNext D={d} V={v}: {len(groups[(d, v)])} given node tables "
                                              f"({nreal.get((d, v), 0)} from real fits)")
            if r.violated:
                spec_violation(rep, r, f"a given node table (D={d})")
                continue
            for rec in sorted(r.prints, key=lambda q: q["id"]):
                k = rec["id"] - 1
                is_real = k < nreal.get((d, v), 0)
                source = "real-fit" if is_real else "generated-table"
                key = kp.tree_key(rec)
                if not is_real and key in seen:
                    continue
                seen.setdefault(key, source)
                info, scale = None, 1
                if is_real:
                    model, info = models[d][k]
                    if kp.table_of_model(model) != groups[(d, v)][k]:
                        raise MachineryError("real model changed between recording and checking")
                else:
                    scale = SCALES[len(seen) % len(SCALES)]
                    model = kp.install(fitted.setdefault(d, kp.fitted_kauri(d)), rec, scale)
                ncmp = check_tree(rec, model, source, out, info, scale)
                note(rep, stats, rec, ncmp, source)
    check_guards(rep, out)

    # vacuity: the explored trees must include the shapes the property talks about
    need = {"single-leaf": stats["single-leaf"], "multi-feature": stats["multi-feature"], "sparse-usage": stats["sparse-usage"],
            "depth>=2": stats["depth>=2"], "real-fit": stats["src:real-fit"], "spec-final-tree": stats["src:spec-final-tree"]}
    if not all(need.values()) and not rep.violations:
        raise MachineryError(f"vacuous run, missing kinds of trees: {need}")
    rep.extra.update(final_states_emitted=nstates, distinct_trees=len(seen), tree_kinds=dict(stats))
    # smallest failing inputs first
    out.sort(key=lambda o: (len(o[1].get("tree", {}).get("left", [])), o[1].get("tree", {}).get("d", 0), o[3], o[0]))
    told = set()
    for desc, replay_d, tags, _ in out:            # the same table reached with two grids is one failing input
        if desc not in told:
            told.add(desc)
            rep.violation(desc, replay_d, tags=tags)
    rep.exhaustive = False
    rep.assumptions = [
        "final trees come from the specification's fit state machine on integer grids (N<=6, D<=3, values 0..V<=4), sampled "
        "over dataset chunks and (kernel x hyperparameter) combinations; identical node tables are checked once",
        "spec trees and generated tables are installed on a really fitted Kauri by overwriting the lists of tree_ "
        "(children_left/right, features, thresholds, target, depths, gains, categorical_nodes, n_nodes); categorical "
        "nodes are never produced by fit and are out of scope",
        "generated tables are arbitrary binary trees (not necessarily reachable by fit); they only widen the shapes "
        "(depth 4, d=4, sparse features) on which the grammar and the reader are compared",
        "thresholds are integers in the spec; installed tables use threshold x scale, scale in {1, 0.5, 0.1}, with the "
        "query points scaled alike (order-preserving), real fits use integer data; query points are the grid "
        "(-1..V+1)^d (Route from TLC) and the half-integer points "
        "(expected value = the harness reader on the spec's tokens, itself checked equal to Route on the grid)",
        "feature names are the distinct strings n1, n2, ...; 'refused' = ValueError/TypeError (incl. sklearn's "
        "InvalidParameterError and NotFittedError) with nothing written to stdout"]
    return rep.finish()


def note(rep, stats, rec, ncmp, source):
    key = kp.tree_key(rec)
    for j in range(ncmp):
        rep.case((key, j), nontrivial=len(rec["left"]) > 1 or j == 0)
    used = rec["used"]
    stats["src:" + source] += 1
    stats["single-leaf" if len(rec["left"]) == 1 else f"{len(rec['left'])}-nodes"] += 1
    if len(used) >= 2:
        stats["multi-feature"] += 1
    if rec["need"] > len(used):
        stats["sparse-usage"] += 1
    if max(rec["depth"]) >= 2:
        stats["depth>=2"] += 1
    if len(rec["left"]) > 1:
        rep.sample(dict(source=source, d=rec["d"], left=rec["left"], right=rec["right"], feat=rec["feat"], th=rec["th"],
                        target=rec["target"], spec_tokens=[tuple(t.values()) for t in rec["tokens"]][:8], need=rec["need"],
                        accept_by_names_length=rec["accept"]), cap=4)


def replay(path):
    blob = json.load(open(path))
    case = blob["case"]
    print("replaying", blob["desc"][:400])
    out = []
    if "guard" in case:
        check_guards(Report("C19", "quick"), out)
    else:
        t = case["tree"]
        r = kp.given_trees([kp.node_table(t["left"], t["right"], t["feat"], t["th"], t["target"], t["depth"])], t["d"], t["v"])
        if r.violated:
            print("KauriPrint violates", r.violated)
            return 1
        rec = r.prints[0]
        sc = case.get("scale", 1)
        check_tree(rec, kp.install(kp.fitted_kauri(t["d"]), rec, sc), case.get("source", "replay"), out, scale=sc)
    for desc, _, tags, _ in out:
        print("VIOLATION", tags, desc[:600])
    return 1 if out else 0
