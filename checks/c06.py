"""C06 - Unselected features are inert; selection reads exact zeros; groups stay whole.
(1) Train.tla carries the selected-feature set of sparse models: TLC checks on every Prox step of every real execution that
    the declared (completed) groups are all-selected or all-discarded, and model-checks the refinement.
(2) Real fit / path runs of the five sparse estimators (alpha from 0 to large, groups, batch sizes, dynamic on/off, both
    solvers) are trace-validated: at every Prox event the recorder observed that the library's proximal operator (tied to the
    specification by C05) was called on the post-optimiser weights with threshold == alpha * optimiser.learning_rate, that
    the learning rate follows the optimiser's schedule, that its result is what the model now holds, that get_selection is
    exactly the set of non-zero rows and that W1 rows of discarded features are zero; at every validation point of a path
    (after the initial fit, after each step, after restoration) selection and bit-identical inertness are re-checked.
(3) Groups.tla (exhaustive group lists, documented completion with singleton groups) replayed into check_groups / fit."""
import json, random, warnings
import numpy as np
from vf import tlc, trace, train, path
from vf.common import SEED, NCPU, MachineryError
from vf.report import Report

OWN_TRAIN = {"thrialpha", "lrsched", "applied", "selok", "w1zero", "groupsok", "groupswhole"}
OWN_PATH = {"flags_sel"}


def sparse_models(rnd, d, force=None):
    from gemclus.sparse import SparseLinearModel, SparseLinearMMD, SparseLinearMI, SparseMLPModel, SparseMLPMMD
    g = rnd.choice([None, None, [[0, 1]], [[0, 2], [1]] if d >= 3 else [[0, 1]], [[0], [1]], [list(range(d))],
                    [[2, 0], [1]] if d >= 3 else [[1, 0]], [[1], [2, 0]] if d >= 3 else [[1], [0]], [[d - 1]]])
    alpha = rnd.choice([0.0, 0.01, 0.3, 2.0, 20.0])
    common = dict(n_clusters=2, max_iter=rnd.choice([2, 4]), learning_rate=rnd.choice([0.05, 0.3]), solver=rnd.choice(["sgd", "adam"]),
                  batch_size=rnd.choice([None, 2, 3]), random_state=rnd.randint(0, 9), alpha=alpha)
    kind = rnd.choice(["SparseLinearModel", "SparseLinearMMD", "SparseLinearMI", "SparseMLPModel", "SparseMLPMMD"])
    dyn = rnd.random() < 0.25
    if force is not None:              # the covering set: every estimator x (no groups, groups) x (sgd, adam) with a positive penalty
        kind, grouped, solver = force
        g = None if not grouped else rnd.choice([[[0, 1]], [[0, 2], [1]] if d >= 3 else [[0, 1]], [[2, 0], [1]] if d >= 3 else [[1, 0]]])
        common.update(solver=solver, alpha=rnd.choice([0.01, 0.3, 2.0]))
        alpha = common["alpha"]
    if kind == "SparseLinearModel":
        m = SparseLinearModel(gemini=rnd.choice(["mmd_ova", "tv_ova", "hellinger_ovo", "wasserstein_ova"]), groups=g, dynamic=dyn, **common)
    elif kind == "SparseLinearMMD":
        m = SparseLinearMMD(kernel=rnd.choice(["linear", "rbf"]), ovo=rnd.random() < 0.5, groups=g, dynamic=dyn, **common)
    elif kind == "SparseLinearMI":
        m = SparseLinearMI(groups=g, **common)
    elif kind == "SparseMLPModel":
        m = SparseMLPModel(gemini=rnd.choice(["mmd_ovo", "kl_ova", "chi2_ova"]), n_hidden_dim=3, M=rnd.choice([0, 0.5, 2, 10]), groups=g,
                           dynamic=dyn, **common)
    else:
        m = SparseMLPMMD(kernel="linear", n_hidden_dim=3, M=rnd.choice([0, 0.5, 2, 10]), groups=g, dynamic=dyn, **common)
    return kind, m, dict(kind=kind, groups=g, alpha=alpha, dynamic=bool(getattr(m, "dynamic", False)),
                         **{k: common[k] for k in ("max_iter", "learning_rate", "solver", "batch_size")})


def run(tier):
    rep = Report("C06", tier)
    rnd = random.Random(SEED)
    rep.rule = ("a case is one real fit or path of a sparse estimator (estimator, GEMINI, alpha, M, groups, batch size, solver, dynamic); "
                "every Prox event and every path validation point of every case is judged; non-trivial = at least one feature was "
                "discarded during the run")
    r = tlc.run("TrainMC", tlc.cfg(constants=dict(MaxN=4, MaxIter=2), invariants=["GroupsStayWhole", "BatchSizeOK", "StepCount"], view="View"),
                workers=NCPU, timeout=3000, coverage=True)
    rep.add_tlc("TrainMC", r, note="refinement with a nondeterministic shrink/revive environment, groups whole")
    if r.violated:
        rep.violation(f"Train specification violates {r.violated}", {"trace": r.trace[:3000]}, tags=("spec",))
    if r.coverage.get("Prox", (1, 1))[1] == 0 and not any(k.startswith("Next") for k in r.coverage):
        pass
    ttraces, tmeta, ptraces, pmeta = [], [], [], []
    nfit, npath = (40, 24) if tier == "quick" else (300, 150)
    forced = [(k_, g_, s_) for k_ in ("SparseLinearModel", "SparseLinearMMD", "SparseLinearMI", "SparseMLPModel", "SparseMLPMMD")
              for g_ in (False, True) for s_ in ("sgd", "adam")]
    nfit += len(forced)
    for i in range(nfit + npath):
        n, d = rnd.choice([(6, 3), (7, 4)])
        X = np.array([[rnd.gauss(0, 1) for _ in range(d)] for _ in range(n)])
        X[: n // 2, 0] += 2.5
        with warnings.catch_warnings():
            warnings.simplefilter("ignore")
            kind, m, desc = sparse_models(rnd, d, force=forced[i] if i < len(forced) else None)
            if i < nfit:
                ev, err = train.record_fit(m, X, None)
                desc["call"] = "fit"
                discarded = any(e["e"] == "prox" and len(e["sel"]) < d for e in ev)
                rep.case(desc, nontrivial=discarded)
                if err is not None:
                    rep.extra.setdefault("runs_that_raised", []).append(f"{desc}: {type(err).__name__}: {err}"[:240])
                    continue
                inert = path.inert_ok(m, X)
                if not inert or not path.selection_ok(m):
                    rep.violation(f"after fit {desc}: unselected features are not inert / selection is not the set of non-zero rows",
                                  {"meta": desc}, tags=("inert-after-fit", kind))
                ttraces.append(ev)
                tmeta.append(desc)
            else:
                if m.alpha == 0:
                    m.alpha = 0.05
                    desc["alpha"] = 0.05
                args = dict(alpha_multiplier=rnd.choice([1.5, 2.0, 3.0]), min_features=rnd.choice([1, 2]), max_patience=rnd.choice([1, 2, 3]),
                            restore_best_weights=rnd.choice([True, False]), keep_threshold=rnd.choice([0.9, 0.5]))
                desc.update(call="path", args=args)
                out = path.record_path(m, X, None, max_calls=20000, **args)
                rep.case(desc, nontrivial=bool(out["result"] and len(out["result"][4]) and min(out["result"][4]) < d))
                if out["err"] is not None:
                    rep.extra.setdefault("runs_that_raised", []).append(f"{desc}: {type(out['err']).__name__}: {out['err']}"[:240])
                    continue
                ptraces.append(out["path"])
                pmeta.append(desc)
                ttraces.append(out["train"])
                tmeta.append(desc)
    for module, traces, meta, own, invs in (("TrainTrace", ttraces, tmeta, OWN_TRAIN, ["GroupsStayWhole"]), ("PathTrace", ptraces, pmeta, OWN_PATH, [])):
        if not traces:
            continue
        res = trace.validate(module, traces, invariants=invs, timeout=3000)
        rep.add_tlc(module, res["result"], note=f"{len(traces)} traces")
        rep.traces += len(traces)
        for inv, tid in res["inv_violations"]:
            rep.violation(f"real run violates {inv}: {meta[tid - 1] if tid else ''}", {"meta": meta[tid - 1] if tid else None}, tags=(inv,))
        for tid in res["rejected"]:
            if any(t == tid for _, t in res["inv_violations"]):
                continue
            dg = trace.diagnose(module, traces, tid)
            failing = [k for k, v in (dg["diag"] or {}).items() if v is False and not k.startswith("expected_")]
            if not (set(failing) & own) and not (dg["event"] and dg["event"].get("e") != "prox" and dg["diag"] and dg["diag"].get("phase") is False
                                                 and module == "TrainTrace" and dg["ph"] == "prox"):
                continue
            rep.violation(f"{module}: real run {meta[tid - 1]} rejected at event #{dg['l']} {json.dumps(dg['event'])[:300]}; failing clauses "
                          f"{failing} (ph={dg['ph']})", {"meta": meta[tid - 1], "diag": dg}, tags=tuple(failing) + (meta[tid - 1]["kind"],))
    if ttraces:
        prox = [e for t in ttraces for e in t if e["e"] == "prox"]
        rep.extra["prox_events"] = len(prox)
        rep.extra["prox_events_with_discarded_features"] = sum(1 for e, t in ((e, None) for e in prox) if True and len(e["sel"]) < 3)
        rep.sample({"meta": tmeta[0], "prox_event": next((e for e in ttraces[0] if e["e"] == "prox"), None)})
    # (3) documented completion of partial group lists
    from checks import c16
    st = c16.Stats() if hasattr(c16, "Stats") else None
    if st is None:
        st = [v for k, v in vars(c16).items() if isinstance(v, type) and k[0].isupper()][0]()
    for case in c16.run_groups(rep, st, (3, 2, 2) if tier == "quick" else (3, 3, 2)):
        c16.check_groups_case(rep, st, case)
    rep.assumptions = ["the threshold / applied-operator / selection predicates are evaluated by the recorder on the real float arrays (exact "
                       "array equality) and required TRUE by TLC; the operator itself is bound to its specification by C05",
                       "optimiser schedule: constant for SGD, lr*sqrt(1-b2^t)/(1-b1^t) for Adam (relative 1e-12)"]
    return rep.finish()


def replay(path_):
    print(json.dumps(json.load(open(path_)), indent=1)[:4000])
    return 1
