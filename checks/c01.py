"""C01 - GEMINI scores equal their defining statistical distances.
TLC enumerates prediction matrices on a rational simplex grid x integer point sets and computes every GEMINI from the
textbook definitions (spec/Gemini.tla, exact term bags); each case is replayed into gemclus.gemini."""
import json
import numpy as np
from vf import gem
from vf.report import Report

QUICK = [((1, 2, 4), 1.0), ((2, 2, 4), 1.0), ((3, 2, 4), 1.0), ((2, 3, 6), 1.0), ((1, 3, 6), 1.0),
         ((3, 3, 6), 0.125), ((2, 4, 8), 0.125), ((1, 4, 8), 1.0)]
THOROUGH = [((1, 2, 4), 1.0), ((2, 2, 4), 1.0), ((3, 2, 4), 1.0), ((4, 2, 4), 1.0), ((2, 3, 6), 1.0), ((1, 3, 6), 1.0),
            ((3, 3, 6), 1.0), ((2, 4, 8), 1.0), ((1, 4, 8), 1.0), ((3, 4, 8), 0.03), ((4, 3, 6), 0.05),
            ((2, 2, 16), 1.0), ((3, 2, 8), 1.0), ((2, 3, 12), 0.5), ((5, 2, 4), 0.25)]


_BUF = {}
SCALES = (1.0, 2.0 ** -46, 2.0 ** 20)          # the unit the affinity is expressed in: MMD scales with sqrt(s), W1 with s
# distances: the transport solver (POT's network simplex) compares reduced costs with an ABSOLUTE epsilon of about 2e-15, so a
# distance matrix whose entries are themselves around 1e-14 is below its resolution (thorough-tier false alarm, DESIGN 11.4)
SCALES_W = (1.0, 2.0 ** -30, 2.0 ** 20)


def check_case(rep, case, closed=False):
    n, k, q = case["n"], case["k"], case["q"]
    P = np.array(case["a"], dtype=float) / q
    x = case["x"]
    key = (n, k, q, case["a"], x)
    for res in case["base"]:
        expected0 = gem.bag_eval(res["v"])
        A0 = gem.affinity(res["name"], res["aff"], x)
        tol = gem.tol_value(res)
        if closed:       # the library clips predictions at epsilon = 1e-12 (1e-6 after the square root of Hellinger)
            tol = 2e-5 if res["name"].startswith("hellinger") else max(tol, 1e-8)
        scales = (SCALES_W if res["name"].startswith("wasserstein") else SCALES) if A0 is not None else (1.0,)
        for label, g in gem.code_instances(res["name"]):
            for how in ("call", "evaluate"):
                sc = scales[(sum(map(sum, case["a"])) + case["a"][0][0] * 7 + case["a"][-1][0] * 3 + len(label) + len(res["aff"]) + sum(x)) % len(scales)] if how == "evaluate" else 1.0
                factor = 1.0 if A0 is None else (np.sqrt(sc) if res["name"].startswith("mmd") else sc)
                expected = expected0 * factor
                A = None if A0 is None else A0 * sc
                try:
                    if how == "evaluate":
                        # single-precision predictions first, on the same object: they may be less accurate, they must not
                        # leave anything behind that changes the double-precision answer asked next
                        g.evaluate(P.astype(np.float32), None if A is None else A.copy())
                    if how == "call":
                        # the same GEMINI object and the same affinity BUFFER are reused across cases (contents overwritten in
                        # place): a result must depend on the values passed, not on the identity of the objects
                        if A is not None:
                            buf = _BUF.setdefault((res["name"][:3], n), np.zeros((n, n)))
                            g(P.copy(), buf)                 # same object, previous contents
                            np.copyto(buf, A)
                            A = buf
                        got = g(P.copy(), A)
                    else:
                        got = g.evaluate(P.copy(), None if A is None else A.copy())
                    got = float(got)
                    bad = not (abs(got - expected) <= tol * max(factor, abs(expected)))
                    msg = f"{res['name']}[{res['aff']} x{sc:g}] via {label}.{how}: code={got!r} spec={expected!r}"
                except Exception as e:  # raising on a valid input is a disagreement with the definition too
                    bad, msg = True, f"{res['name']}[{res['aff']}] via {label}.{how}: raised {type(e).__name__}: {e}"
                rep.case((key, res["name"], res["aff"]))
                if bad:
                    rep.violation(f"n={n} K={k} P={case['a']}/{q} x={x}: {msg}",
                                  {"case": {kk: case[kk] for kk in ("n", "k", "q", "a", "x")},
                                   "name": res["name"], "aff": res["aff"], "expected": expected, "via": label},
                                  tags=(res["name"], f"K={k}", f"n={n}"))


def replicated(rep, case, counter):
    """Each sample is replaced by r identical copies (affinity block-replicated).  Every conditional distribution spreads
    evenly over the copies, so every GEMINI keeps its value: the exact spec value of the small case is the expected value
    of an N = r*n problem with hundreds of samples, handed over in shuffled order."""
    n, k, q = case["n"], case["k"], case["q"]
    r = {1: 300, 2: 130, 3: 171}.get(n, 70)
    P = np.repeat(np.array(case["a"], dtype=float) / q, r, axis=0)
    perm = np.random.RandomState(counter).permutation(len(P))
    for res in case["base"]:
        expected = gem.bag_eval(res["v"])
        A0 = gem.affinity(res["name"], res["aff"], case["x"])
        A = None if A0 is None else np.repeat(np.repeat(A0, r, axis=0), r, axis=1)[np.ix_(perm, perm)]
        label, g = gem.code_instances(res["name"])[0]
        rep.case((n, k, q, case["a"], case["x"], res["name"], res["aff"], "replicated", r))
        try:
            got = float(g(P[perm].copy(), A))
            tol = 1e-6 if res["name"].startswith("mmd") else 1e-8
            bad = not (abs(got - expected) <= tol * max(1.0, abs(expected)))
            msg = f"code={got!r} spec={expected!r}"
        except Exception as e:
            bad, msg = True, f"raised {type(e).__name__}: {e}"
        if bad:
            rep.violation(f"n={n} K={k} P={case['a']}/{q} x={case['x']} with every sample replicated {r} times (N={len(P)}, shuffled): "
                          f"{res['name']}[{res['aff']}]: {msg}", {"case": {kk: case[kk] for kk in ("n", "k", "q", "a", "x")}, "r": r,
                                                                  "name": res["name"], "aff": res["aff"]}, tags=(res["name"], "replicated", f"N={len(P)}"))


def run(tier):
    rep = Report("C01", tier)
    rep.rule = ("TLC enumerates every count matrix a (rows sum to QD, entries >= 1) for each listed shape (N,K,QD) x 3 "
                "integer point sets (for a sampled shape: the seeded subset of hash chunks); a case is one "
                "(shape, a, points, GEMINI name, affinity) and is non-trivial/distinct by that key; each is compared "
                "through every registry/class entry point, as g(P,A) and g.evaluate(P,A)")
    shapes = QUICK if tier == "quick" else THOROUGH
    rep.exhaustive = all(f >= 1.0 for _, f in shapes)
    for shape, frac in shapes:
        r, nch = gem.enumerate_cases(shape, grad=False, frac=frac)
        rep.add_tlc("Gemini", r, note=f"shape={shape} chunks={nch}")
        for ci, case in enumerate(r.prints):
            check_case(rep, case)
            if ci % (40 if tier == "quick" else 15) == 7:
                replicated(rep, case, ci)
    # the boundary of the simplex (exact zeros, one-hot rows, empty clusters): values still follow the definitions
    for shape, frac in ([((2, 2, 4), 1.0), ((2, 3, 3), 1.0)] if tier == "quick" else [((2, 2, 4), 1.0), ((2, 3, 3), 1.0), ((3, 2, 2), 1.0), ((3, 3, 3), 0.25)]):
        r, nch = gem.enumerate_cases(shape, grad=False, closed=True, frac=frac)
        rep.add_tlc("Gemini", r, note=f"CLOSED shape={shape} chunks={nch}")
        for case in r.prints:
            check_case(rep, case, closed=True)
        if r.prints:
            c = r.prints[len(r.prints) // 2]
            rep.sample({"shape": list(shape), "a": c["a"], "x": c["x"],
                        "spec": {f"{b['name']}:{b['aff']}": round(gem.bag_eval(b["v"]), 12) for b in c["base"][:8]}})
    rep.assumptions = ["inputs are on small exact grids (n<=5, K<=4, denominators<=16); affinities are integer matrices "
                       "built from integer points (named sklearn kernels/metrics belong to C11)",
                       "term bags are evaluated in float64 by the harness (error < 1e-13); tolerance 1e-9 relative "
                       "(2e-6 for MMD when an exact squared distance is 0: sqrt amplifies rounding there)"]
    return rep.finish()


def replay(path):
    blob = json.load(open(path))
    case = blob["case"]["case"]
    print("replaying", case, blob["case"]["name"])
    rep = Report("C01", "quick")
    shape = (case["n"], case["k"], case["q"])
    r, _ = gem.enumerate_cases(shape, grad=False, frac=1.0)
    for c in r.prints:
        if c["a"] == case["a"] and c["x"] == case["x"]:
            check_case(rep, c)
    rep.add_tlc("Gemini", r)
    return 1 if rep.violations else 0
