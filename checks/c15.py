"""C15 - Douglas: masked features inert, (n_cuts+1)^#used leaves with valid soft memberships, grid cells at low
temperature, find_active_points as defined.
TLC (spec/Douglas.tla) enumerates feature masks x n_cuts x cut vectors in every order x small datasets and computes, from
the documented meaning, each sample's cell tuple / leaf index, the leaf count and the active features (also for data
sitting exactly on cut points).  Every model and case is replayed into a real gemclus.tree.Douglas on which the spec's
cut points are installed."""
import json
import numpy as np
from vf import douglas as dg
from vf.report import Report
from vf.common import MachineryError

# D, n_cuts values, #cut values (-1.5, -0.5, ...), #data values (-1, 0, 1, ...), dataset sizes, frac of models, 1/SUB datasets
QUICK = [
    dict(D=1, NCUTSET=(1, 2, 3), NCV=5, GRIDN=4, NPTSSET=(1, 2, 3), frac=1.0, SUB=2),
    dict(D=2, NCUTSET=(1, 2), NCV=4, GRIDN=3, NPTSSET=(2,), frac=1.0, SUB=7),
    dict(D=3, NCUTSET=(1, 2), NCV=3, GRIDN=3, NPTSSET=(2,), frac=1.0, SUB=151),
    dict(D=2, NCUTSET=(3,), NCV=4, GRIDN=3, NPTSSET=(2,), frac=0.5, SUB=13),
    dict(D=1, NCUTSET=(2, 3), NCV=3, GRIDN=3, NPTSSET=(2,), DUPS=True, frac=1.0, SUB=1),
]
THOROUGH = [
    dict(D=1, NCUTSET=(1, 2, 3), NCV=5, GRIDN=4, NPTSSET=(1, 2, 3), frac=1.0, SUB=1),
    dict(D=1, NCUTSET=(1, 2, 3), NCV=5, GRIDN=4, NPTSSET=(4,), frac=1.0, SUB=4),
    dict(D=2, NCUTSET=(1, 2), NCV=4, GRIDN=3, NPTSSET=(2,), frac=1.0, SUB=2),
    dict(D=2, NCUTSET=(1, 2), NCV=5, GRIDN=4, NPTSSET=(2, 3), frac=1.0, SUB=251),
    dict(D=3, NCUTSET=(1, 2), NCV=3, GRIDN=3, NPTSSET=(2,), frac=1.0, SUB=37),
    dict(D=2, NCUTSET=(3,), NCV=4, GRIDN=3, NPTSSET=(2, 3), frac=1.0, SUB=97),
    dict(D=3, NCUTSET=(3,), NCV=4, GRIDN=3, NPTSSET=(2,), frac=0.0625, SUB=211),
    dict(D=3, NCUTSET=(2,), NCV=4, GRIDN=3, NPTSSET=(2,), frac=0.25, SUB=151),
    dict(D=2, NCUTSET=(2, 3), NCV=3, GRIDN=3, NPTSSET=(2,), DUPS=True, frac=1.0, SUB=13),
]


def _size(h, x=()):
    """Order used to pick the input shown for a kind of disagreement (non-constant columns, data off the cut points first)."""
    degenerate = len(x) < 2 or any(len({p[f] for p in x}) < 2 for f in h["used"])      # a constant used column
    touches = any(p[f] in h["cuts"][f] for p in x for f in h["used"])                   # a datum on a cut point
    return (h["d"], h["ncuts"], degenerate, touches, len(x), sum(abs(v) for c in h["cuts"] for v in c) + sum(abs(v) for p in x for v in p))


def _hdesc(h):
    cuts = {f: [c / 2 for c in h["cuts"][f]] for f in h["used"]}
    return f"d={h['d']} feature_mask={[bool(b) for b in h['mask']]} n_cuts={h['ncuts']} cut_points={cuts}"


def _prob_problems(P, what):
    """P must be a probability vector per row."""
    if not np.all(np.isfinite(P)):
        return "non-finite", f"{what} contains NaN/inf"
    if np.any(P < 0) or np.any(np.abs(P.sum(axis=1) - 1.0) > 1e-9):
        return "not-a-distribution", f"{what} is not a probability vector per sample (min={P.min()!r}, row sums={P.sum(axis=1)[:4]!r})"
    return None


def check_model(rep, dis, rec, conf):
    """Model-level checks on the full prediction grid.  Returns the instrumented model for the case-level checks."""
    h = rec["h"]
    used, masked, nleaves, n = h["used"], h["masked"], h["nleaves"], h["ncuts"]
    G = dg.to_real([g["p"] for g in rec["grid"]])
    leaf_spec = np.array([g["leaf"] for g in rec["grid"]])
    cells_spec = [tuple(g["cells"]) for g in rec["grid"]]
    rng = np.random.RandomState(99)
    rp = {"conf": conf, "h": h, "level": "model"}
    model = None
    for use_none in ([False, True] if not masked else [False]):
        m = dg.fit_model(h, use_none=use_none)
        rep.case(("model", dg.hkey(h), use_none))
        # (i) structure chosen by the real code for this mask / n_cuts
        feats = [int(f) for f, _ in m.cut_points_list_]
        shapes = [tuple(np.shape(c)) for _, c in m.cut_points_list_]
        if feats != used or any(s != (n,) for s in shapes):
            dis.add(("cut-list",), _size(h), f"{_hdesc(h)} (feature_mask=None: {use_none}): fitted cut_points_list_ covers "
                    f"features {feats} with shapes {shapes}; documented: features {used}, {n} cut(s) each", rp)
        if m.leaf_scores_.shape[0] != nleaves:
            dis.add(("leaf-count",), _size(h), f"{_hdesc(h)} (feature_mask=None: {use_none}): leaf_scores_ has "
                    f"{m.leaf_scores_.shape[0]} leaves; documented (n_cuts+1)^#used = {nleaves}", rp)
        # (iv) on the model as trained (its own cut points): masked features inert
        if masked:
            _check_inert(dis, m, h, G, rng, rp, "as fitted")
        model = m
    # the same mask written with 0/1 instead of False/True (integer, float, object arrays are all accepted by the parameter
    # validation): either the fit is refused, or the model uses exactly the features whose entry is true
    if masked:
        for kind in ("int", "uint8", "float", "object"):
            try:
                m2 = dg.fit_model(h, mask_kind=kind)
            except (ValueError, TypeError, IndexError) as e:
                rep.extra.setdefault("non_boolean_masks_refused", []).append(f"{kind}: {type(e).__name__}: {e}"[:120])
                continue
            rep.case(("model", dg.hkey(h), "mask-" + kind))
            feats2 = [int(f) for f, _ in m2.cut_points_list_]
            if feats2 != used or m2.leaf_scores_.shape[0] != nleaves:
                dis.add(("cut-list", "mask-dtype"), _size(h), f"{_hdesc(h)} with the mask given as a {kind} array {h['mask']}: fitted "
                        f"cut_points_list_ covers features {feats2} with {m2.leaf_scores_.shape[0]} leaves; documented: features {used}, "
                        f"{nleaves} leaves", rp)
            else:
                _check_inert(dis, m2, h, G, rng, rp, f"as fitted, {kind} mask", kinds=("normal",))
    dg.install(model, h)
    K = model.n_clusters
    # (ii) memberships are a probability vector per sample at every temperature
    for T in dg.TEMPERATURES:
        model.temperature = T
        P = model._infer(G)            # retain=True: stores model._leaf
        L = model._leaf
        if L.shape != (len(G), nleaves):
            dis.add(("leaf-count",), _size(h), f"{_hdesc(h)} T={T}: membership matrix has shape {L.shape}, documented "
                    f"{(len(G), nleaves)}", rp)
            continue
        for arr, what in ((L, "leaf memberships"), (P, "predict_proba")):
            pb = _prob_problems(arr, what)
            if pb:
                dis.add(("membership", pb[0]), _size(h), f"{_hdesc(h)} temperature={T}: {pb[1]}", rp)
        if masked:
            _check_inert(dis, model, h, G, rng, rp, f"installed, T={T}")
    # (iii) the zero-temperature limit is the grid of cells
    model.temperature = dg.COLD
    P = model._infer(G)
    L = model._leaf
    if L.shape == (len(G), nleaves) and np.all(np.isfinite(L)) and np.all(np.isfinite(P)):
        got = L.argmax(axis=1)
        bad = np.flatnonzero((got != leaf_spec) | (L.max(axis=1) < 1 - 1e-9))
        if len(bad):
            i = int(bad[0])
            dis.add(("cell",), _size(h), f"{_hdesc(h)} temperature={dg.COLD}: sample {G[i].tolist()} falls in leaf "
                    f"{int(got[i])} (membership {L[i].max()!r}); documented cells {cells_spec[i]} -> leaf {int(leaf_spec[i])}", rp)
        PP = model.predict_proba(G)
        lab = model.predict(G)
        ref = dg.softmax_rows(model.leaf_scores_[leaf_spec])
        err = np.abs(PP - ref).max(axis=1)
        if np.any(err > 1e-9):
            i = int(err.argmax())
            dis.add(("cell", "prediction"), _size(h), f"{_hdesc(h)} temperature={dg.COLD}: predict_proba({G[i].tolist()}) = "
                    f"{PP[i].tolist()} but its cell {cells_spec[i]} (leaf {int(leaf_spec[i])}) predicts {ref[i].tolist()}", rp)
        # colder still, and closer to the cut points: as T -> 0 a point 0.01 away from a cut is inside its cell too.  Each grid
        # point is moved to within 0.01 of the nearest cut on ITS side (the cell tuple is unchanged), temperature 1e-5
        Gn = np.array(G, dtype=float)
        for (f, cuts) in model.cut_points_list_:
            for i in range(len(Gn)):
                x = Gn[i, f]
                below = [c for c in cuts if c < x]
                above = [c for c in cuts if c > x]
                if below:
                    Gn[i, f] = max(below) + 0.01
                elif above:
                    Gn[i, f] = min(above) - 0.01
        model.temperature = 1e-5
        Pn = model.predict_proba(Gn)
        Ln = np.asarray(model._infer(Gn) is not None and model._leaf)
        model.temperature = dg.COLD
        if np.all(np.isfinite(Pn)) and Ln.shape == (len(G), nleaves):
            errn = np.abs(Pn - ref).max(axis=1)
            if np.any(errn > 1e-6) or np.any(Ln.argmax(axis=1) != leaf_spec):
                i = int(errn.argmax())
                dis.add(("cell", "cold-near-cut"), _size(h), f"{_hdesc(h)} temperature=1e-5: the point {Gn[i].tolist()} (0.01 away from a cut, in "
                        f"cell {cells_spec[i]}) predicts {Pn[i].tolist()}, its cell predicts {ref[i].tolist()}", rp)
        else:
            dis.add(("membership", "cold-near-cut"), _size(h), f"{_hdesc(h)} temperature=1e-5: non-finite predictions or wrong leaf shape", rp)
        groups = {}
        for i, c in enumerate(cells_spec):
            groups.setdefault(c, []).append(i)
        for c, idx in groups.items():
            if np.abs(PP[idx] - PP[idx[0]]).max() > 1e-6 or len(set(lab[idx].tolist())) > 1:
                dis.add(("cell", "not-constant"), _size(h), f"{_hdesc(h)} temperature={dg.COLD}: predictions differ inside "
                        f"cell {c}: samples {G[idx].tolist()} -> {PP[idx].tolist()}", rp)
                break
    return model


def _check_inert(dis, model, h, X, rng, rp, stage, kinds=("normal", "huge", "roll")):
    base_p, base_l = model.predict_proba(X), model.predict(X)
    for kind, Y in dg.perturbations(X, h["masked"], rng, kinds):
        p, l = model.predict_proba(Y), model.predict(Y)
        if not (np.array_equal(p, base_p) and np.array_equal(l, base_l)):
            i = int(np.flatnonzero(np.any(p != base_p, axis=1) | (l != base_l))[0])
            dis.add(("masked-inert",), _size(h), f"{_hdesc(h)} ({stage}, T={model.temperature}): rewriting masked feature(s) "
                    f"{h['masked']} ({kind}) changes the prediction of sample {X[i].tolist()} -> {Y[i].tolist()}: "
                    f"{base_p[i].tolist()} vs {p[i].tolist()}", rp)
            return


def _classify_active(h, xa, got, want):
    """Precise tag for a find_active_points disagreement."""
    extra, missing = set(got) - set(want), set(want) - set(got)
    if h["ncuts"] >= 2 and extra and not missing and list(got) == sorted(got):
        ok = True
        for f in extra:
            col = [p[f] for p in xa]
            cuts = h["cuts"][f]
            inside = any(min(col) < c < max(col) for c in cuts)
            ok &= (not inside) and max(col) > min(cuts) and min(col) < max(cuts)
        if ok:
            return ("find_active_points", "cuts-straddle-range")
    return ("find_active_points", "other")


def check_case(rep, dis, rec, model, conf):
    h = rec["h"]
    x = rec["x"]
    X = dg.to_real(x)
    rp = {"conf": conf, "h": h, "x": x, "level": "case"}
    rep.case(("case", dg.hkey(h), tuple(map(tuple, x))))
    rng = np.random.RandomState(7)
    nleaves = h["nleaves"]
    model.temperature = dg.COLD
    P = model._infer(X)
    L = model._leaf
    pb = _prob_problems(L, "leaf memberships") if L.shape == (len(X), nleaves) else ("shape", f"membership shape {L.shape}")
    if pb:
        dis.add(("membership", pb[0]), _size(h, x), f"{_hdesc(h)} X={X.tolist()} temperature={dg.COLD}: {pb[1]}", rp)
    else:
        got_leaf = L.argmax(axis=1).tolist()
        got_cells = np.stack([b.argmax(axis=1) for b in model._all_binnings], axis=1).tolist()
        if got_leaf != rec["leaf"] or got_cells != rec["cells"]:
            dis.add(("cell",), _size(h, x), f"{_hdesc(h)} X={X.tolist()} temperature={dg.COLD}: code cells {got_cells} "
                    f"leaves {got_leaf}; documented cells {rec['cells']} leaves {rec['leaf']}", rp)
        ref = dg.softmax_rows(model.leaf_scores_[np.array(rec["leaf"])])
        if np.all(np.isfinite(P)) and np.abs(P - ref).max() > 1e-9:
            dis.add(("cell", "prediction"), _size(h, x), f"{_hdesc(h)} X={X.tolist()} temperature={dg.COLD}: predict_proba "
                    f"{P.tolist()} but the cells' leaves predict {ref.tolist()}", rp)
    if h["masked"]:
        _check_inert(dis, model, h, X, rng, rp, "installed", kinds=("normal",))
    # (v) find_active_points on the prediction data and on data touching the cut points
    for xa, want in [(x, rec["active"])] + [(s["xa"], s["active"]) for s in rec["shifted"]]:
        XA = dg.to_real(xa)
        rep.evaluations += 1
        try:
            got = [int(f) for f in model.find_active_points(XA)]
        except Exception as e:
            dis.add(("find_active_points", "raised"), _size(h, xa), f"{_hdesc(h)} find_active_points({XA.tolist()}) raised "
                    f"{type(e).__name__}: {e}", dict(rp, xa=xa))
            continue
        if got != want:
            dis.add(_classify_active(h, xa, got, want), _size(h, xa),
                    f"{_hdesc(h)}: find_active_points({XA.tolist()}) = {got}; documented (a cut point strictly inside "
                    f"the range of the feature) = {want}", dict(rp, xa=xa, got=got, want=want))


def run_conf(rep, dis, conf, only=None):
    r, note = dg.enumerate_cases(conf)
    rep.add_tlc("Douglas", r, note=f"{ {k: v for k, v in conf.items()} } {note}")
    if r.violated:
        rep.violation(f"spec-internal theorem {r.violated} violated in Douglas.tla\n{r.trace[:1500]}", {"conf": conf},
                      tags=("spec-theorem", r.violated))
        return r
    models = {}
    for rec in r.prints:
        if rec["kind"] == "model" and (only is None or dg.hkey(rec["h"]) == only):
            try:
                models[dg.hkey(rec["h"])] = check_model(rep, dis, rec, conf)
            except MachineryError:
                raise
            except Exception as e:      # the real code raising on a valid model is a disagreement, not a machinery failure
                models[dg.hkey(rec["h"])] = None
                dis.add(("raised", "model"), _size(rec["h"]), f"{_hdesc(rec['h'])}: fit / prediction on the data grid raised "
                        f"{type(e).__name__}: {e}", {"conf": conf, "h": rec["h"], "level": "model"})
    ncase = 0
    for rec in r.prints:
        if rec["kind"] != "case" or (only is not None and dg.hkey(rec["h"]) != only):
            continue
        k = dg.hkey(rec["h"])
        if k not in models:
            raise MachineryError(f"case without its model record: {rec['h']}")
        ncase += 1
        if models[k] is None:
            continue
        try:
            check_case(rep, dis, rec, models[k], conf)
        except MachineryError:
            raise
        except Exception as e:
            dis.add(("raised", "case"), _size(rec["h"], rec["x"]), f"{_hdesc(rec['h'])} X(x2)={rec['x']}: raised "
                    f"{type(e).__name__}: {e}", {"conf": conf, "h": rec["h"], "x": rec["x"], "level": "case"})
    if only is None and (not models or not ncase or r.coverage.get("PickCase", (0, 0))[0] == 0):
        raise MachineryError(f"configuration {conf} produced {len(models)} models / {ncase} cases")
    return r


def run(tier):
    rep = Report("C15", tier)
    rep.rule = ("TLC enumerates (feature mask with >= 1 used feature, n_cuts, one cut vector per used feature in every "
                "order, dataset) on the listed grids; a MODEL case = (d, mask, n_cuts, cuts[, feature_mask=None variant]) "
                "is checked on the whole data grid (leaf count, memberships at T=1/0.1/1e-3, cells and predictions at "
                "T=1e-3, masked columns rewritten 3 ways); a DATA case = (model, dataset) adds per-sample cells/leaves, "
                "mask inertness and find_active_points on the dataset and on 3^min(2,n) shifted copies that touch cut "
                "points; distinct = distinct keys of these two kinds")
    confs = QUICK if tier == "quick" else THOROUGH
    rep.exhaustive = all(c["frac"] >= 1.0 and c["SUB"] == 1 for c in confs)
    dis = dg.Disagreements()
    nmodels = 0
    for conf in confs:
        r = run_conf(rep, dis, conf)
        recs = [p for p in r.prints if p["kind"] == "case"]
        nmodels += sum(p["kind"] == "model" for p in r.prints)
        if recs:
            c = recs[len(recs) // 2]
            rep.sample({"mask": c["h"]["mask"], "n_cuts": c["h"]["ncuts"], "cuts_x2": c["h"]["cuts"], "x_x2": c["x"],
                        "cells": c["cells"], "leaf": c["leaf"], "nleaves": c["h"]["nleaves"], "active": c["active"]})
    rep.extra["models"] = nmodels
    rep.extra["disagreements_by_kind"] = dis.flush(rep)
    rep.assumptions = [
        "coordinates on small exact grids: cut points on half-integers in [-1.5, 2.5], prediction data on integers in "
        "[-1, 2] (a datum never equals a cut point, so its cell is unambiguous); data given to find_active_points also "
        "on half-integers (may equal cut points); d <= 3, n_cuts <= 3, 1-4 samples",
        "feature masks with at least one used feature (an all-False mask makes fit raise TypeError from reduce(): "
        "out of scope here, belongs to parameter validation)",
        "cut points / leaf scores are installed on a model fitted for one iteration (trained values are not on a grid); "
        "the fitted model's own structure (features of cut_points_list_, leaf count) and mask inertness are checked "
        "before installing",
        "'temperature goes to zero' is checked at temperature 1e-3 (bin logits differ by >= 500: memberships are "
        "one-hot to 1e-200); the exact limit statement (argmax of the bin logits = number of cut points below) is a "
        "spec-internal theorem (ArgmaxIsCell)",
        "the three-temperature membership sweep runs on the full data grid of each model (superset of every dataset)",
    ]
    return rep.finish()


def replay(path):
    blob = json.load(open(path))
    case = blob["case"]
    conf, h = case["conf"], case["h"]
    print("replaying", dg.hkey(h), case.get("xa", case.get("x")))
    rep = Report("C15", "quick")
    dis = dg.Disagreements()
    run_conf(rep, dis, conf, only=dg.hkey(h))
    for tags, g in sorted(dis.groups.items()):
        print("DISAGREEMENT", tags, f"x{g[0]}:", g[2][:400])
    return 1 if dis.groups or rep.violations else 0
