"""C09 - KAURI trees respect their structural limits and reproduce their own partition (+ the trace part of C08).
(1) TLC model-checks the Kauri.fit state machine (KauriFit/KauriFitMC): limits, tree shape, routing = partition,
    score = root + sum of gains, termination, for every dataset on a grid x kernel x hyperparameter combination.
(2) Real Kauri.fit executions (compiled extension and interpreted .pyx) over datasets x parameter grids are recorded
    at find_best_split and validated step by step against KauriTrace; the same invariants are evaluated on every state of
    every real execution, and the final tree_/labels_/leaves_/predict/score are compared with the specification's."""
import itertools, json, random, collections
import numpy as np
from vf import kauri, trace, tlc, build
from vf.common import SEED, NCPU, MachineryError
from vf.report import Report

INVS = ["Limits", "TreeShape", "RoutingReproducesPartition", "ScoreIsSum", "StopsOnlyWhenDone"]


def run(tier):
    rep = Report("C09", tier)
    rnd = random.Random(SEED)
    rep.rule = ("(1) TLC explores KauriFitMC exhaustively for the sampled (dataset, kernel, hyperparameters) cases; "
                "(2) a case is one real Kauri.fit = (dataset, kernel, hyperparameters, seed, execution in {compiled, pyx}); "
                "non-trivial = the tree has at least one split")
    # (1) the specification itself
    for idx, (n, d, v, stride) in enumerate([(4, 1, 2, 16), (3, 2, 1, 16), (5, 1, 2, 64)] if tier == "quick" else
                                             [(4, 1, 2, 1), (3, 2, 1, 1), (5, 1, 2, 4), (4, 2, 1, 4), (5, 1, 3, 32), (6, 1, 2, 64)]):
        r = tlc.run("KauriFitMC", tlc.cfg(constants=dict(N=n, D=d, V=v, NCH=64, CHUNKS=set(range(64)), PSTRIDE=stride),
                                          invariants=INVS + ["Terminates"]), workers=NCPU, timeout=6000, coverage=(idx == 1))
        rep.add_tlc("KauriFitMC", r, note=f"N={n} D={d} V={v} all datasets, 1/{stride} of (kernel x hyperparameter) combinations")
        if r.violated:
            rep.violation(f"KauriFit specification violates its own invariant {r.violated}", {"trace": r.trace[:4000]}, tags=("spec",))
        if idx == 1:
            for act in ("MCSplit", "MCNoGain", "MCFinish"):
                if r.coverage.get(act, (0, 0))[1] == 0:
                    raise MachineryError(f"vacuous model check: action {act} never taken")
    # (2) real executions
    kauri.run_traces(rep, "C09", tier, rnd, budget=14 if tier == "quick" else 60)
    # spec -> code: the fit loop (explorable leaves, tree table, leaves_, routing) under an arbitrary scripted search
    kauri.run_glue(rep, "C09", tier, random.Random(SEED + 19))
    rep.assumptions = ["integer datasets and integer kernels (linear on integer data, precomputed symmetric indefinite matrix) so "
                       "that every logged gain is an exact multiple of 1/lcm(1..n); the recorder wraps the module attribute "
                       "gemclus.tree.kauri.find_best_split (no source hook)",
                       "steps only explained by the known C08 defects of the compiled search (double-star gain, second-best reallocation target) are taken through named deviation actions and "
                       "counted; they are reported under C08, the structural clauses are still checked after them"]
    return rep.finish()


def replay(path):
    blob = json.load(open(path))
    print(json.dumps(blob, indent=1)[:4000])
    return 1
