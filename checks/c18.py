"""C18 - predictions, probabilities and tree routing are per-sample functions of the fitted model.
TLC (spec/Predict.tla) enumerates EVERY selection of the query rows (any subset, order, repetition, single rows) with
the rows of the full answer that must come back, and checks the laws of a per-sample predictor on each.  The harness
applies every selection to real fitted estimators (every inductive class x several fitted states): `predict`,
`predict_proba`, `tree_.predict` (from every node) and Douglas' leaf memberships on Q[sel] must be the selected rows of
the answer on Q; predicting the training data must reproduce labels_; KernelRIM must compare the new points with the
stored training points (training set reordered / other sizes / kernel arguments observed)."""
import json, collections
import numpy as np
from vf import predict as pr, params
from vf.report import Report
from vf.common import MachineryError

RTOL, ATOL = 1e-12, 1e-300
TIERS = {"quick": dict(M=4, L=4), "thorough": dict(M=5, L=5)}


def softmax(H):
    H = H - H.max(axis=1, keepdims=True)
    E = np.exp(H)
    return E / E.sum(axis=1, keepdims=True)


class Cmp:
    """Comparison bookkeeping of one state: exact first; floats may fall back to RTOL (counted)."""

    def __init__(self, rep, st, stats):
        self.rep, self.st, self.stats = rep, st, stats
        self.bad = collections.OrderedDict()          # (output, kind) -> [count, first (smallest) description, replay]

    def same(self, got, exp, exact):
        got, exp = np.asarray(got), np.asarray(exp)
        if got.shape != exp.shape:
            return False, f"shape {got.shape} instead of {exp.shape}"
        if np.array_equal(got, exp):
            self.stats["bitwise"] += 1
            return True, ""
        if not exact and np.all(np.isfinite(got)) and np.allclose(got, exp, rtol=RTOL, atol=ATOL):
            self.stats["fallback"] += 1
            self.stats["fallback:" + self.st.cls] += 1
            self.stats["maxrel"] = max(self.stats["maxrel"], float(np.max(np.abs(got - exp) / np.maximum(np.abs(exp), 1e-300))))
            return True, ""
        with np.errstate(all="ignore"):
            where = np.argwhere(got != exp)[0].tolist()
        return False, f"first difference at {where}: got {got[tuple(where)]!r}, expected {exp[tuple(where)]!r}"

    def check(self, output, kind, call, exp, exact, what, replay, tags=(), key=None):
        """call() must return `exp`; `what` describes the query in words."""
        self.rep.case(key if key is not None else f"{self.st.sid}|{output}|{kind}|{what}")
        try:
            with params.quiet():
                got = call()
            ok, why = self.same(got, exp, exact)
        except Exception as e:
            ok, why = False, f"raised {type(e).__name__}: {e}"
            tags = tuple(tags) + ("raises",)
        if not ok:
            slot = self.bad.setdefault((output, kind), [0, None, None, ()])
            slot[0] += 1
            if slot[1] is None:
                slot[1], slot[2], slot[3] = f"{what}: {why}", replay, tuple(tags)
        return ok

    def flush(self):
        for (output, kind), (count, desc, replay, tags) in self.bad.items():
            self.rep.violation(f"{self.st.describe()} [{self.st.sid}]: `{output}` does not depend only on the sample and the "
                               f"fitted model [{kind}]; {count} failing quer{'y' if count == 1 else 'ies'}, smallest: {desc}",
                               dict(replay or {}, state=self.st.sid, output=output, kind=kind),
                               tags=(self.st.cls, output, kind) + tuple(tags))


def outputs_of(st):
    """name -> (function of a query array, exact?)  Everything a caller can ask a fitted model about new points."""
    m = st.model
    out = collections.OrderedDict()
    out["predict"] = (m.predict, True)
    if hasattr(m, "predict_proba"):
        out["predict_proba"] = (m.predict_proba, False)
    if hasattr(m, "tree_"):                                           # Kauri: routing from the root and from every node
        t = m.tree_
        out["tree_.predict"] = (lambda A: t.predict(A), True)
        for node in range(1, len(t.children_left)):
            out[f"tree_.predict(node={node})"] = (lambda A, node=node: t.predict(A, node), True)
    if st.cls == "Douglas" and hasattr(m, "_infer"):                  # Douglas: soft routing = leaf memberships
        def leaves(A):
            m._infer(np.asarray(A, dtype=np.float64), retain=True)
            return np.array(m._leaf, copy=True)
        try:
            leaves(st.Q[:1])
            out["leaf memberships (_leaf)"] = (leaves, False)
        except Exception:
            pass                                                      # private detail not available: nothing to bind
    return out


def check_state(rep, st, sels, stats, only=None):
    """All C18 comparisons for one fitted state.  only = (output, sel) restricts to one selection (replay)."""
    cmp_ = Cmp(rep, st, stats)
    m, X, Q, n = st.model, st.X, st.Q, len(st.X)
    outs = outputs_of(st)
    full = {}
    with params.quiet():
        for name, (fn, _) in outs.items():
            try:
                full[name] = np.array(fn(Q.copy()), copy=True)
            except Exception as e:
                cmp_.check(name, "whole-array", lambda e=e: (_ for _ in ()).throw(e), None, True, "the whole query array", {})
    finite = all(np.all(np.isfinite(v)) for v in full.values())
    if not finite:
        # a row that is finite when asked alone but not inside the whole array depends on the other rows: that is C18
        explained = False
        with params.quiet():
            for name, (fn, _) in outs.items():
                v = full.get(name)
                if v is None or np.all(np.isfinite(v)):
                    continue
                for r in range(len(Q)):
                    try:
                        alone = np.asarray(fn(Q[r:r + 1].copy()))
                    except Exception:
                        continue
                    if np.all(np.isfinite(alone)) and not np.all(np.isfinite(np.asarray(v)[r])):
                        explained = True
                        rep.violation(f"{st.sid}: {name} of query row {r} ({st.what[r]}) is {np.asarray(v)[r].tolist()} inside the whole query "
                                      f"array but {alone[0].tolist()} when asked alone: the answer depends on the other rows",
                                      {"state": st.sid, "Q": Q.tolist(), "row": r, "output": name}, tags=("batch-dependent", "non-finite", name))
                        break
        if not explained:
            raise MachineryError(f"state {st.sid} has non-finite outputs on the query rows: not usable for C18")
        return
    # ---- the same query in other containers: list of lists, Fortran order, non-contiguous view ------------------------------
    bigv = np.zeros((2 * len(Q), 2 * Q.shape[1]))
    bigv[::2, ::2] = Q
    for lname, Ql in (("list", Q.tolist()), ("fortran", np.asfortranarray(Q)), ("view", bigv[::2, ::2])):
        for name, (fn, exact) in outs.items():
            if name in full and not only and not name.startswith("tree_") and not name.startswith("_"):
                cmp_.check(name, "layout", lambda Ql=Ql: fn(Ql), full[name], exact, f"the query array given as {lname}", {"Q": Q.tolist(), "layout": lname},
                           tags=("layout", lname), key=f"{st.sid}|{name}|{lname}")
    # ---- a long query (hundreds of rows): the same rows repeated must get the same answers, whatever the array length ---
    reps = 150 if len(Q) <= 5 else 60
    big = np.tile(Q, (reps, 1))
    for name, (fn, exact) in outs.items():
        if name in full and not only:
            cmp_.check(name, "long-query", lambda: fn(big.copy()), np.concatenate([full[name]] * reps, axis=0), exact,
                       f"the query array tiled {reps} times ({len(big)} rows)", {"Q": Q.tolist(), "reps": reps}, tags=("long-query",),
                       key=f"{st.sid}|{name}|long")
    # ---- every selection enumerated by TLC ------------------------------------------------------------------
    for case in sels:
        sel0 = np.array(case["sel"], dtype=np.intp) - 1
        rows0 = np.array(case["rows"], dtype=np.intp) - 1             # spec: row r of the answer = row rows[r] of the full one
        kind = "single-row" if case["single"] else ("reordering" if case["perm"] else
                                                    ("duplicates" if case["dup"] else "subset"))
        A = Q[sel0]
        skey = ",".join(map(str, case["sel"]))
        for name, (fn, exact) in outs.items():
            if name not in full or (only and (only[0] != name or only[1] != case["sel"])):
                continue
            cmp_.check(name, kind, lambda: fn(A.copy()), full[name][rows0], exact,
                       f"query rows {case['sel']} of Q ({[st.what[i] for i in sel0]})",
                       {"sel": case["sel"], "Q": Q.tolist()}, tags=(kind,), key=f"{st.sid}|{name}|{skey}")
            if case["train"] and name in ("predict", "tree_.predict"):   # training rows inside any query: what fit stored
                lab = np.asarray(m.labels_)[[st.train_of[i] for i in sel0]]
                cmp_.check(name, "train-rows-vs-labels_", lambda: fn(A.copy()), lab, True,
                           f"query rows {case['sel']} (all copies of training rows)", {"sel": case["sel"], "Q": Q.tolist()},
                           tags=("labels_",), key=f"{st.sid}|{name}|labels|{skey}")
    if only:
        cmp_.flush()
        return
    # ---- predicting the training data reproduces what fit stored -----------------------------------------------
    lab = np.asarray(m.labels_)
    cmp_.check("predict", "training-data-vs-labels_", lambda: m.predict(X.copy()), lab, True, "the training array", {},
               tags=("labels_",))
    if "tree_.predict" in outs:
        cmp_.check("tree_.predict", "training-data-vs-labels_", lambda: m.tree_.predict(X.copy()), lab, True,
                   "the training array", {}, tags=("labels_",))
    # the very array OBJECT that was handed to fit is a query like any other: same rows, same answers as a copy of it
    Xfit = getattr(st, "Xfit", None)
    if Xfit is not None:
        with params.quiet():
            for name, (fn, exact) in outs.items():
                try:
                    want = fn(Xfit.copy())
                except Exception:
                    continue
                cmp_.check(name, "fit-array-object", lambda fn=fn: fn(Xfit), want, exact, "the array object given to fit vs a copy of it", {},
                           tags=("identity",))
    # ---- queries with as many rows as the training set, and more ------------------------------------------------
    rs = np.random.RandomState(len(st.sid) + n)
    perms = [np.arange(n)[::-1], np.roll(np.arange(n), 1)] + [rs.permutation(n) for _ in range(3)]
    ref = {}
    with params.quiet():
        for name, (fn, _) in outs.items():
            if name in full:
                ref[name] = np.array(fn(X.copy()), copy=True)         # rows of the training array, in training order
    bulk = [("training rows in the order %s" % p.tolist(), "train-reordered", X[p], lambda R, F, p=p: R[p]) for p in perms]
    cyc = np.arange(n) % len(Q)
    bulk.append((f"{n} rows (as many as the training set) cycling through Q", "same-size-other-points", Q[cyc], lambda R, F: F[cyc]))
    bulk.append((f"the training array twice ({2 * n} rows), second copy reversed", "double-size",
                 np.vstack([X, X[::-1]]), lambda R, F: np.concatenate([R, R[::-1]])))
    bulk.append((f"training array followed by Q ({n + len(Q)} rows)", "train-plus-new", np.vstack([X, Q]),
                 lambda R, F: np.concatenate([R, F])))
    bulk.append((f"first {n - 1} training rows", "train-prefix", X[:n - 1], lambda R, F: R[:n - 1]))
    for what, kind, A, expect in bulk:
        for name, (fn, exact) in outs.items():
            if name in ref:
                cmp_.check(name, kind, lambda: fn(A.copy()), expect(ref[name], full[name]), exact, what, {}, tags=(kind,))
    # ---- no hidden state: asking again gives the same answer -----------------------------------------------------
    for name, (fn, exact) in outs.items():
        if name in full:
            cmp_.check(name, "repeatable", lambda: fn(Q.copy()), full[name], True, "the whole query array, asked again", {},
                       tags=("repeatable",))
    if st.cls == "KernelRIM":
        check_kernel_rim(cmp_, st, ref, full)
    cmp_.flush()


def check_kernel_rim(cmp_, st, ref, full):
    """KernelRIM evaluates its kernel between the new points and the stored training points."""
    import gemclus.linear._linear_geminis as lg
    from sklearn.metrics.pairwise import pairwise_kernels
    m, X, Q, n = st.model, st.X, st.Q, len(st.X)
    bk, bp = m.base_kernel, (m.base_kernel_params or {})
    with params.quiet():
        K = np.asarray(bk(X.copy(), X.copy()) if callable(bk) else pairwise_kernels(X, X, metric=bk, **bp))
    if np.shape(m.W_) != (n, m.n_clusters):
        cmp_.check("W_", "kernel-weights-shape", lambda: np.shape(m.W_), np.array((n, m.n_clusters)), True,
                   "one weight row per stored training point", {}, tags=("kernelrim",))
        return
    P = softmax(K @ m.W_ + m.b_)          # the forward pass of fit on the final weights
    cmp_.check("predict_proba", "kernelrim-training-proba", lambda: m.predict_proba(X.copy()), P, False,
               "the training array vs softmax(k(X_train, X_train) W_ + b_)", {}, tags=("kernelrim",))
    cmp_.check("labels_", "kernelrim-labels-vs-final-forward-pass", lambda: np.asarray(m.labels_), P.argmax(1), True,
               "labels_ vs argmax softmax(k(X_train, X_train) W_ + b_)", {}, tags=("kernelrim", "labels_"))
    # what the kernel is asked to compare, observed (callable: logged by the kernel; named: sklearn's entry point wrapped)
    calls = []
    orig = getattr(lg, "pairwise_kernels", None)

    def spy(A, B=None, *a, **k):
        calls.append((np.array(A, dtype=float, copy=True), None if B is None else np.array(B, dtype=float, copy=True)))
        return orig(A, B, *a, **k)
    queries = [("Q", Q), ("one row", Q[2:3]), ("training rows reversed", X[::-1].copy()),
               (f"{n} other points", Q[np.arange(n) % len(Q)])]
    for what, A in queries:
        del calls[:]
        if callable(bk) and hasattr(bk, "calls"):
            del bk.calls[:]
        try:
            if orig is not None and not callable(bk):
                lg.pairwise_kernels = spy
            with params.quiet():
                got = m.predict_proba(A.copy())
        except Exception as e:
            cmp_.check("predict_proba", "kernelrim-kernel-arguments", lambda e=e: (_ for _ in ()).throw(e), None, True, what, {},
                       tags=("kernelrim",))
            continue
        finally:
            if orig is not None:
                lg.pairwise_kernels = orig
        seen = list(bk.calls) if (callable(bk) and hasattr(bk, "calls")) else list(calls)
        if not seen:
            continue                      # the kernel is reached some other way: only the outputs can be judged
        a, b = seen[-1]
        okargs = np.array([a.shape == A.shape and np.array_equal(a, A), b is not None and b.shape == X.shape and np.array_equal(b, X)])
        cmp_.check("base kernel arguments", "kernelrim-kernel-arguments", lambda: okargs, np.array([True, True]), True,
                   f"predict_proba({what}): the kernel must be asked for k(query {A.shape}, stored training points {X.shape}); "
                   f"it was asked for k({a.shape}, {None if b is None else b.shape})", {}, tags=("kernelrim",))
        cmp_.check("predict_proba", "kernelrim-shape", lambda: np.array(np.shape(got)), np.array((len(A), m.n_clusters)), True,
                   f"predict_proba({what}) shape", {}, tags=("kernelrim",))


# -----------------------------------------------------------------------------------------------------------------
def _selections(rep, tier):
    t = TIERS[tier]
    runs = {}
    for nt in (len(pr.TRAIN_ROWS), t["M"]):          # mixed query (2 training rows) / query = training array
        r = pr.enumerate_selections(t["M"], t["L"], nt)
        rep.add_tlc("Predict", r, note=f"M={t['M']} L<={t['L']} NT={nt}: {len(r.prints)} selections, laws checked on each")
        runs[nt] = sorted(r.prints, key=lambda p: (p["len"], p["sel"]))     # shortest first: the reported query is minimal
    return runs


def run(tier):
    rep = Report("C18", tier)
    t = TIERS[tier]
    runs = _selections(rep, tier)
    stats = collections.Counter()
    stats["maxrel"] = 0.0
    per_class = collections.Counter()
    specs = pr.state_specs(tier, t["M"])
    for sid, thunk in specs:
        st = thunk()
        per_class[st.cls] += 1
        before = rep.evaluations
        check_state(rep, st, runs[st.nt], stats)
        if len(rep.samples) < 4 and st.qmode == "mixed" and per_class[st.cls] == 1 and st.cls in ("KernelRIM", "MLPModel", "Kauri", "Douglas"):
            with params.quiet():
                rep.sample({"state": st.sid, "model": st.describe(), "Q": np.round(st.Q, 3).tolist(), "rows": st.what,
                            "predict(Q)": np.asarray(st.model.predict(st.Q)).tolist(), "comparisons": rep.evaluations - before})
    missing = set(pr.INDUCTIVE) - set(per_class)
    if missing:
        raise MachineryError(f"no fitted state for {sorted(missing)}")
    nsel = len(runs[len(pr.TRAIN_ROWS)])
    rep.rule = (f"TLC enumerates all {nsel} sequences of length 1..{t['L']} over {t['M']} query rows (subsets, orders, "
                "repetitions, single rows), once with 2 of the rows being training rows and once with the query being the "
                "training array; a case is one (fitted state, output, query) comparison, distinct by that key; outputs: "
                "predict, predict_proba, Kauri tree_.predict from every node, Douglas leaf memberships; plus per state: "
                "training data vs labels_, 5 reorderings of the training set, same-size / double-size / prefix / stacked "
                "queries, repeatability; KernelRIM: training probabilities vs softmax(k(X,X) W_ + b_), observed kernel arguments")
    rep.exhaustive = True
    rep.extra.update({
        "fitted_states": sum(per_class.values()), "states_per_class": dict(sorted(per_class.items())),
        "selections_per_state": nsel,
        "float_comparisons_bitwise_equal_or_exact": stats["bitwise"],
        "float_comparisons_needing_rtol_fallback": stats["fallback"],
        "rtol_fallback_by_class": {k.split(":", 1)[1]: v for k, v in sorted(stats.items()) if k.startswith("fallback:")},
        "rtol_fallback_max_relative_difference": stats["maxrel"], "rtol": RTOL})
    rep.assumptions = [
        "fitted states come from short trainings (max_iter=4) on 4..10 x 3 float data, integer random_state; query rows: two "
        "training rows, one interior point, one (thorough: two) far out-of-range point(s)",
        f"integer outputs (predict, tree routing) are compared exactly; probabilities bitwise first and only then with rtol "
        f"{RTOL} (BLAS may associate sums differently for other batch shapes); the number of fallbacks is in the evidence",
        "query arrays are fresh C-contiguous float64 arrays; sparse matrices, other dtypes and memory layouts are not varied",
        "aliasing of the caller's training array (input_data_) is not part of the property and is not tested",
        "Douglas leaf memberships are read from the private _leaf after _infer(retain=True); skipped if absent"]
    print(f"[C18] fitted states={sum(per_class.values())} ({len(per_class)} classes) selections/state={nsel} "
          f"probability comparisons: {stats['bitwise']} exact, {stats['fallback']} within rtol {RTOL} "
          f"(max rel diff {stats['maxrel']:.2e})")
    return rep.finish()


def replay(path):
    blob = json.load(open(path))
    case = blob["case"]
    print("replaying", blob["desc"][:300])
    rep = Report("C18", "quick")
    stats = collections.Counter()
    stats["maxrel"] = 0.0
    for tier in ("quick", "thorough"):
        t = TIERS[tier]
        for sid, thunk in pr.state_specs(tier, t["M"]):
            if sid != case["state"]:
                continue
            st = thunk()
            if case.get("sel") and len(case["Q"]) != t["M"]:
                continue
            if case.get("sel"):
                sel = case["sel"]
                rec = dict(m=t["M"], nt=st.nt, sel=sel, rows=sel, len=len(sel), single=len(sel) == 1,
                           dup=len(set(sel)) < len(sel), perm=sorted(sel) == list(range(1, t["M"] + 1)),
                           train=all(s <= st.nt for s in sel))
                check_state(rep, st, [rec], stats, only=(case["output"], sel))
            else:
                check_state(rep, st, [], stats)
            for desc, _ in rep.violations:
                print("VIOLATION (replayed):", desc[:600])
            return 1 if rep.violations else 0
    print("state not found:", case["state"])
    return 2
