"""C03 - Every training update follows the true gradient of the regularised objective.
(a) exact, spec -> code: Backprop.tla derives d objective / d parameter for every family from the forward maps with dual
    numbers over exact rationals; the real _compute_grads / _update_weights run on Fraction arrays and must agree exactly.
(b) trace, code -> spec: in real fits of every family x GEMINI x solver x batch size (plain and mlcl-decorated) every array
    handed to the optimiser is compared, coordinate by coordinate, with a kink-safe numerical derivative of the documented
    objective evaluated through public extension points; the boolean goes into the Update event of TrainTrace."""
import json, random, warnings
import numpy as np
from vf import trace, train
from vf.common import SEED, MachineryError
from vf.report import Report

GEMINIS = ["mmd_ova", "mmd_ovo", "wasserstein_ova", "wasserstein_ovo", "kl_ova", "kl_ovo", "mi", "tv_ova", "tv_ovo", "hellinger_ova",
           "hellinger_ovo", "chi2_ova", "chi2_ovo"]


def generic_builders():
    from gemclus.linear import LinearModel, RIM, KernelRIM, LinearMMD, LinearWasserstein
    from gemclus.mlp import MLPModel, MLPMMD
    from gemclus.sparse import SparseLinearModel, SparseMLPModel, SparseLinearMI
    from gemclus.nonparametric import CategoricalModel
    from gemclus.tree import Douglas
    B = {}
    for g in GEMINIS:
        B[f"LinearModel/{g}"] = lambda g=g, **c: LinearModel(gemini=g, **c)
        B[f"MLPModel/{g}"] = lambda g=g, **c: MLPModel(gemini=g, n_hidden_dim=3, **c)
        B[f"SparseMLPModel/{g}"] = lambda g=g, **c: SparseMLPModel(gemini=g, n_hidden_dim=3, alpha=0.01, M=5, **c)
        B[f"SparseLinearModel/{g}"] = lambda g=g, **c: SparseLinearModel(gemini=g, alpha=0.01, **c)
        B[f"CategoricalModel/{g}"] = lambda g=g, **c: CategoricalModel(gemini=g, **{k: v for k, v in c.items() if k != "batch_size"})
        B[f"Douglas/{g}"] = lambda g=g, **c: Douglas(gemini=g, n_cuts=3 if len(g) % 2 else 2, temperature=0.5, **c)
    B["RIM"] = lambda **c: RIM(reg=0.3, **c)
    B["KernelRIM/rbf"] = lambda **c: KernelRIM(reg=0.3, base_kernel="rbf", **c)
    B["KernelRIM/linear"] = lambda **c: KernelRIM(reg=0.2, base_kernel="linear", **c)
    B["SparseLinearMI"] = lambda **c: SparseLinearMI(alpha=0.01, **c)
    B["LinearMMD/rbf-ovo"] = lambda **c: LinearMMD(kernel="rbf", ovo=True, **c)
    B["MLPMMD/poly"] = lambda **c: MLPMMD(kernel="polynomial", n_hidden_dim=3, **c)
    B["LinearWasserstein/l1"] = lambda **c: LinearWasserstein(metric="manhattan", **c)
    return B


def trace_part(rep, tier, rnd):
    import gemclus
    B = generic_builders()
    names = sorted(B)
    k = 70 if tier == "quick" else 400
    picks = [n for n in names if "/" not in n or n.split("/")[1] in ("mmd_ova", "kl_ovo")]          # every family at least once
    picks += rnd.sample(names, min(k, len(names)))
    if tier == "thorough":
        picks += names
    traces, meta, allstats = [], [], []
    forced = [(nm, 5, 2) for nm in names if "/" not in nm or nm.split("/")[1] == "kl_ova"]     # last batch of 1 sample (n=5, bs=2)
    forced += [(nm, 6, 4) for nm in ("RIM", "KernelRIM/linear", "LinearModel/mmd_ova", "MLPModel/mmd_ova")]   # last batch of 2 of 4
    for item in [(nm, None, None) for nm in picks] + forced:
        name, fn, fbs = item
        n, d = rnd.choice([(5, 2), (6, 3)]) if fn is None else (fn, 2)
        X = np.array([[rnd.gauss(0, 1) for _ in range(d)] for _ in range(n)])
        X[: n // 2] += 1.5
        K = 2 if name.startswith("Douglas") or rnd.random() < 0.5 else 3
        bs = rnd.choice([1, 2, n - 1, n, None])
        decorated = rnd.random() < 0.3
        if fn is not None:
            bs, decorated = fbs, False
        common = dict(n_clusters=K, max_iter=rnd.choice([2, 3]), learning_rate=rnd.choice([0.05, 0.2]), solver=rnd.choice(["sgd", "adam"]),
                      batch_size=bs, random_state=rnd.randint(0, 9))
        stats = dict(coords=0, judged=0, kinks=0, nonfinite=0, bad=[])
        # one sample in two constraints of the same kind (0 in two must-links, 2 in two cannot-links) and one in both kinds
        ml, cl, f = [[0, 1], [0, 4]], [[2, 3], [2, n - 1], [1, 3]], 0.7
        with warnings.catch_warnings():
            warnings.simplefilter("ignore")
            model = B[name](**common)
            links_of = None
            if decorated:
                model = gemclus.add_mlcl_constraint(model, must_link=ml, cannot_link=cl, factor=f)
                ids_of = {tuple(np.round(row, 12)): i for i, row in enumerate(X)}

                def links_of(rec, ids_of=ids_of, model=model):
                    xb = rec.last_batch[0]
                    if type(model).__name__ == "KernelRIM":
                        return None
                    ids = [ids_of[tuple(np.round(r, 12))] for r in np.asarray(xb)]
                    return ids, [tuple(p) for p in ml], [tuple(p) for p in cl], f
                if type(model).__name__ == "KernelRIM":
                    decorated = False
                    model = B[name](**common)
                    links_of = None
            chk = train.make_direction_check(stats, links_of, rnd=rnd)
            ev, err = train.record_fit(model, X, None, decorated=False, direction_check=chk, ids="match")
        m = dict(family=name, n=n, d=d, K=K, batch_size=bs, decorated=decorated, solver=common["solver"], max_iter=common["max_iter"],
                 judged=stats["judged"], kinks=stats["kinks"])
        rep.case(m, nontrivial=stats["judged"] > 0)
        if err is not None:
            rep.extra.setdefault("fits_that_raised", []).append(f"{name}: {type(err).__name__}: {err}"[:200])
            continue
        m["bad"] = stats["bad"][:3]
        traces.append(ev)
        meta.append(m)
        allstats.append(stats)
    res = trace.validate("TrainTrace", traces, invariants=["BatchSizeOK"], timeout=3000)
    rep.add_tlc("TrainTrace", res["result"], note=f"{len(traces)} traces with the direction predicate in every Update event")
    rep.traces += len(traces)
    if traces and not res["accepted"]:
        raise MachineryError("every recorded fit was rejected by TrainTrace: the direction predicate was never examined")
    rep.extra["traces_rejected_on_clauses_of_other_properties"] = 0
    for tid in res["rejected"]:
        dg = trace.diagnose("TrainTrace", traces, tid)
        failing = [k for k, v in (dg["diag"] or {}).items() if v is False]
        if "dirok" not in failing and "shapesok" not in failing:
            rep.extra["traces_rejected_on_clauses_of_other_properties"] += 1
            continue                                 # other clauses are owned by C10 / C06 / C17
        m = meta[tid - 1]
        rep.violation(f"update #{dg['l']} of {m['family']} (K={m['K']}, batch_size={m['batch_size']}, solver={m['solver']}, decorated="
                      f"{m['decorated']}) hands the optimiser a direction that is not minus the gradient of the documented objective: "
                      f"{m['bad']}", {"meta": m, "diag": dg}, tags=(m["family"].split("/")[0], "direction") + tuple(failing))
    rep.extra["coordinates_compared"] = int(sum(s["judged"] for s in allstats))
    rep.extra["coordinates_skipped_at_kinks"] = int(sum(s["kinks"] for s in allstats))
    if traces:
        rep.sample({"meta": {k: v for k, v in meta[0].items() if k != "bad"}, "update_event": [e for e in traces[0] if e["e"] == "update"][:1]})


def run(tier):
    rep = Report("C03", tier)
    rnd = random.Random(SEED)
    rep.rule = ("(a) TLC enumerates integer data/weights/GEMINI-gradients and grid predictions for each family (Backprop.tla) and derives "
                "the exact direction per parameter with dual numbers; (b) a case is one real fit; every coordinate of every array handed "
                "to the optimiser at every step is compared with a kink-safe numerical derivative (non-trivial = >= 1 coordinate judged)")
    try:
        from checks import c03_exact
        c03_exact.run_exact(rep, tier, rnd)
    except ImportError:
        pass
    trace_part(rep, tier, rnd)
    rep.assumptions = ["(b) the derivative of the documented objective is evaluated numerically by the harness (central differences, "
                       "h=1e-5, a coordinate is judged only when both one-sided differences agree to 1e-3); TLC requires the boolean TRUE",
                       "objective = GEMINI(model._infer(batch), affinity block) - penalty (reg*||W||^2 for RIM, reg*tr(W'KW) for KernelRIM) "
                       "+/- (factor/2)*||y_i-y_j||^2 for cannot-/must-linked pairs sharing the batch"]
    return rep.finish()


def replay(path):
    print(json.dumps(json.load(open(path)), indent=1)[:4000])
    return 1
