"""C11 - Kernel, metric and GEMINI choices are forwarded faithfully; precomputed = named.
TLC enumerates the documented forwarding table (spec/Forward.tla: estimator x hyper-parameters -> family, OvA/OvO,
affinity source).  Every row is replayed into the real estimator:
 (a) model.get_gemini() is identified by its BEHAVIOUR on grid inputs against the exact Gemini.tla oracle;
 (b) the affinity it computes is compared with scikit-learn's named function called with the parameter dictionary, the
     callable's output, the very matrix passed as y; a missing matrix must be an error (KernelRIM / Kauri likewise);
 (c) fitting / scoring / path with the named affinity and with the same matrix passed as 'precomputed' must coincide."""
import json
import numpy as np
from vf import forward as fw, params
from vf.common import SEED, MachineryError
from vf.report import Report

PATH_ARGS = dict(alpha_multiplier=2.0, min_features=1, keep_threshold=0.9, max_patience=2)


# ---------------------------------------------------------------------------------------------------------------
def describe(row):
    h = row["hyper"]
    bits = []
    if h["gemini"] not in ("-",):
        if h["gemini"] == "instance":
            inner = []
            if h["aff"] != "-":
                inner.append(f"{'metric' if h['inst'].startswith('Wass') else 'kernel'}={h['aff']}")
                inner.append(f"params={fw.param_dict(h['params'], row['hyper_items'])}")
            if h["ovo"] != "-":
                inner.append(f"ovo={h['ovo']}")
            bits.append(f"gemini={h['inst']}({', '.join(inner)})")
        else:
            bits.append(f"gemini={h['gemini']}")
    elif h["aff"] != "-":
        bits.append(f"{'base_kernel' if row['role'] == 'features' else 'affinity'}={h['aff']}")
        bits.append(f"params={fw.param_dict(h['params'], row['hyper_items'])}")
        if h["ovo"] != "-":
            bits.append(f"ovo={h['ovo']}")
    if h["y"] == "given":
        bits.append("y=matrix")
    return f"{row['cls']}({', '.join(bits)})"


def same(a, b):
    """'equal' (bitwise), 'close' (rtol 1e-12) or 'differs'."""
    a, b = np.asarray(a), np.asarray(b)
    if a.shape != b.shape:
        return "differs"
    if np.array_equal(a, b):
        return "equal"
    try:
        return "close" if np.allclose(a, b, rtol=1e-12, atol=0) else "differs"
    except TypeError:
        return "differs"


class Ctx:
    def __init__(self, tier):
        self.tier = tier
        self.X = fw.data(7, 3, seed=0)            # affinity checks
        self.Xnew = fw.data(4, 3, seed=1)         # new points (KernelRIM)
        self.decoy = np.arange(49, dtype=float).reshape(7, 7) + 100.0
        self.orc = None


def tags_of(row, *more):
    e = row["expect"]
    return tuple(more) + (row["cls"], f"{e['family']}_{'ovo' if e['ovo'] else 'ova'}", "source=" + e["source"]["kind"],
                          "gemini=" + row["hyper"]["gemini"])


def viol(rep, row, part, msg, *tags, extra=None):
    rep.violation(f"{describe(row)} [{part}]: {msg}", {"row": row, "part": part, **(extra or {})}, tags=tags_of(row, part, *tags))


# ---------------------------------------------------------------------------------------------------------------
# (a) + (b): one table row
def check_affinity_fn(rep, row, part, compute, expect_named, call_out, X):
    """Shared by GEMINI.compute_affinity / Kauri._compute_kernel.  compute(y) -> matrix (may raise)."""
    e, src = row["expect"], row["expect"]["source"]
    kw = fw.param_dict(src["params"], row["expect_items"]) if src["kind"] == "named" else None
    ctxdecoy = np.arange(len(X) ** 2, dtype=float).reshape(len(X), len(X)) + 100.0
    key = (fw.row_key(row), part)
    if e["verdict"] == "error":
        rep.case(key)
        try:
            with fw.capture() as w:
                out = compute(None)
        except ValueError:
            return
        except Exception as ex:
            viol(rep, row, part, f"a missing precomputed matrix must raise ValueError, raised {type(ex).__name__}: {ex}",
                 "precomputed-missing-matrix")
            return
        what = "returned None" if out is None else f"returned a {np.shape(out)} matrix"
        if out is not None and len(w):
            what += f" after warning {str(w[0].message)[:90]!r}"
        more = ("kauri-precomputed-missing-matrix",) if row["cls"] == "Kauri" else ("precomputed-missing-matrix",)
        viol(rep, row, part, f"'precomputed' without a matrix must be an error, but the call {what}", *more)
        return
    if src["kind"] == "none":
        for y in (None, ctxdecoy):
            rep.case(key + (y is None,))
            with fw.capture():
                out = compute(y)
            if out is not None:
                viol(rep, row, part, f"an f-divergence has no affinity, got {type(out).__name__}", "affinity-not-none")
        return
    if src["kind"] == "precomputed":
        frac = ctxdecoy + 0.375                           # non-integer entries: a cast to the dtype of X would show
        for y_ in (ctxdecoy, frac):
            rep.case(key + (y_ is frac,))
            with fw.capture():
                out = compute(y_)
            if not (out is y_ or same(out, y_) == "equal"):
                viol(rep, row, part, "the affinity is not the matrix passed as y", "precomputed-not-used")
        return
    # named / callable: y must be ignored
    expected = expect_named(src["name"], kw) if src["kind"] == "named" else call_out
    for y in (None, ctxdecoy):
        rep.case(key + (y is None,))
        try:
            with fw.capture() as w:
                out = compute(y)
        except Exception as ex:
            viol(rep, row, part, f"raised {type(ex).__name__}: {ex}", "affinity-raises")
            return
        verdict = same(out, expected)
        if verdict == "differs":
            more = ["affinity-differs"]
            if src["kind"] == "named" and kw and same(out, expect_named(src["name"], None)) != "differs":
                more.append("params-dropped")
            if y is not None and same(out, y) == "equal":
                more.append("y-used-although-not-precomputed")
            viol(rep, row, part, f"affinity differs from {'sklearn ' + src['name'] + ' with ' + str(kw) if src['kind'] == 'named' else 'the output of the callable'}"
                                 f" (max abs diff {np.max(np.abs(np.asarray(out, dtype=float) - expected)) if np.shape(out) == expected.shape else 'shape ' + str(np.shape(out))})"
                                 f"{' [equals the default-parameter matrix]' if 'params-dropped' in more else ''}", *more)
            return
        if e["warn"] and not len(w):
            viol(rep, row, part, "a parameter dictionary given with a callable must be ignored WITH a warning; none was issued",
                 "no-warning")


def named_oracle(fam, X, Y=None):
    def f(name, kw):
        M = fw.sk_matrix(fam, name, kw, X, Y)
        if kw:
            D = fw.sk_matrix(fam, name, None, X, Y)
            if np.allclose(M, D, rtol=1e-9):
                raise MachineryError(f"the dictionary {kw} does not change {name} on the test data: not discriminating")
        return M
    return f


def check_row(rep, ctx, row):
    e, fam, h = row["expect"], row["expect"]["family"], row["hyper"]
    try:
        with fw.capture():
            model = fw.build(row)
    except Exception as ex:
        rep.case((fw.row_key(row), "build"))
        viol(rep, row, "build", f"constructing the documented configuration raised {type(ex).__name__}: {ex}")
        return
    if row["role"] == "gemini":
        try:
            with fw.capture():
                g = model.get_gemini()
        except Exception as ex:
            rep.case((fw.row_key(row), "get_gemini"))
            viol(rep, row, "get_gemini", f"raised {type(ex).__name__}: {ex}")
            return
        import copy
        dicts_before = {}
        for pname in ("kernel_params", "metric_params"):
            val = model.get_params().get(pname)
            if val is None and hasattr(model.get_params().get("gemini"), pname):
                val = getattr(model.get_params()["gemini"], pname)
            if isinstance(val, dict):
                dicts_before[pname] = copy.deepcopy(val)
        # (a) behavioural identification
        rep.case((fw.row_key(row), "identify"))
        with fw.capture():
            ok, msg = ctx.orc.identify(g, fam, e["ovo"])
        if not ok:
            viol(rep, row, "identify", f"get_gemini() is not {fam} {'OvO' if e['ovo'] else 'OvA'}: {msg}")
        # (b) its affinity
        X = ctx.X
        call = fw.aff_value(fam, "callable")(X) if e["source"]["kind"] == "callable" else None
        check_affinity_fn(rep, row, "affinity", lambda y: g.compute_affinity(X.copy(), y), named_oracle(fam, X), call, X)
        if e["source"]["kind"] in ("named", "callable") and e["verdict"] != "error":
            # same objective object, another data set of the SAME shape: the affinity must be the one of the data passed now
            X2 = np.ascontiguousarray(X[::-1] * 0.5 + 0.25)
            call2 = fw.aff_value(fam, "callable")(X2) if e["source"]["kind"] == "callable" else None
            check_affinity_fn(rep, row, "affinity-second-data", lambda y: g.compute_affinity(X2.copy(), y), named_oracle(fam, X2), call2, X2)
        if e["source"]["kind"] == "named" and e["verdict"] != "error":
            # ... and data of ANOTHER width: nothing derived from the first data set (a default bandwidth, for instance) may
            # have been written into the objective or into the user's dictionary
            X3 = np.ascontiguousarray(X[:, :2] + 0.5)
            check_affinity_fn(rep, row, "affinity-other-width", lambda y: g.compute_affinity(X3.copy(), y),
                              lambda name, kw: fw.sk_matrix(fam, name, kw, X3), None, X3)
            # small unsigned / boolean data: the named kernel is the scikit-learn one, which works on real numbers
            Xu = np.round(X * 4).astype(np.uint8)
            check_affinity_fn(rep, row, "affinity-uint8X", lambda y: g.compute_affinity(Xu.copy(), y),
                              lambda name, kw: fw.sk_matrix(fam, name, kw, Xu.astype(np.float64)), None, Xu.astype(np.float64))
        for pname, before in dicts_before.items():
            now = model.get_params().get(pname)
            if isinstance(getattr(model.get_params().get("gemini"), pname, None), dict) and now is None:
                now = getattr(model.get_params()["gemini"], pname)
            rep.case((fw.row_key(row), "dictionary-untouched", pname))
            if now != before:
                viol(rep, row, "dictionary", f"the user's {pname} dictionary was {before} and is now {now}: computing an affinity must "
                                             f"not write into it", "dictionary-modified")
        if e["source"]["kind"] == "precomputed" and e["verdict"] != "error":
            # the data may be handed over as integers (score / path do not convert it): the user's matrix is still the affinity
            Xi = np.round(X * 4).astype(np.int64)
            check_affinity_fn(rep, row, "affinity-intX", lambda y: g.compute_affinity(Xi.copy(), y), named_oracle(fam, X), call, X)
        # (c) a hyperparameter changed with set_params AFTER the objective has been used once must be honoured
        check_set_params(rep, ctx, row, model)
        if e["verdict"] == "error":
            check_error_api(rep, ctx, row)
    elif row["role"] == "features":
        check_features(rep, ctx, row, model)
    elif row["role"] == "kauri":
        check_kauri_row(rep, ctx, row, model)


_SP_DONE = set()


def check_set_params(rep, ctx, row, model):
    """model.get_gemini() was just used; now change the objective-defining hyperparameters to another documented value and ask
    again: the new GEMINI must be the one the NEW parameters describe (nothing may be memoised across set_params)."""
    cls, h = row["cls"], row["hyper"]
    if row["expect"]["verdict"] == "error" or ctx_rows_budget(cls) <= 0 or not hasattr(ctx, "all_rows"):
        return
    others = [r for r in ctx.all_rows if r["cls"] == cls and r["role"] == "gemini" and r["expect"]["verdict"] != "error"
              and (r["expect"]["family"], r["expect"]["ovo"]) != (row["expect"]["family"], row["expect"]["ovo"])
              and r["expect"]["source"]["kind"] in ("named", "none")]
    if not others:
        return
    plain = [r for r in others if r["hyper"].get("gemini") != "instance"]     # registry names / None / class hyperparameters
    others = plain or others
    other = others[(ctx_rows_budget(cls) * 7 + len(fw.row_key(row))) % len(others)]
    _BUDGET[cls] = ctx_rows_budget(cls) - 1
    _SP_DONE.add(cls)
    try:
        with fw.capture():
            target = fw.build(other)
            model.set_params(**{k: v for k, v in target.get_params().items() if k in ("gemini", "kernel", "metric", "ovo", "kernel_params", "metric_params")})
            g2 = model.get_gemini()
            ok, msg = ctx.orc.identify(g2, other["expect"]["family"], other["expect"]["ovo"])
    except Exception as ex:
        rep.case((fw.row_key(row), "set_params"))
        viol(rep, row, "set_params", f"set_params to {describe(other)} then get_gemini raised {type(ex).__name__}: {ex}", "set-params-raises")
        return
    rep.case((fw.row_key(row), "set_params", fw.row_key(other)))
    if not ok:
        viol(rep, row, "set_params", f"after get_gemini() and set_params to the configuration of {describe(other)}, get_gemini() is not "
                                     f"{other['expect']['family']} {'OvO' if other['expect']['ovo'] else 'OvA'}: {msg}", "set-params-ignored")


_BUDGET = {}


def ctx_rows_budget(cls):
    return _BUDGET.get(cls, 12)


def check_error_api(rep, ctx, row):
    """'precomputed' without a matrix through the estimator API: fit(X) and score(X) must raise ValueError."""
    X = ctx.X
    extra = {"max_iter": 2}
    Kmat = X @ X.T if row["expect"]["family"] == "mmd" else fw.sk_matrix("wasserstein", "euclidean", None, X)
    for api in ("fit", "score"):
        rep.case((fw.row_key(row), "error-" + api))
        with fw.capture():
            m = fw.build(row, extra=extra)
        try:
            with fw.capture():
                if api == "fit":
                    m.fit(X)
                else:
                    m.fit(X, Kmat)
                    m.score(X)
        except ValueError:
            continue
        except Exception as ex:
            viol(rep, row, "error-" + api, f"{api}(X) without the matrix raised {type(ex).__name__}: {ex} instead of ValueError",
                 "precomputed-missing-matrix")
            continue
        viol(rep, row, "error-" + api, f"{api}(X) without the precomputed matrix did not raise", "precomputed-missing-matrix")


def check_features(rep, ctx, row, model):
    """KernelRIM: the features of new points are K(Xnew, X_train) for the base kernel and its dictionary."""
    from sklearn.utils.extmath import softmax
    e, src = row["expect"], row["expect"]["source"]
    X, Xn = ctx.X, ctx.Xnew
    rep.case((fw.row_key(row), "features"))
    try:
        with fw.capture():
            model.set_params(max_iter=2)
            model.fit(X.copy())
        with fw.capture() as w:
            K = model._compute_kernel(Xn.copy())
        with fw.capture():
            proba = model.predict_proba(Xn.copy())
    except Exception as ex:
        viol(rep, row, "features", f"raised {type(ex).__name__}: {ex}", "features-raises")
        return
    kw = fw.param_dict(src["params"], row["expect_items"]) if src["kind"] == "named" else None
    expected = named_oracle("features", Xn, X)(src["name"], kw) if src["kind"] == "named" else fw.kernel_callable(Xn, X)
    if same(K, expected) == "differs":
        more = ["features-differ"]
        if kw and same(K, fw.sk_matrix("features", src["name"], None, Xn, X)) != "differs":
            more.append("params-dropped")
        viol(rep, row, "features", f"_compute_kernel(Xnew) is not K(Xnew, X_train) for {src['name'] if src['kind'] == 'named' else 'the callable'} "
                                   f"with {kw}: shape {np.shape(K)} vs {expected.shape}"
                                   + (f", max abs diff {np.max(np.abs(K - expected))}" if np.shape(K) == expected.shape else ""), *more)
        return
    if e["warn"] and not len(w):
        viol(rep, row, "features", "base_kernel_params given with a callable must be ignored WITH a warning; none was issued", "no-warning")
    want = softmax(expected @ model.W_ + model.b_)
    if same(proba, want) == "differs" and not np.allclose(proba, want, rtol=1e-9, atol=1e-12):
        viol(rep, row, "features", "predict_proba(Xnew) is not softmax(K(Xnew, X_train) W + b)", "features-not-used")


def kkmeans(labels, K):
    return sum(K[np.ix_(labels == k, labels == k)].sum() / (labels == k).sum() for k in np.unique(labels))


def check_kauri_row(rep, ctx, row, model):
    e, src = row["expect"], row["expect"]["source"]
    X = ctx.X
    check_affinity_fn(rep, row, "kauri-kernel", lambda y: model._compute_kernel(X.copy(), y), named_oracle("kernel_kmeans", X),
                      None, X)
    if e["verdict"] == "error":
        for api in ("fit", "score"):
            rep.case((fw.row_key(row), "error-" + api))
            try:
                with fw.capture() as w:
                    m = fw.build(row)
                    if api == "fit":
                        m.fit(X.copy())
                    else:
                        m.fit(X.copy(), X @ X.T)
                        m.score(X.copy())
            except ValueError:
                continue
            except Exception as ex:
                viol(rep, row, "error-" + api, f"raised {type(ex).__name__}: {ex} instead of ValueError", "precomputed-missing-matrix")
                continue
            msgs = "; ".join(sorted({str(x.message)[:100] for x in w}))
            viol(rep, row, "error-" + api, f"Kauri(kernel='precomputed').{api}(X) without a matrix did not raise"
                                           + (f" (warned: {msgs!r})" if msgs else ""), "kauri-precomputed-missing-matrix")
        return
    # the objective Kauri reports is the kernel KMeans objective of its own partition for THIS kernel
    Kmat = named_oracle("kernel_kmeans", X)(src["name"], None) if src["kind"] == "named" else fw.sym_kernel_callable(X)
    y = Kmat if src["kind"] == "precomputed" else None
    rep.case((fw.row_key(row), "kauri-score"))
    try:
        with fw.capture():
            model.fit(X.copy(), y)
            sc = float(model.score(X.copy(), y))
            lab = np.asarray(model.predict(X.copy()))
    except Exception as ex:
        viol(rep, row, "kauri-score", f"raised {type(ex).__name__}: {ex}", "kauri-raises")
        return
    want = kkmeans(lab, Kmat)
    if not abs(sc - want) <= 1e-9 * max(1.0, abs(want)):
        viol(rep, row, "kauri-score", f"score {sc!r} is not the kernel KMeans objective {want!r} of the fitted partition for the "
                                      f"documented kernel")


# ---------------------------------------------------------------------------------------------------------------
# (c) equivalence precomputed = named
def fingerprint(model):
    out = {k: np.array(v, copy=True) for k, v in vars(model).items()
           if k.endswith("_") and isinstance(v, np.ndarray)}
    return out


def compare_fp(a, b):
    """worst verdict over the fitted arrays: ('equal'|'close'|'differs', attribute)"""
    worst, where = "equal", ""
    if set(a) != set(b):
        return "differs", f"attributes {sorted(set(a) ^ set(b))}"
    for k in sorted(a):
        v = same(a[k], b[k])
        if v == "differs":
            return v, k
        if v == "close" and worst == "equal":
            worst, where = v, k
    return worst, where


def equiv_matrix(row, X):
    src, fam = row["expect"]["source"], row["expect"]["family"]
    if src["kind"] == "callable":
        return fw.aff_value(fam, "callable")(X)
    return fw.sk_matrix(fam, src["name"], fw.param_dict(src["params"], row["expect_items"]), X)


def report_equiv(rep, row, part, verdict, where, cfg):
    if verdict == "equal":
        return
    tag = "equiv-not-bitwise" if verdict == "close" else "equiv-differs"
    viol(rep, row, part, f"named vs precomputed ({cfg}): {where} is {'equal only up to rounding (allclose 1e-12)' if verdict == 'close' else 'different'}",
         tag, extra={"cfg": cfg})


EQUIV_SEEN = set()


def check_equiv(rep, row, X, seed, batch, do_path, decoy_done):
    cls = row["cls"]
    extra = {"max_iter": 3, "random_state": seed, "n_clusters": 3, "learning_rate": 0.25}
    if "batch_size" in params.ESTIMATORS[cls]["baseline"]:
        extra["batch_size"] = batch
    elif batch is not None:
        return
    cfg = dict(n=len(X), d=X.shape[1], seed=seed, batch_size=batch)
    Kmat = equiv_matrix(row, X)
    key = (fw.row_key(row), "equiv", json.dumps(cfg, sort_keys=True))
    rep.case(key)
    try:
        with fw.capture():
            A = fw.build(row, extra=extra).fit(X.copy())
            B = fw.build(row, extra=extra, precomputed=True).fit(X.copy(), Kmat.copy())
            fa, fb = fingerprint(A), fingerprint(B)
            fa["predict_proba"], fb["predict_proba"] = A.predict_proba(X.copy()), B.predict_proba(X.copy())
            fa["score"], fb["score"] = np.array(A.score(X.copy())), np.array(B.score(X.copy(), Kmat.copy()))
    except Exception as ex:
        viol(rep, row, "equiv-fit", f"({cfg}) raised {type(ex).__name__}: {ex}", "equiv-raises", extra={"cfg": cfg})
        return
    report_equiv(rep, row, "equiv-fit", *compare_fp(fa, fb), cfg)
    EQUIV_SEEN.add(cls)
    if cls not in decoy_done:
        # not vacuous: the fitted model must depend on the matrix it is given.  A single configuration can legitimately be
        # insensitive (saturated predictions get zero gradient), so the class stays on the to-do list until one configuration
        # shows the dependence; classes that never do are listed in the evidence, they are not violations.
        rep.case(key + ("decoy",))
        with fw.capture():
            D = Kmat[::-1, ::-1].copy() + (0.0 if row["expect"]["family"] == "wasserstein" else np.eye(len(X)))
            C = fw.build(row, extra=extra, precomputed=True).fit(X.copy(), D)
        wa = {k: v for k, v in fingerprint(C).items() if k != "labels_"}
        wb = {k: v for k, v in fingerprint(B).items() if k != "labels_"}
        if compare_fp(wa, wb)[0] != "equal":
            decoy_done.add(cls)
        else:
            rep.extra.setdefault("decoy_insensitive_configurations", []).append(f"{describe(row)} {cfg}"[:200])
    if do_path and cls in fw.SPARSE:
        rep.case(key + ("path",))
        try:
            with fw.capture(), fw.time_limit(60, f"path of {describe(row)}"):
                A = fw.build(row, extra=extra)
                ra = A.path(X.copy(), None, **PATH_ARGS)
                B = fw.build(row, extra=extra, precomputed=True)
                rb = B.path(X.copy(), Kmat.copy(), **PATH_ARGS)
        except MachineryError:
            raise
        except Exception as ex:
            viol(rep, row, "equiv-path", f"({cfg}) raised {type(ex).__name__}: {ex}", "equiv-raises", extra={"cfg": cfg})
            return
        fa, fb = fingerprint(A), fingerprint(B)
        for i, nm in enumerate(("best_weights", "geminis", "group_penalties", "alphas", "n_features")):
            if nm == "best_weights":
                for j, (wa, wb) in enumerate(zip(ra[0], rb[0])):
                    fa[f"path.best_weights[{j}]"], fb[f"path.best_weights[{j}]"] = np.asarray(wa), np.asarray(wb)
            else:
                fa["path." + nm], fb["path." + nm] = np.asarray(ra[i], dtype=float), np.asarray(rb[i], dtype=float)
        fa["steps"], fb["steps"] = np.array(len(ra[1])), np.array(len(rb[1]))
        report_equiv(rep, row, "equiv-path", *compare_fp(fa, fb), cfg)
        return len(ra[1])


def check_equiv_kauri(rep, row, X, seed, max_clusters):
    cfg = dict(n=len(X), d=X.shape[1], seed=seed, max_clusters=max_clusters)
    rep.case((fw.row_key(row), "equiv-kauri", json.dumps(cfg, sort_keys=True)))
    Kmat = equiv_matrix(row, X)
    extra = dict(max_clusters=max_clusters, random_state=seed)
    try:
        with fw.capture():
            A = fw.build(row, extra=extra).fit(X.copy())
            B = fw.build(row, extra=extra, precomputed=True).fit(X.copy(), Kmat.copy())
            sa, sb = A.score(X.copy()), B.score(X.copy(), Kmat.copy())
    except Exception as ex:
        viol(rep, row, "equiv-kauri", f"({cfg}) raised {type(ex).__name__}: {ex}", "equiv-raises", extra={"cfg": cfg})
        return
    fa = {k: np.array([np.nan if x is None else x for x in v], dtype=float) for k, v in vars(A.tree_).items() if isinstance(v, list)}
    fb = {k: np.array([np.nan if x is None else x for x in v], dtype=float) for k, v in vars(B.tree_).items() if isinstance(v, list)}
    for d in (fa, fb):
        for k in d:
            d[k] = np.nan_to_num(d[k], nan=-12345.0)
    fa.update(labels_=A.labels_, score=np.array(sa), n_nodes=np.array(A.tree_.n_nodes), predict=A.predict(X.copy()))
    fb.update(labels_=B.labels_, score=np.array(sb), n_nodes=np.array(B.tree_.n_nodes), predict=B.predict(X.copy()))
    report_equiv(rep, row, "equiv-kauri", *compare_fp(fa, fb), cfg)


def equiv_rows(rows):
    out = []
    for row in rows:
        e = row["expect"]
        if row["role"] != "gemini" or e["verdict"] != "ok" or e["source"]["kind"] not in ("named", "callable"):
            continue
        if row["cls"] not in fw.GRADIENT_EQUIV or row["hyper"]["aff"] == "-":
            continue                       # registry names / None / defaults have no 'precomputed' twin
        out.append(row)
    return out


def run_rows(rep, ctx, rows, tier):
    ctx.all_rows = rows
    for row in rows:
        check_row(rep, ctx, row)


def run_equiv(rep, ctx, rows, tier):
    todo = equiv_rows(rows)
    datasets = [fw.data(8, 3, seed=10)] if tier == "quick" else [fw.data(8, 3, seed=10), fw.data(9, 4, seed=11), fw.data(12, 2, seed=12)]
    decoy_done, steps = set(), []
    for ri, row in enumerate(todo):
        generic = row["hyper"]["gemini"] == "instance"
        for di, X in enumerate(datasets):
            for bi, batch in enumerate((None, 3)):
                # the path: first dataset only; quick tier: one (alternating) batch mode for the generic estimators
                do_path = di == 0 and (tier != "quick" or not generic or bi == ri % 2)
                st = check_equiv(rep, row, X, SEED % 1000 + di, batch, do_path, decoy_done)
                if st is not None:
                    steps.append(st)
    for row in rows:
        if row["role"] == "kauri" and row["expect"]["verdict"] == "ok" and row["expect"]["source"]["kind"] == "named":
            for di, X in enumerate(datasets + [fw.data(10, 2, seed=20), fw.data(7, 4, seed=21)]):
                for mc in (2, 3, 4):
                    check_equiv_kauri(rep, row, X, SEED % 1000 + di, mc)
    missing = fw.GRADIENT_EQUIV - EQUIV_SEEN
    if missing:
        raise MachineryError(f"no equivalence run for {sorted(missing)}")
    rep.extra["classes_whose_fit_never_depended_on_the_decoy_matrix"] = sorted(fw.GRADIENT_EQUIV - decoy_done)
    if steps and max(steps) == 0:
        raise MachineryError("every compared path had an empty history: the path comparison is vacuous")
    rep.extra["path_steps_compared"] = {"runs": len(steps), "min": min(steps, default=0), "max": max(steps, default=0)}


# ---------------------------------------------------------------------------------------------------------------
def run(tier):
    rep = Report("C11", tier)
    rep.rule = ("TLC enumerates the whole forwarding table: 18 estimators x {gemini default / None / 13 registry names / GEMINI "
                "instance of each of the 7 constructors} x {9 kernel names, 6 metric names} x {None, {} or 2 non-default "
                "dictionaries per parametrised kernel, squared=True for euclidean/l2} x {callable, callable+dictionary, "
                "precomputed with / without matrix} x ovo.  A case is one (row, sub-check[, dataset, seed, batch size]); "
                "sub-checks: behavioural identification on 22 grid inputs (12-way discriminating), affinity with and without a "
                "decoy y, error API (fit / score), KernelRIM features on new points, Kauri kernel and objective, named = "
                "precomputed equivalence of fit / predict_proba / score / path (bitwise).")
    r, rows, exposes, order = fw.enumerate_table()
    rep.add_tlc("Forward", r, note=f"{len(rows)} rows, invariants Emit + {' + '.join(fw.THEOREMS)}")
    rep.exhaustive = True
    if set(exposes) != set(params.ESTIMATORS):
        raise MachineryError(f"Forward.tla classes differ from the registry: {sorted(set(exposes) ^ set(params.ESTIMATORS))}")
    for msg in fw.signature_problems(exposes):
        rep.case(("exposes", msg))
        rep.violation(msg, {"exposes": msg}, tags=("exposes",))
    ctx = Ctx(tier)
    ctx.orc = fw.Oracle()
    for shape, rr, nch in ctx.orc.runs:
        rep.add_tlc("Gemini", rr, note=f"identification oracle shape={shape} chunks={nch}; {len(ctx.orc.inputs)} inputs kept in total")
    run_rows(rep, ctx, rows, tier)
    run_equiv(rep, ctx, rows, tier)
    for row in (rows[0], rows[len(rows) // 3], rows[len(rows) // 2], rows[-1]):
        rep.sample({"row": describe(row), "expect": row["expect"]})
    rep.extra["table_rows"] = len(rows)
    rep.extra["rows_per_class"] = {c: sum(1 for x in rows if x["cls"] == c) for c in order}
    rep.assumptions = [
        "scikit-learn's pairwise_kernels / pairwise_distances are the trusted meaning of 'the kernel / metric named'",
        "the (family, ovo) oracle is Gemini.tla on 22 grid inputs (shapes (2,3,6) and (3,2,4)) with integer affinities lin1, mix "
        "/ abs, disc; identification = equal to the expected pair within the C01 tolerance and not equal to any other pair",
        "affinity data: 7 x 3 non-negative quarter-integers (chi2 kernels need X >= 0); comparison bitwise or allclose rtol 1e-12",
        "equivalence runs: n_clusters=3, max_iter=3, learning_rate=0.25, batch_size None and 3, integer random_state; path with "
        "alpha_multiplier=2, min_features=1, max_patience=2, non-dynamic; Kauri with max_clusters 2..4",
        "registry names / gemini=None / bare constructors have no 'precomputed' twin: identified and affinity-checked only",
    ]
    return rep.finish()


def replay(path):
    blob = json.load(open(path))
    case = blob["case"]
    if "row" not in case:
        print("replaying the signature comparison")
        _, _, exposes, _ = fw.enumerate_table()
        bad = fw.signature_problems(exposes)
        print("\n".join(bad))
        return 1 if bad else 0
    row = case["row"]
    print("replaying", describe(row), case.get("part"), case.get("cfg", ""))
    rep = Report("C11", "quick")
    _, rows, _, _ = fw.enumerate_table(classes=[row["cls"]])
    rows = [x for x in rows if fw.row_key(x) == fw.row_key(row)]
    ctx = Ctx("quick")
    ctx.orc = fw.Oracle()
    for x in rows:
        check_row(rep, ctx, x)
        cfg = case.get("cfg")
        if cfg and "max_clusters" in cfg:
            check_equiv_kauri(rep, x, fw.data(cfg["n"], cfg["d"], seed=_seed_of(cfg)), cfg["seed"], cfg["max_clusters"])
        elif cfg:
            check_equiv(rep, x, fw.data(cfg["n"], cfg["d"], seed=_seed_of(cfg)), cfg["seed"], cfg["batch_size"], True, set())
    for desc, _ in rep.violations:
        print("  ", desc[:400])
    return 1 if rep.violations else 0


def _seed_of(cfg):
    return {(8, 3): 10, (9, 4): 11, (12, 2): 12, (10, 2): 20, (7, 4): 21}[(cfg["n"], cfg["d"])]
