"""C13 - GEMINI scores obey their invariances and bounds.
In the spec (exact arithmetic, TLC invariants): canonical value bags invariant under every sample/cluster permutation;
zero score when predictions do not depend on the sample (chi-square: 1/2); MI = log K on balanced hard partitions;
TV <= 1, rational scores >= 0.  Binding: the same relations, plus closed-simplex values, finiteness, the empty-cluster
rule and gradient permutation, on the real code for every enumerated case."""
import itertools, json
import numpy as np
from vf import gem
from vf.report import Report

THEOREMS = ("Emit", "PermInv", "ZeroWhenIndependent", "MILogK")
# (shape, closed, fraction, invariants)
QUICK = [((2, 2, 4), False, 1.0, THEOREMS), ((2, 2, 4), True, 1.0, THEOREMS), ((2, 3, 6), False, 0.34, THEOREMS),
         ((3, 2, 2), True, 1.0, THEOREMS), ((2, 3, 3), True, 1.0, THEOREMS), ((4, 2, 2), True, 1.0, ("Emit", "ZeroWhenIndependent", "MILogK")),
         ((3, 3, 3), True, 0.15, ("Emit", "ZeroWhenIndependent", "MILogK")), ((3, 3, 6), False, 0.05, ("Emit", "ZeroWhenIndependent"))]
THOROUGH = [((2, 2, 4), False, 1.0, THEOREMS), ((2, 2, 4), True, 1.0, THEOREMS), ((2, 3, 6), False, 1.0, THEOREMS),
            ((3, 2, 4), False, 1.0, THEOREMS), ((3, 2, 2), True, 1.0, THEOREMS), ((2, 3, 3), True, 1.0, THEOREMS),
            ((4, 2, 2), True, 1.0, THEOREMS), ((3, 3, 3), True, 1.0, THEOREMS), ((3, 3, 6), False, 0.25, THEOREMS),
            ((2, 4, 4), True, 1.0, ("Emit", "ZeroWhenIndependent", "MILogK")), ((3, 4, 4), True, 0.1, ("Emit", "ZeroWhenIndependent", "MILogK")), ((4, 4, 2), True, 0.1, ("Emit", "ZeroWhenIndependent", "MILogK")),
            ((6, 3, 1), True, 1.0, ("Emit", "ZeroWhenIndependent", "MILogK")), ((6, 2, 1), True, 1.0, ("Emit", "MILogK"))]
ALL = None


def names13():
    from gemclus.gemini._utils import AVAILABLE_GEMINIS
    return list(AVAILABLE_GEMINIS)


def default_aff(name, x):
    if name.startswith("mmd"):
        return gem.kern("lin1", x)
    if name.startswith("wasserstein"):
        return gem.metr("abs", x)
    return None


def check_case(rep, case, closed, stats, max_perms):
    from gemclus.gemini._utils import _str_to_gemini
    n, k, q = case["n"], case["k"], case["q"]
    a = np.array(case["a"])
    P = a.astype(float) / q
    x = case["x"]
    cdesc = f"n={n} K={k} P={case['a']}/{q} x={x}"
    rows_equal = bool(np.all(a == a[0]))
    stats["rows_equal"] += rows_equal
    onehot = bool(np.all((a == q).sum(1) == 1))
    balanced = onehot and len(set((a == q).sum(0).tolist())) == 1
    stats["balanced"] += balanced
    stats["empty_cluster"] += bool(np.any(a.sum(0) == 0))
    # 1. spec value vs code value (closed simplex extends C01 to the boundary, including empty clusters)
    for res in case["base"]:
        name, aff = res["name"], res["aff"]
        expected = gem.bag_eval(res["v"])
        A = gem.affinity(name, aff, x)
        tol = gem.tol_value(res)
        if closed:
            tol = 2e-5 if name.startswith("hellinger") else max(tol, 1e-8)   # clipping at 1e-12: sqrt(1e-12 pi) ~ 1e-6
        for label, g in gem.code_instances(name)[:1]:
            # the same object is first asked with single-precision predictions: allowed to be less accurate, not allowed to
            # leave anything behind that changes the double-precision answer below
            try:
                v32 = float(g(P.astype(np.float32), None if A is None else A.copy()))
                if not (abs(v32 - expected) <= 1e-3 * max(1.0, abs(expected))) and not closed:
                    rep.violation(f"{cdesc}: {name}[{aff}] on float32 predictions: {v32!r} vs spec {expected!r}",
                                  {"case": _c(case), "name": name, "aff": aff}, tags=(name, "float32"))
            except Exception as e:
                rep.violation(f"{cdesc}: {name}[{aff}] on float32 predictions raised {type(e).__name__}: {e}",
                              {"case": _c(case), "name": name, "aff": aff}, tags=(name, "float32", "raises"))
            got = float(g(P.copy(), None if A is None else A.copy()))
            rep.case((n, k, q, case["a"], x, name, aff, closed))
            if not (abs(got - expected) <= tol * max(1.0, abs(expected))):
                rep.violation(f"{cdesc}: {name}[{aff}] code={got!r} spec={expected!r} (closed={closed})",
                              {"case": _c(case), "closed": closed, "name": name, "aff": aff}, tags=(name, "value"))
            if balanced and name == "kl_ova" and not abs(got - np.log(k)) < 1e-8:
                rep.violation(f"{cdesc}: MI of a balanced hard partition is {got!r}, not log K", {"case": _c(case)}, tags=(name, "logK"))
    kinky = {(r["name"], r["aff"]): r["z"] for r in case["base"]}
    # 2. bounds and finiteness through the 13 registry names
    vals, grads, snaps = {}, {}, {}
    for name in names13():
        A = default_aff(name, x)
        g = _inst(name)
        v, G = g(P.copy(), None if A is None else A.copy(), return_grad=True)
        v = float(v)
        vals[name], grads[name] = v, np.asarray(G, dtype=float)
        snaps[name] = (G, np.array(G, dtype=float, copy=True))
        probs = []
        if not np.isfinite(v) or not np.all(np.isfinite(G)):
            probs.append(f"non-finite score/gradient ({v})")
        lo = 0.5 if name.startswith("chi2") else 0.0
        if v < lo - 1e-7:
            probs.append(f"score {v!r} below its lower bound {lo}")
        if (name.startswith("tv") or name.startswith("hellinger")) and v > 1 + 1e-9:
            probs.append(f"score {v!r} exceeds 1")
        if rows_equal and abs(v - lo) > (2e-5 if closed else 1e-9):
            probs.append(f"predictions independent of the sample but score {v!r} != {lo}")
        rep.case((n, k, q, case["a"], x, name, "bounds", closed))
        for pr in probs:
            rep.violation(f"{cdesc}: {name}: {pr}", {"case": _c(case), "closed": closed, "name": name}, tags=(name, "bounds"))
    # 2b. a hard partition given as an integer or boolean indicator matrix is the same predictions matrix
    if onehot:
        for name in names13():
            A = default_aff(name, x)
            g = _inst(name)
            for dt in (np.int64, bool):
                rep.case((n, k, q, case["a"], x, name, "dtype", str(dt)))
                try:
                    v = float(g((a == q).astype(dt), None if A is None else A.copy()))
                    okv = abs(v - vals[name]) <= 1e-9 * max(1.0, abs(vals[name]))
                    msg = f"score {v!r} vs {vals[name]!r} for float64"
                except Exception as e:
                    okv, msg = False, f"raised {type(e).__name__}: {e}"
                if not okv:
                    rep.violation(f"{cdesc}: {name} on the same one-hot predictions given with dtype {np.dtype(dt)}: {msg}",
                                  {"case": _c(case), "name": name, "dtype": str(np.dtype(dt))}, tags=(name, "dtype"))
    # 3. permutations (code vs code)
    perms = list(itertools.product(itertools.permutations(range(n)), itertools.permutations(range(k))))[1:]
    if len(perms) > max_perms:
        perms = [perms[i] for i in stats["rnd"].sample(range(len(perms)), max_perms)]
    for sg, tau in perms:
        sg, tau = list(sg), list(tau)
        Pp = P[sg][:, tau]
        xp = [x[i] for i in sg]
        for name in names13():
            A = default_aff(name, xp)
            g = _inst(name)
            v, G = g(Pp.copy(), None if A is None else A.copy(), return_grad=True)
            rep.case((n, k, q, case["a"], x, name, "perm", tuple(sg), tuple(tau)))
            tolv = 2e-6 if name.startswith("mmd") else 1e-9
            if not abs(float(v) - vals[name]) <= tolv * max(1, abs(vals[name])):
                rep.violation(f"{cdesc}: {name} not invariant under samples->{sg} clusters->{tau}: {vals[name]!r} vs {float(v)!r}",
                              {"case": _c(case), "name": name, "sigma": sg, "tau": tau}, tags=(name, "perm"))
            aff = "lin1" if name.startswith("mmd") else "abs" if name.startswith("wasserstein") else ""
            if not kinky.get((name, aff), True) and not closed:
                Gexp = grads[name][sg][:, tau]
                if not np.allclose(np.asarray(G), Gexp, rtol=1e-6, atol=1e-8):
                    rep.violation(f"{cdesc}: gradient of {name} is not permuted with samples->{sg} clusters->{tau}",
                                  {"case": _c(case), "name": name, "sigma": sg, "tau": tau}, tags=(name, "perm-grad"))
    # 4. adding an empty cluster changes nothing and gets zero gradient
    Pe = np.concatenate([P, np.zeros((n, 1))], axis=1)
    for name in names13():
        if name in ("kl_ovo", "chi2_ovo") :
            # comparing a cluster with an empty one: these divergences are infinite for disjoint supports; the code's
            # clipping at 1e-12 makes them finite but the limit statement is only meaningful for the other GEMINIs
            continue
        A = default_aff(name, x)
        g = _inst(name)
        v, G = g(Pe.copy(), None if A is None else A.copy(), return_grad=True)
        G = np.asarray(G)
        rep.case((n, k, q, case["a"], x, name, "empty"))
        tolv = 2e-5 if name.startswith("hellinger") else 2e-6 if name.startswith("mmd") else 1e-8
        if not abs(float(v) - vals[name]) <= tolv * max(1, abs(vals[name])):
            rep.violation(f"{cdesc}: {name} changes from {vals[name]!r} to {float(v)!r} when an empty cluster is added",
                          {"case": _c(case), "name": name}, tags=(name, "empty"))
        if not np.all(G[:, -1] == 0):
            rep.violation(f"{cdesc}: {name}: the empty cluster receives gradient {G[:, -1].tolist()}",
                          {"case": _c(case), "name": name}, tags=(name, "empty-grad"))
    # the gradient returned for P is a value: later evaluations of the same objective object (other permutations, one more
    # cluster) must not have rewritten it, or the comparisons above would compare an array with itself
    for name, (Gret, Gcopy) in snaps.items():
        rep.case((n, k, q, case["a"], x, name, "alias"))
        if not np.array_equal(np.asarray(Gret, dtype=float), Gcopy):
            rep.violation(f"{cdesc}: the gradient array {name} returned for P was overwritten by a later evaluation of the same GEMINI "
                          f"object: the 'gradient permuted accordingly' it is compared with is no longer the gradient at P",
                          {"case": _c(case), "name": name}, tags=(name, "alias"))


_INST = {}


def _inst(name):
    """One GEMINI object per name for the whole run: a model evaluates the same object batch after batch."""
    if name not in _INST:
        from gemclus.gemini._utils import _str_to_gemini
        _INST[name] = _str_to_gemini(name)
    return _INST[name]


def _c(case):
    return {kk: case[kk] for kk in ("n", "k", "q", "a", "x")}


def run(tier):
    import random
    rep = Report("C13", tier)
    rep.rule = ("TLC enumerates count matrices on the open and closed simplex grids x point sets and checks the "
                "invariance/bound theorems in exact arithmetic; each case is then run through the code: value vs spec, "
                "bounds, finiteness, all (or sampled) sample x cluster permutations, empty-cluster extension")
    stats = {"rows_equal": 0, "balanced": 0, "empty_cluster": 0, "rnd": random.Random(gem.SEED)}
    plan = QUICK if tier == "quick" else THOROUGH
    for shape, closed, frac, invs in plan:
        r, nch = gem.enumerate_cases(shape, closed=closed, frac=frac, invariants=invs, timeout=3000)
        if r.violated:
            rep.violation(f"spec theorem {r.violated} fails in Gemini.tla for shape {shape}: the oracle itself is wrong",
                          {"shape": shape, "trace": r.trace[:3000]}, tags=("spec",))
        rep.add_tlc("Gemini", r, note=f"shape={shape} closed={closed} chunks={nch} invariants={','.join(invs)}")
        for ci, case in enumerate(r.prints):
            check_case(rep, case, closed, stats, max_perms=6 if tier == "quick" else 10)
            if not closed and ci % (50 if tier == "quick" else 20) == 3:
                # sample-reordering invariance at N in the hundreds: the replicated, shuffled problem keeps the exact value
                from checks import c01
                c01.replicated(rep, case, ci)
        if r.prints:
            c = r.prints[len(r.prints) // 2]
            rep.sample({"shape": list(shape), "closed": closed, "a": c["a"], "x": c["x"]})
    for kname in ("rows_equal", "balanced", "empty_cluster"):
        rep.extra["cases_" + kname] = stats[kname]
        if stats[kname] == 0:
            from vf.common import MachineryError
            raise MachineryError(f"vacuous run: no enumerated case had {kname}")
    rep.assumptions = ["closed-simplex comparisons allow for the library's clipping at epsilon=1e-12 (2e-5 for Hellinger, "
                       "whose sqrt turns 1e-12 into 1e-6)",
                       "gradient permutation is asserted only where the spec reports no kink (no TV tie, no zero MMD, unique "
                       "Kantorovich potential); KL-OvO / chi2-OvO are excluded from the empty-cluster rule (infinite divergence)"]
    return rep.finish()


def replay(path):
    blob = json.load(open(path))
    print(json.dumps(blob, indent=1)[:3000])
    return 1
