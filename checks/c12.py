"""C12 - Fitting is reproducible, history-independent and free of side effects.
TLC explores every history of public calls on one estimator object (spec/Lifecycle.tla: fit, fit_predict, a rejected
fit, predict, predict_proba, score, set_params, path, clone; two configurations, two datasets) up to a length bound and
prints each history that ends in a successful fit / fit_predict / path together with the provenance
<<kind, configuration, data>> of the final model.  Every printed history (all short ones, a seeded stratified sample of
the long ones) is replayed on a FRESH real estimator of each of the 18 classes; histories with the same provenance must
leave bitwise-equal models (fitted attributes, predictions, path() return value).  After every single call the caller's
arrays, get_params() and the clone / constructor / set_params round trips are checked (vf/lifecycle.py)."""
import json, random
from collections import defaultdict
from vf import tlc, params as P, lifecycle as L
from vf.common import SEED, MachineryError
from vf.report import Report

INVARIANTS = ["TypeOK", "OnlySetParamsChangesParams", "Provenance", "HistoryIndependent", "ReadersNeedAModel",
              "PathOnlyWhenOffered", "Emit"]
PER_CLASS = {"quick": (360, 220), "thorough": (3000, 1500)}      # replayed histories per class (without / with path)
MAXLEN = {"quick": 4, "thorough": 5}
CAP = 3                                                           # violations reported per (class, kind)


def short(hist):
    return " > ".join(f"{c['op']}({c['arg']})" for c in hist)


def enumerate_histories(rep, tier):
    out = {}
    for haspath in (False, True):
        r = tlc.run("Lifecycle", tlc.cfg(constants={"MAXLEN": MAXLEN[tier], "HASPATH": haspath}, invariants=INVARIANTS,
                                         constraint="Bounded"), timeout=900, coverage=True)
        if r.violated:
            raise MachineryError(f"Lifecycle: spec-internal theorem {r.violated} violated\n{r.trace[:1500]}")
        for a in ("Fit", "FitPredict", "FitBad", "Predict", "PredictProba", "Score", "SetParams", "Clone") + (("Path",) if haspath else ()):
            if r.coverage.get(a, (0, 0))[0] == 0:
                raise MachineryError(f"Lifecycle: action {a} never produced a new state")
        rep.add_tlc("Lifecycle", r, note=f"HASPATH={haspath} MAXLEN={MAXLEN[tier]}: {r.distinct} histories, "
                                         f"{len(r.prints)} end in a successful fit/path")
        hs = sorted(r.prints, key=lambda p: (len(p["hist"]), json.dumps(p["hist"], sort_keys=True)))
        if len({json.dumps(p["hist"], sort_keys=True) for p in hs}) != len(hs):
            raise MachineryError("Lifecycle printed a history twice")
        out[haspath] = hs
    return out


def select(hs, n, rnd):
    """all histories of at most 2 calls; of the longer ones a seeded sample, the same number per final model; every
    final model is represented by at least two histories"""
    keep = [h for h in hs if len(h["hist"]) <= 2]
    by_final = defaultdict(list)
    for h in hs:
        if len(h["hist"]) > 2:
            by_final[tuple(h["final"])].append(h)
    finals = sorted({tuple(h["final"]) for h in hs})
    quota = max(2, (n - len(keep)) // max(1, len(finals)))
    for f in finals:
        pool = by_final[f]
        keep += pool if len(pool) <= quota else rnd.sample(pool, quota)
    keep.sort(key=lambda p: (len(p["hist"]), json.dumps(p["hist"], sort_keys=True)))
    cnt = defaultdict(int)
    for h in keep:
        cnt[tuple(h["final"])] += 1
    if any(cnt[f] < 2 for f in finals):
        raise MachineryError(f"a final model is represented by fewer than two histories: {dict(cnt)}")
    return keep


class Capped:
    """at most CAP violations per (class, kind) reach the report; the others are counted"""

    def __init__(self, rep):
        self.rep, self.n, self.suppressed = rep, defaultdict(int), defaultdict(int)

    def __call__(self, name, tags, desc, replay):
        kind = "/".join(tags[:2])
        key = (name, kind)
        self.n[key] += 1
        if self.n[key] > CAP:
            self.suppressed[f"{name}:{kind}"] += 1
            return
        self.rep.violation(f"{name}: {desc}", dict(replay, estimator=name), tags=tuple(tags) + (name,))


def compare(name, h, out, ref_h, ref_out, buf, viol):
    """histories the spec equates must leave equal models"""
    d = L.first_diff(ref_out.fp, out.fp) or L.first_diff(ref_out.ret, out.ret, "path() return value")
    if d is None:
        return
    where, what, rel = d
    tags = ["history-dependent", h[-1]["op"]]
    note = ""
    if any(c["op"] == "path" for c in h[:-1]) or any(c["op"] == "path" for c in ref_h[:-1]):
        healed, healed_ref = L.replay(name, h, buf, heal_alpha=True), L.replay(name, ref_h, buf, heal_alpha=True)
        if healed.fp is not None and not (L.first_diff(healed_ref.fp, healed.fp) or L.first_diff(healed_ref.ret, healed.ret)):
            tags = ["path-mutates-alpha", "history-dependent", h[-1]["op"]]
            note = " [explained by alpha: equal again when the hyperparameter alpha is put back after each earlier path()]"
    if L.tiny(rel):
        tags.append("rounding-sized")
        note += " [relative size <= 1e-12: could be floating-point reassociation, reported all the same]"
    viol(name, tags, f"same final model <<{L.KIND(h[-1]['op'])}, {h[-1]['p']}, {h[-1]['arg']}>> "
                     f"but different results: [{short(ref_h)}] vs [{short(h)}]: {where}: {what}{note}",
         {"hist": h, "ref_hist": ref_h, "kind": "compare"})


def run_class(rep, name, hs, buf, viol, counters):
    groups = {}
    for item in hs:
        h, final = item["hist"], tuple(item["final"])
        if final != (L.KIND(h[-1]["op"]), h[-1]["p"], h[-1]["arg"]):
            raise MachineryError(f"unexpected final {final} for {short(h)}")
        out = L.replay(name, h, buf)
        rep.case((name, short(h)))
        for e in out.observer_errors:
            counters["observer_call_raised"][f"{name}:{e}"] += 1
        for e in out.fit_errors:
            counters["fit_or_path_raised"][f"{name}:{e}"] += 1
        for tags, desc in out.problems:
            viol(name, list(tags), f"[{short(h)}] {desc}", {"hist": h, "kind": "single"})
        if out.fp is None:
            continue
        if final not in groups:
            groups[final] = (h, out)
        else:
            compare(name, h, out, groups[final][0], groups[final][1], buf, viol)
        counters["group_sizes"][f"{name}:{'/'.join(final)}"] += 1
    # different provenance must be able to give a different model, otherwise the comparison above is vacuous
    fps = list(groups.items())
    for i in range(len(fps)):
        for j in range(i + 1, len(fps)):
            if "raised" in fps[i][1][1].fp or "raised" in fps[j][1][1].fp:
                continue
            if L.first_diff(fps[i][1][1].fp, fps[j][1][1].fp) is None:
                raise MachineryError(f"{name}: finals {fps[i][0]} and {fps[j][0]} give identical models - configurations too similar")


def extras(rep, buf, viol):
    """(1) a model decorated by add_mlcl_constraint, fitted repeatedly on the same object; (2) path() that never enters
    its loop (min_features >= n_features) must leave the hyperparameters alone as well"""
    def H(*calls):
        return [dict(op=o, arg=a, p="c1") for o, a in calls]
    for name in ("LinearMMD", "MLPModel", "SparseLinearModel", "CategoricalMMD", "Douglas", "RIM"):
        ref_h = H(("fit", "D1"))
        ref = L.replay(name, ref_h, buf, decorate=True)
        plain = L.replay(name, ref_h, buf)
        if ref.fp is None or plain.fp is None or L.first_diff(ref.fp, plain.fp) is None:
            raise MachineryError(f"{name}: the must-link / cannot-link decoration has no effect on the tiny fit")
        for h in (H(("fit", "D1"), ("fit", "D1")), H(("fit", "D2"), ("predict", "D1"), ("fit", "D1")),
                  H(("fit_predict", "D1"), ("score", "D1"), ("fit_bad", ""), ("fit_predict", "D1"))):
            out = L.replay(name, h, buf, decorate=True)
            rep.case((name, "mlcl", short(h)))
            for tags, desc in out.problems:
                if tags[0] != "roundtrip":                    # a clone is by construction not decorated
                    viol(name, list(tags) + ["mlcl"], f"[mlcl-decorated; {short(h)}] {desc}", {"hist": h, "kind": "mlcl"})
            d = out.fp is not None and L.first_diff(ref.fp, out.fp)
            if d:
                viol(name, ["history-dependent", "mlcl"], f"mlcl-decorated model: [{short(ref_h)}] vs [{short(h)}] differ: {d[0]}: {d[1]}",
                     {"hist": h, "ref_hist": ref_h, "kind": "mlcl"})
    for name in L.SPARSE:
        est = P.resolve(name)(**L.SPECS[name]["c1"]())
        y = buf.aff(L.SPECS[name]["aff"]["c1"], "D1")
        with P.quiet():
            est.path(buf.X["D1"], y, min_features=3)
        rep.case((name, "path(min_features=n_features)"))
        d = L.params_diff(est.get_params(), L.config(name, "c1"))
        if d:
            tags = ["path-mutates-alpha", "path-without-steps", "params-changed", "path"] if d == ["alpha"] else ["params-changed", "path"] + d
            viol(name, tags, f"after path(D1, min_features=3) (no regularisation step runs) get_params() differs on "
                             + ", ".join(f"{k}: got {L.show(est.get_params()[k])}, expected {L.show(L.config(name, 'c1')[k])}" for k in d),
                 {"kind": "path-noop"})
        if buf.modified():
            viol(name, ["input-modified", "path"], "path(min_features=3) wrote to the caller's buffers", {"kind": "path-noop"})


def run(tier):
    rep = Report("C12", tier)
    rep.rule = ("TLC enumerates all call histories of length <= MAXLEN over {fit,fit_predict,predict,predict_proba,score}(D1|D2), "
                "rejected fit, set_params(c1|c2), clone and (sparse models) path(D1|D2); a case is one (estimator class, history "
                "ending in a successful fit/fit_predict/path) replayed on a fresh real estimator: all histories of <= 2 calls plus a "
                "seeded sample of the longer ones, equally many per final model <<kind,configuration,data>>; every case is compared "
                "bitwise with the shortest history of the same final model, and checked after each of its calls for untouched "
                "caller buffers, get_params() = the spec's configuration, and clone/constructor/set_params round trips")
    hists = enumerate_histories(rep, tier)
    buf = L.Buffers()
    viol = Capped(rep)
    counters = {"observer_call_raised": defaultdict(int), "group_sizes": defaultdict(int), "fit_or_path_raised": defaultdict(int)}
    n_plain, n_path = PER_CLASS[tier]
    for name in P.ESTIMATORS:
        if name not in L.SPECS:
            raise MachineryError(f"no C12 configurations for estimator {name}")
        sparse = name in L.SPARSE
        chosen = select(hists[sparse], n_path if sparse else n_plain, random.Random(f"C12-{SEED}-{name}"))
        run_class(rep, name, chosen, buf, viol, counters)
        if len(rep.samples) < 4 and chosen:
            h = chosen[len(chosen) // 2]
            rep.sample({"estimator": name, "history": short(h["hist"]), "final": h["final"],
                        "expected_get_params_after_each_call": [c["p"] for c in h["hist"]]})
    extras(rep, buf, viol)
    rep.exhaustive = False
    rep.extra["classes"] = len(P.ESTIMATORS)
    rep.extra["histories_per_final_model"] = {"min": min(counters["group_sizes"].values()), "max": max(counters["group_sizes"].values()),
                                               "final_models": len(counters["group_sizes"])}
    rep.extra["observer_calls_that_raised"] = dict(counters["observer_call_raised"])
    rep.extra["valid_fit_or_path_calls_that_raised"] = dict(counters["fit_or_path_raised"])
    rep.extra["violations_not_listed_individually"] = dict(viol.suppressed)
    rep.assumptions = [
        "two configurations and two float64 datasets (8x3, 7x3) per class stand for 'all configurations / datasets'; c1 uses a "
        "precomputed affinity wherever the class supports one, batch_size 4, adam; c2 a named/callable affinity, batch_size None, sgd, "
        "another n_clusters / random_state; path() is always called with alpha_multiplier=2, min_features=1, max_patience=2",
        "equality of models is bitwise (np.array_equal with NaN == NaN, same dtype and shape) - no tolerance was needed: one process, "
        "one BLAS thread, identical shapes; a difference of relative size <= 1e-12 would still be reported (tag rounding-sized)",
        "the fingerprint is every public attribute ending in '_' that is data (arrays, scalars, nested lists, the Kauri Tree) plus "
        "predict / predict_proba on the training data; the optimiser object is not part of it",
        "predict / predict_proba / score calls inside a history that raise (e.g. a Categorical model scored on data of another "
        "size, or calls after set_params changed the objective) are counted, not judged: success of those calls belongs to C04/C16",
        "a fit / path on valid data that raises is not judged here either (C04/C07): as the last call of a history its exception is "
        "the outcome and must be the same for all histories with that final model; earlier in a history it counts as a failed fit",
        "a rejected fit is a NaN in X, or - for configurations with a precomputed affinity - the missing affinity matrix "
        "(fails after validation); nothing is asserted about the state right after it, only about later fits",
        "callable hyperparameters are module-level functions (identity survives deepcopy); integer random_state only",
        f"at most {CAP} violations per (class, kind) are listed individually, the rest are counted in the evidence file"]
    return rep.finish()


def replay(path):
    blob = json.load(open(path))
    case = blob["case"]
    name = case["estimator"]
    buf = L.Buffers()
    print("replaying", name, case.get("kind"), short(case.get("hist", [])))
    bad = 0
    if case.get("kind") == "path-noop":
        rep = Report("C12", "quick")
        extras(rep, buf, Capped(rep))
        for desc, _ in rep.violations:
            print(" ", desc[:400])
        return 1 if rep.violations else 0
    out = L.replay(name, case["hist"], buf, decorate=case.get("kind") == "mlcl")
    for tags, desc in out.problems:
        print(" ", tags, desc[:400])
        bad += 1
    if "ref_hist" in case:
        ref = L.replay(name, case["ref_hist"], buf, decorate=case.get("kind") == "mlcl")
        d = L.first_diff(ref.fp, out.fp) or L.first_diff(ref.ret, out.ret, "path() return value")
        if d:
            print(f"  [{short(case['ref_hist'])}] vs [{short(case['hist'])}]: {d[0]}: {d[1]}")
            bad += 1
    return 1 if bad else 0
