"""C07 - The regularisation path honours its stopping, history and best-weights contract.
(1) TLC model-checks Path (PathMC): histories aligned, last count <= min_features unless NaN, best-weights rule equal to an
    independent recomputation from the histories, and termination (liveness) under the stated environment assumption.
(2) exact mode: real path() runs of SparseLinearModel / SparseMLPModel driven by a scripted GEMINI instance (integer scores,
    NaN, zero gradient) over argument grids (defaults for out-of-range arguments included) are recorded at every
    compute_val_score call and validated against PathTrace, which recomputes every comparison from the integer scores.
(3) float mode: real-GEMINI path() runs of all five sparse estimators, structural clauses.
(4) termination on the real code under a generous call budget, including alpha = 0."""
import json, random, warnings
import numpy as np
from vf import tlc, trace, train, path
from vf.common import SEED, NCPU, MachineryError
from vf.report import Report

NOT_OWN = {"flags_sel", "flags_finite"}          # C06 / C17 own these clauses


def exact_runs(rep, tier, rnd, traces, meta):
    from gemclus.sparse import SparseLinearModel, SparseMLPModel
    nruns = 60 if tier == "quick" else 400
    for r in range(nruns):
        cls = rnd.choice([SparseLinearModel, SparseMLPModel])
        n, d = rnd.choice([(5, 3), (6, 4), (4, 2)])
        X = train.make_data(n, d, rnd)
        L = rnd.choice([6, 12, 40])
        script = [rnd.choice([0, 1, 2, 3, 3, 2]) for _ in range(L)]
        if rnd.random() < 0.2:
            script[rnd.randrange(1, L)] = None                       # NaN somewhere after the initial score
        script = script + [script[-1] if script[-1] is not None else 1] * 4000
        keep = rnd.choice([(0, 1), (1, 2), (3, 4), (1, 1), (-1, 1), (2, 1)])
        esf = rnd.choice([(1, 2), (1, 1), (3, 4)])
        mult = rnd.choice([2.0, 1.5, 4.0, 1.0, 0.5])
        minf = rnd.choice([-1, 0, 1, 1, 2, d - 1, d, d + 1])
        args = dict(alpha_multiplier=mult, min_features=minf, keep_threshold=keep[0] / keep[1], early_stopping_factor=esf[0] / esf[1],
                    max_patience=rnd.choice([1, 2, 3]), restore_best_weights=rnd.choice([True, False]))
        kw = dict(n_hidden_dim=3, M=rnd.choice([0.5, 2, 10])) if cls is SparseMLPModel else {}
        groups = rnd.choice([None, None, [[0, 1]]])
        m = cls(n_clusters=2, gemini=path.scripted_gemini(script), max_iter=rnd.choice([1, 2, 3]), alpha=rnd.choice([0.25, 0.5, 1.0, 4.0]),
                learning_rate=rnd.choice([0.5, 0.25, 1.0]), batch_size=rnd.choice([None, 2, 3, n]), dynamic=rnd.choice([False, False, True]),
                groups=groups, random_state=rnd.randint(0, 9), verbose=rnd.random() < 0.25, **kw)
        desc = dict(mode="exact", estimator=cls.__name__, n=n, d=d, script=[-1 if v is None else v for v in script[:L]], args=args,
                    alpha=m.alpha, lr=m.learning_rate, batch_size=m.batch_size, max_iter=m.max_iter, dynamic=m.dynamic, groups=groups)
        out = path.record_path(m, X, None, script=script, frac=dict(keep=keep, esf=esf), **args)
        rep.case(desc)
        if out["err"] is not None:
            tag = "nonterminating" if isinstance(out["err"], path.TooLong) else "raises"
            rep.violation(f"path raised {type(out['err']).__name__}: {out['err']} for {desc}", {"meta": desc}, tags=(tag,))
            continue
        traces.append(out["path"])
        meta.append(desc)


def first_step_removes(rep, tier, rnd, traces, meta):
    """Exact mode, a penalty so strong that the FIRST step of the path already removes a feature (but not all of them), with scores
    that keep rising afterwards: the only score obtained with all the features is the one of the initial fit, and a small legal alpha
    (below the documented default of 1e-2) on the same models: the alphas start at the model's alpha."""
    from gemclus.sparse import SparseLinearModel
    for r in range(6 if tier == "quick" else 40):
        n, d = rnd.choice([(5, 4), (6, 5)])
        X = train.make_data(n, d, rnd)
        lr = rnd.choice([0.5, 0.25])
        for seed in range(rnd.randint(0, 50), 400):          # initial weights (zero gradient, alpha=0: the initial fit leaves them as drawn)
            with warnings.catch_warnings():                   # with one row much smaller than the others
                warnings.simplefilter("ignore")
                dry = SparseLinearModel(n_clusters=2, gemini=path.scripted_gemini([1] * 50), max_iter=1, alpha=0, learning_rate=lr, random_state=seed).fit(X)
            norms = np.sort(np.linalg.norm(dry.W_, axis=1))
            if norms[0] < 0.12 * norms[1]:
                break
        small = r % 3 == 2
        alpha = rnd.choice([0.001, 0.002, 0.005]) if small else float(norms[0] * 1.05 / lr)
        L = 12
        script = [1] + sorted(rnd.choice([1, 2, 3, 4]) for _ in range(L // 2)) + [rnd.choice([1, 2, 3]) for _ in range(L // 2)]
        script = script + [script[-1]] * 4000
        keep = rnd.choice([(3, 4), (1, 1), (1, 2)])
        args = dict(alpha_multiplier=rnd.choice([1.25, 1.125]) if not small else 8.0, min_features=1, keep_threshold=keep[0] / keep[1], early_stopping_factor=0.5,
                    max_patience=1, restore_best_weights=True)
        m = SparseLinearModel(n_clusters=2, gemini=path.scripted_gemini(script), max_iter=1, alpha=alpha, learning_rate=lr, random_state=seed)
        desc = dict(mode="exact", scenario="small alpha" if small else "first step removes a feature", estimator="SparseLinearModel", n=n, d=d,
                    script=script[:L + 1], args=args, alpha=alpha, lr=lr, seed=seed)
        out = path.record_path(m, X, None, script=script, frac=dict(keep=keep, esf=(1, 2)), **args)
        rep.case(desc)
        if out["err"] is not None:
            tag = "nonterminating" if isinstance(out["err"], path.TooLong) else "raises"
            rep.violation(f"path raised {type(out['err']).__name__}: {out['err']} for {desc}", {"meta": desc}, tags=(tag,))
            continue
        ret = [e for e in out["path"] if e.get("e") == "ret"]
        rep.extra.setdefault("first_step_feature_counts", []).append([d] + (ret[0]["nfeat"][:3] if ret else []))
        traces.append(out["path"])
        meta.append(desc)


def float_runs(rep, tier, rnd, traces, meta):
    from gemclus.sparse import SparseLinearModel, SparseMLPModel, SparseLinearMMD, SparseMLPMMD, SparseLinearMI
    from gemclus.gemini import MMDGEMINI
    combos = [(SparseLinearModel, dict(gemini="mmd_ova")), (SparseLinearModel, dict(gemini="hellinger_ova")),
              (SparseLinearMMD, dict(kernel="linear")), (SparseLinearMMD, dict(kernel="precomputed", ovo=True)),
              (SparseLinearMI, {}), (SparseMLPModel, dict(gemini="wasserstein_ova", n_hidden_dim=4)),
              (SparseMLPModel, dict(gemini="tv_ovo", n_hidden_dim=3)), (SparseMLPMMD, dict(n_hidden_dim=4))]
    reps = 1 if tier == "quick" else 5
    for cls, kw in combos:
        for _ in range(reps):
            n, d = rnd.choice([(8, 4), (10, 5)])
            X = np.array([[rnd.gauss(0, 1) for _ in range(d)] for _ in range(n)])
            X[: n // 2, 0] += 3
            y = X @ X.T if kw.get("kernel") == "precomputed" else None
            args = dict(alpha_multiplier=rnd.choice([1.5, 2.0, 1.2]), min_features=rnd.choice([1, 2]), keep_threshold=rnd.choice([0.9, 0.5]),
                        early_stopping_factor=rnd.choice([0.99, 0.9]), max_patience=rnd.choice([2, 4]), restore_best_weights=rnd.choice([True, False]))
            m = cls(n_clusters=2, max_iter=rnd.choice([2, 4]), alpha=rnd.choice([0.01, 0.1]), learning_rate=0.05, batch_size=rnd.choice([None, 4]),
                    dynamic=(rnd.random() < 0.3 and cls is not SparseLinearMI), random_state=rnd.randint(0, 9), **kw) if cls is not SparseLinearMI else \
                cls(n_clusters=2, max_iter=rnd.choice([2, 4]), alpha=rnd.choice([0.01, 0.1]), learning_rate=0.05, batch_size=rnd.choice([None, 4]),
                    random_state=rnd.randint(0, 9))
            desc = dict(mode="float", estimator=cls.__name__, kw={k: str(v) for k, v in kw.items()}, n=n, d=d, args=args, alpha=m.alpha,
                        batch_size=m.batch_size, max_iter=m.max_iter, dynamic=m.dynamic)
            with warnings.catch_warnings():
                warnings.simplefilter("ignore")
                out = path.record_path(m, X, y, max_calls=20000, **args)
            rep.case(desc)
            if out["err"] is not None:
                tag = "nonterminating" if isinstance(out["err"], path.TooLong) else "raises"
                rep.violation(f"path raised {type(out['err']).__name__}: {out['err']} for {desc}", {"meta": desc}, tags=(tag,))
                continue
            traces.append(out["path"])
            meta.append(desc)


def alpha_zero(rep, rnd):
    """path() always terminates - also when the model's alpha is 0 (a legal hyperparameter value)."""
    from gemclus.sparse import SparseLinearModel
    X = train.make_data(5, 3, rnd)
    script = [2] * 10000
    m = SparseLinearModel(n_clusters=2, gemini=path.scripted_gemini(script), max_iter=1, alpha=0, learning_rate=0.5, random_state=0)
    with warnings.catch_warnings():
        warnings.simplefilter("ignore")
        out = path.record_path(m, X, None, script=script, frac=dict(keep=(1, 2), esf=(1, 2)), max_calls=3000, alpha_multiplier=2.0,
                               min_features=1, keep_threshold=0.5, early_stopping_factor=0.5, max_patience=1)
    rep.case("alpha=0")
    if isinstance(out["err"], path.TooLong):
        rep.violation("path() with alpha=0 does not terminate: alpha *= alpha_multiplier stays 0, no feature is ever removed "
                      "(stopped after 3000 validation-score evaluations)", {"alpha": 0}, tags=("nonterminating", "alpha-zero"))
    elif out["err"] is not None:
        rep.violation(f"path() with alpha=0 raised {type(out['err']).__name__}: {out['err']}", {"alpha": 0}, tags=("raises", "alpha-zero"))


def dynamic_all_removed(rep, rnd, traces, meta):
    """dynamic mode, a step that zeroes every remaining feature at once: path() must still terminate normally."""
    from gemclus.sparse import SparseLinearMMD, SparseMLPMMD, SparseLinearModel
    rs = np.random.RandomState(0)
    X = rs.randn(8, 3)
    X[:4] += 2
    for cls, kw in ((SparseLinearMMD, {}), (SparseMLPMMD, dict(n_hidden_dim=3)), (SparseLinearModel, dict(gemini="wasserstein_ova"))):
        for seed in range(3):
            m = cls(n_clusters=2, max_iter=3, alpha=0.5, learning_rate=0.3, dynamic=True, random_state=seed, **kw)
            args = dict(alpha_multiplier=3.0, min_features=1, max_patience=2)
            desc = dict(mode="float", estimator=cls.__name__, dynamic=True, scenario="all remaining features removed in one step", seed=seed, args=args)
            with warnings.catch_warnings():
                warnings.simplefilter("ignore")
                out = path.record_path(m, X, None, max_calls=20000, **args)
            rep.case(desc)
            if out["err"] is not None:
                rep.violation(f"path raised {type(out['err']).__name__}: {out['err']} for {desc}", {"meta": desc}, tags=("raises", "dynamic-empty-selection"))
                continue
            traces.append(out["path"])
            meta.append(desc)


def run(tier):
    rep = Report("C07", tier)
    rnd = random.Random(SEED)
    rep.rule = ("(1) exhaustive TLC exploration of PathMC (every score in 0..2 or NaN, every l1 comparison, every feature count after "
                "every epoch; d=2, <=2 outer steps, max_iter<=2, patience<=2) + liveness; (2)/(3) a case is one real path() run = "
                "(estimator, data, score script or real GEMINI, arguments); each yields one trace validated event by event")
    big = tier == "thorough"
    r = tlc.run("PathMC", tlc.cfg(constants=dict(D=2, MaxIter=2, MaxPat=2, MaxSteps=3 if big else 2, Scores={0, 1, 2}, LIVE=False),
                                  invariants=["HistoriesAligned", "LastCountSmall", "PatienceBounds", "BestWeightsRule", "Bound"], view="View"),
                workers=NCPU, timeout=6000)
    rep.add_tlc("PathMC", r, note="safety, exhaustive")
    if r.violated:
        rep.violation(f"Path specification violates {r.violated}", {"trace": r.trace[:3000]}, tags=("spec",))
    r = tlc.run("PathMC", tlc.cfg(spec="Spec", constants=dict(D=2, MaxIter=2, MaxPat=2, MaxSteps=2, Scores={0, 1}, LIVE=True),
                                  invariants=["HistoriesAligned", "Bound"], properties=["Terminates"]), workers=NCPU, timeout=6000)
    rep.add_tlc("PathMC", r, note="liveness <>done under weak fairness and the assumption that a large enough penalty zeroes every row")
    if r.violated:
        rep.violation(f"Path specification violates {r.violated}", {"trace": r.trace[:3000]}, tags=("spec",))
    traces, meta = [], []
    exact_runs(rep, tier, rnd, traces, meta)
    first_step_removes(rep, tier, rnd, traces, meta)
    float_runs(rep, tier, rnd, traces, meta)
    dynamic_all_removed(rep, rnd, traces, meta)
    alpha_zero(rep, rnd)
    if traces:
        res = trace.validate("PathTrace", traces, invariants=["HistoriesAligned", "LastCountSmall", "PatienceBounds"], timeout=3000)
        rep.add_tlc("PathTrace", res["result"], note=f"{len(traces)} traces")
        rep.traces += len(traces)
        steps = [v.get("steps", 0) for v in res["accepted"].values()]
        rep.extra["accepted_outer_steps_total"] = int(sum(steps))
        rep.extra["accepted_nan_aborts"] = int(sum(1 for v in res["accepted"].values() if v.get("nan")))
        for inv, tid in res["inv_violations"]:
            rep.violation(f"real path() violates {inv}: {meta[tid - 1] if tid else ''}", {"meta": meta[tid - 1] if tid else None}, tags=(inv,))
        for tid in res["rejected"]:
            if any(t == tid for _, t in res["inv_violations"]):
                continue
            dg = trace.diagnose("PathTrace", traces, tid)
            failing = [k for k, v in (dg["diag"] or {}).items() if v is False and not k.startswith("expected_")]
            if failing and set(failing) <= NOT_OWN:
                continue
            rep.violation(f"real path() is not a behaviour of Path: {meta[tid - 1]}; stuck at event #{dg['l']} {json.dumps(dg['event'])[:300]}; "
                          f"failing clauses {failing}; diag={dg['diag']}", {"meta": meta[tid - 1], "trace": traces[tid - 1][:60], "diag": dg},
                          tags=tuple(failing))
        rep.sample({"meta": meta[0], "events": traces[0][:5]})
    if tier == "thorough":
        from vf import repotests
        out = repotests.run_suite(select=["gemclus/tests/test_path.py"])
        rep.extra["repo_test_suite"] = out["summary"]
        for grp in repotests.groups(out["path"]):
            tr2 = [t["events"] for t in grp]
            res = trace.validate("PathTrace", tr2, invariants=["HistoriesAligned", "LastCountSmall", "PatienceBounds"], timeout=6000)
            rep.add_tlc("PathTrace", res["result"], note=f"{len(tr2)} path() traces recorded from the repository's own tests")
            rep.traces += len(tr2)
            for inv, tid in res["inv_violations"]:
                rep.violation(f"a path() performed by the repository's tests violates {inv}: {grp[tid - 1]['test'] if tid else ''}", {}, tags=(inv, "repo-tests"))
            for tid in res["rejected"]:
                if any(t == tid for _, t in res["inv_violations"]):
                    continue
                dg = trace.diagnose("PathTrace", tr2, tid)
                failing = [k for k, v in (dg["diag"] or {}).items() if v is False and not k.startswith("expected_")]
                if failing and set(failing) <= NOT_OWN:
                    continue
                rep.violation(f"a path() performed by the repository's tests ({grp[tid - 1]['test']}) is not a behaviour of Path: stuck at event "
                              f"#{dg['l']}, failing clauses {failing}", {"test": grp[tid - 1]["test"]}, tags=tuple(failing) + ("repo-tests",))
    rep.assumptions = ["max_patience >= 1 (undocumented below 1); exact mode uses dyadic keep_threshold / early_stopping_factor and integer "
                       "scores so every float comparison in _path is exact; in float mode the comparisons are mirrored by the recorder",
                       "recorder wraps the module attribute gemclus.sparse._base_sparse.compute_val_score and instance attributes (no source hook)"]
    return rep.finish()


def replay(path_):
    print(json.dumps(json.load(open(path_)), indent=1)[:4000])
    return 1
