"""C08 - KAURI gains are real objective increases and the chosen split is the best one.
spec -> code: TLC enumerates datasets x kernels x (max_clusters, min_samples_leaf) x every state reachable by ANY
admissible split (Kauri.tla), with the exact gain of every candidate; the real find_best_split (compiled extension and
the .pyx source interpreted) is asked for its pick in each state.  code -> spec: see C09 (KauriTrace)."""
import json, collections
from vf import kauri, build
from vf.report import Report
from vf.common import MachineryError

# (N, D, V, fraction of dataset chunks, ramp-only)
QUICK = [(3, 1, 2, 1.0, False), (4, 1, 3, 0.04, False), (5, 1, 3, 0.006, False), (4, 2, 1, 0.08, False), (5, 1, 0, 1.0, True)]
THOROUGH = [(3, 1, 2, 1.0, False), (4, 1, 3, 1.0, False), (5, 1, 3, 0.25, False), (4, 2, 1, 1.0, False), (4, 2, 2, 0.02, False),
            (6, 1, 3, 0.01, False), (5, 2, 1, 0.05, False), (5, 1, 0, 1.0, True), (6, 1, 0, 1.0, True)]


def judge_state(rep, case, kinds):
    """Every query of one enumerated state put to both executions of find_best_split; returns the number of disagreements between them."""
    stale = 0
    for q in case["queries"]:
        for cd in q["cands"]:
            kinds[cd["kind"]] += 1
        picks = {}
        for vname, mod in build.variants():
            pick = kauri.ask(mod, case, q)
            picks[vname] = pick
            rep.case((case["X"], case["kn"], case["kmax"], case["minleaf"], case["leafOf"], case["clOf"],
                      q["expl"], q["fsub"], vname), nontrivial=bool(q["cands"]))
            ok, desc, tags = kauri.judge(case, q, pick)
            if not ok:
                rep.violation(f"[{vname}] X={case['X']} kernel={case['kn']} max_clusters={case['kmax']} "
                              f"min_leaf={case['minleaf']} leafOf={case['leafOf']} clOf={case['clOf']} "
                              f"explore={q['expl']} features={q['fsub']}: {desc}",
                              {"case": {k: case[k] for k in case if k != "queries"}, "query": {"expl": q["expl"], "fsub": q["fsub"]},
                               "variant": vname, "pick": pick}, tags=tags + (vname,))
        if picks["compiled"] != picks["pyx"]:
            stale += 1
    return stale


# the recorded failing state of each known finding that the small grids of the quick tier do not reach: re-examined on every run
PROBES = [dict(X=[[0], [1], [2], [3], [4], [5]], kn="mix", kmax=4, minleaf=1, leafOf=[0, 0, 1, 2, 3, 4], clOf=[0, 1, 2, 3, 0], nL=5, nC=4)]


def run(tier):
    rep = Report("C08", tier)
    rep.rule = ("TLC enumerates (dataset on 0..V grid) x 4 kernels (linear, +identity, indefinite, precomputed) x "
                "max_clusters 1..4 x min_samples_leaf 1..2 x all intermediate states reachable by any admissible split; "
                "a case = (state, explorable-leaf variant, feature-subset variant, execution in {compiled, pyx}); "
                "non-trivial = the candidate table is non-empty")
    kinds = collections.Counter()
    stale = 0
    for (n, d, v, frac, ramp) in (QUICK if tier == "quick" else THOROUGH):
        r, nch = kauri.enumerate_states(n, d, v, frac=frac, ramp=ramp)
        if r.violated:
            rep.violation(f"spec theorem {r.violated} fails in Kauri.tla", {"trace": r.trace[:3000]}, tags=("spec",))
        rep.add_tlc("Kauri", r, note=f"N={n} D={d} V={v} chunks={nch} ramp={ramp}")
        for case in r.prints:
            stale += judge_state(rep, case, kinds)
        if r.prints:
            c = r.prints[len(r.prints) // 2]
            rep.sample({"X": c["X"], "kernel": c["kn"], "max_clusters": c["kmax"], "min_leaf": c["minleaf"],
                        "leafOf": c["leafOf"], "clOf": c["clOf"], "candidates": c["queries"][0]["cands"][:4]})
    for probe in PROBES:
        r = kauri.probe_state(probe)
        if r.violated:
            rep.violation(f"spec theorem {r.violated} fails in Kauri.tla on the probed state {probe}", {"trace": r.trace[:3000]}, tags=("spec",))
        rep.add_tlc("Kauri", r, note=f"probe of the recorded state {probe['leafOf']} / {probe['clOf']} (known finding C08-realloc-second-best)")
        for case in r.prints:
            stale += judge_state(rep, case, kinds)
    # code -> spec: real fits validated against KauriTrace (gain = increase, pick = best, score = root + sum of gains)
    import random
    from vf.common import SEED
    kauri.run_traces(rep, "C08", tier, random.Random(SEED + 8), budget=14 if tier == "quick" else 40)
    # spec -> code: the bookkeeping of the fit loop under an arbitrary (scripted) search: every kind of step, not only the best ones
    kauri.run_glue(rep, "C08", tier, random.Random(SEED + 18))
    rep.extra["candidate_kinds"] = dict(kinds)
    rep.extra["STALE-BUILD_disagreements_compiled_vs_pyx"] = stale
    for kind in ("star", "dstar", "switch", "realloc"):
        if kinds[kind] == 0:
            raise MachineryError(f"vacuous run: no {kind} candidate was enumerated")
    rep.assumptions = ["datasets on small integer grids (n<=6, d<=2), integer kernels so that gains are exact multiples of 1/lcm(1..n)",
                       "the compiled extension is the .so found in /repo (no Cython in the sandbox); the .pyx source is "
                       "exercised separately through a mechanical de-typing loader"]
    return rep.finish()


def replay(path):
    blob = json.load(open(path))
    print(json.dumps(blob, indent=1)[:4000])
    return 1
