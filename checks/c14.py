"""C14 - must-link / cannot-link constraints: exact validation, right samples, right sign.
(a) TLC enumerates every (ML, CL) pair of subsets of the unordered pairs over a non-contiguous id set, plus self pairs,
    with the verdict Accept(ML, CL) (spec/Mlcl.tla); each is presented to the real add_mlcl_constraint in three forms
    (orientations / order / container types).  (c) shape table.  (b) TLC enumerates batches (every ordered selection
    of the ids, and whole-data batches) x consistent constraint families x integer predictions/gradients x factors and
    computes the expected gradient exactly; the decorated `_batchify` (scripted RandomState) and `_compute_grads` of
    probe subclasses of the real families are run on float64 and on Fraction arrays and compared exactly.
Side check (Python only, labelled): real decorated fits, recorded indices = sample ids of the batch at every step."""
import json
from concurrent.futures import ThreadPoolExecutor
from collections import Counter, defaultdict
from fractions import Fraction
import numpy as np
from vf import mlcl
from vf.report import Report

# (ids, nch, fraction, theorems, forms in which each set is presented to the code)
ALLV, SHUF = mlcl.VARIANTS, mlcl.VARIANTS[2:]
ACCEPT = {"quick": [((0, 3, 7, 12), 64, 1.0, "all", ALLV), ((0, 1, 2, 3), 64, 1.0, "none", SHUF)],
          "thorough": [((0, 3, 7, 12), 64, 1.0, "all", ALLV), ((0, 1, 2, 3), 64, 1.0, "all", ALLV),
                       ((5, 41, 100, 1000), 64, 1.0, "all", ALLV), ((0, 3, 7, 12, 20), 64, 1 / 16, "none", SHUF),
                       ((1, 2, 4, 8, 9), 64, 1 / 32, "none", SHUF)]}
SELF = {"quick": [((0, 3, 7, 12), 16, 1)], "thorough": [((0, 3, 7, 12), 16, 2), ((0, 3, 7, 12, 20), 16, 1)]}
# (ids, nch, fraction, K, FAMMAX, NV, NFAC, theorems)
INJECT = {"quick": [((0, 3, 7, 12), 64, 1.0, 2, 2, 2, 3, "some")],
          "thorough": [((0, 3, 7, 12), 64, 1.0, 2, 2, 3, 4, "some"), ((0, 3, 7, 12), 64, 0.25, 3, 3, 2, 4, "some"),
                       ((1, 2, 5, 9, 4), 64, 0.125, 2, 2, 2, 3, "some")]}
CAP = 12          # replay files written per distinct tag tuple (smallest cases first); totals go to the evidence


class Findings:
    """Collects disagreements; reports the smallest CAP per tag tuple (every tag tuple is always reported)."""

    def __init__(self):
        self.items = []

    def add(self, size, desc, replay, tags):
        self.items.append((size, desc, replay, tuple(tags)))

    def flush(self, rep):
        self.items.sort(key=lambda t: (t[0], t[1]))
        per = Counter()
        totals = Counter()
        for size, desc, replay, tags in self.items:
            totals["+".join(tags)] += 1
            if per[tags] < CAP:
                per[tags] += 1
                rep.violation(desc, replay, tags=tags)
        rep.extra["disagreements_by_tags"] = dict(totals)
        rep.extra["disagreements_total"] = len(self.items)
        if self.items:
            print(f"[C14] {len(self.items)} disagreeing cases in total: " +
                  ", ".join(f"{k}: {v}" for k, v in sorted(totals.items())))


# ---------------------------------------------------------------------------------------------------------------------
def check_accept_case(rep, fnd, case, n, variants=mlcl.VARIANTS):
    ml, cl, want = case["ml"], case["cl"], case["accept"]
    key = (case["mode"], ml, cl)
    rep.case(key)
    bad = []
    for variant in variants:
        a = mlcl.present(ml, variant, ("ml", key))
        b = mlcl.present(cl, variant, ("cl", key))
        verdict, info = mlcl.call_real(a, b, n=n)
        if verdict == "crash" or (verdict == "accept") != want:
            bad.append((variant, verdict, "" if verdict == "accept" else f"{type(info).__name__}: {str(info)[:90]}"))
    if not bad:
        return
    has_self = any(p[0] == p[1] for p in ml + cl)
    verdicts = {v for _, v, _ in bad}
    tags = []
    if "crash" in verdicts:
        tags.append("wrong-exception-type")
    if want and "reject" in verdicts:
        tags.append("rejects-consistent")
        if any("Triangular contradiction" in m for _, _, m in bad) and not mlcl.positions_model(ml, cl):
            tags.append("structural-positions-vs-ids")
    if not want and "accept" in verdicts:
        if has_self:
            tags.append("accepts-self-pair")
        else:
            tags.append("accepts-contradiction")
            if mlcl.positions_model(ml, cl):
                tags.append("structural-positions-vs-ids")
    desc = (f"add_mlcl_constraint(must_link={ml}, cannot_link={cl}): spec says {'ACCEPT' if want else 'REJECT'}, code: " +
            "; ".join(f"[{v}] {verdict} {m}".strip() for v, verdict, m in bad))
    fnd.add(len(ml) + len(cl), desc, {"kind": "accept", "case": case}, tags)


def check_shape_case(rep, fnd, case):
    want = case["accept"]
    mls = mlcl.SHAPES.get(case["ml"]) or mlcl.SHAPE_PAIRS["ml"]
    cls = mlcl.SHAPES.get(case["cl"]) or mlcl.SHAPE_PAIRS["cl"]
    n = 0
    for a in mls:
        for b in cls:
            n += 1
            rep.case(("shape", case["ml"], case["cl"], repr(a), repr(b)))
            verdict, info = mlcl.call_real(a, b, n=n)
            if verdict == "crash" or (verdict == "accept") != want:
                tags = ("wrong-exception-type",) if verdict == "crash" else \
                    (("rejects-wellformed-shape",) if want else ("accepts-malformed-shape", f"shape={case['ml']}/{case['cl']}"))
                fnd.add(0, f"add_mlcl_constraint(must_link={a!r} [{case['ml']}], cannot_link={b!r} [{case['cl']}]): spec says "
                           f"{'ACCEPT' if want else 'REJECT'}, code: {verdict} "
                           f"{'' if verdict == 'accept' else type(info).__name__ + ': ' + str(info)[:90]}",
                        {"kind": "shape", "case": case, "ml": repr(a), "cl": repr(b)}, tags)


def check_inject_group(rep, fnd, cases, n_total, stats):
    """All cases of one (ML, CL, factor): one decorated probe model per family and arithmetic."""
    c0 = cases[0]
    ml, cl, f = c0["ml"], c0["cl"], Fraction(c0["f"][0], c0["f"][1])
    gkey = ("inject", ml, cl, c0["f"])
    models = {}
    factor = int(f) if f.denominator == 1 else float(f)     # dyadic factors: exact in float64 as well
    # the two batching families share DiscriminativeModel._batchify: MLP is run in float64 only
    for family, exact in (("linear", False), ("linear", True), ("mlp", False), ("categorical", False), ("categorical", True)):
        m, err = mlcl.decorated_probe(family, ml, cl, factor, (gkey, family, exact))
        if m is None:
            tags = ["rejects-consistent", "inject-blocked"]
            if "Triangular contradiction" in str(err) and not mlcl.positions_model(ml, cl):
                tags.append("structural-positions-vs-ids")
            fnd.add(len(ml) + len(cl), f"consistent set must_link={ml} cannot_link={cl} factor={factor!r} refused: "
                                       f"{type(err).__name__}: {str(err)[:90]}; gradient injection could not be checked",
                    {"kind": "accept", "case": {"mode": "accept", "ml": ml, "cl": cl, "accept": True}}, tags)
            return
        models[(family, exact)] = m
    partners = {}
    for i, j in ml + cl:
        partners.setdefault(i, set()).add(j)
        partners.setdefault(j, set()).add(i)
    for case in cases:
        idx = case["idx"]
        want = [[Fraction(v[0], v[1]) for v in row] for row in case["out"]]
        touched = sum(1 for p in range(len(idx)) if want[p] != [Fraction(v) for v in case["g"][p]])
        stats["touched_rows"] += touched
        stats["untouched_rows"] += len(idx) - touched
        for (family, exact), m in models.items():
            if family == "categorical" and idx != list(range(n_total)):
                continue      # the non-parametric family has no batching: its only batch is the whole data in order
            key = (gkey, idx, case["v"], family, exact)
            rep.case(key, nontrivial=touched > 0)
            stats[f"runs_{family}"] += 1
            try:
                got, problems = mlcl.drive(m, family, idx, case["y"], case["g"], n_total, exact, key)
            except Exception as e:
                got, problems = None, [f"raised {type(e).__name__}: {e}"]
            for pb in problems:
                tags = ("batch-indices-not-recorded",) if "recorded" in pb else \
                    (("decorated-call-raises",) if pb.startswith("raised") else ("batchify-driver",))
                fnd.add(len(idx), f"{family}/{'Fraction' if exact else 'float64'} batch={idx} ml={ml} cl={cl}: {pb}",
                        {"kind": "inject", "case": case, "family": family, "exact": exact, "n_total": n_total}, tags)
            if got is not None and got != want:
                rows = [p for p in range(len(idx)) if got[p] != want[p]]
                # a row is "linked" when its sample has a must-/cannot-link partner inside this batch
                other = [p for p in rows if not (partners.get(idx[p], set()) & set(idx))]
                tags = ["wrong-injected-gradient", "touches-other-rows" if other else "wrong-value-on-linked-rows"]
                if any(idx[p] not in partners for p in rows):
                    tags.append("unconstrained-sample-modified")
                fnd.add(10 + len(idx) * 10 + len(ml) + len(cl),
                        f"{family}/{'Fraction' if exact else 'float64'} batch ids={idx} must_link={ml} cannot_link={cl} "
                        f"factor={f} y={case['y']} g={case['g']}: decorated _compute_grads gave "
                        f"{[[str(v) for v in r] for r in got]}, spec Inject = {[[str(v) for v in r] for r in want]} "
                        f"(rows {rows} differ)",
                        {"kind": "inject", "case": case, "family": family, "exact": exact, "n_total": n_total}, tags)


def run_inject(rep, fnd, tlc_result, ids, k, fammax, nv, nfac, thm, stats):
    r, note = tlc_result
    rep.add_tlc("Mlcl", r, note=f"mode=inject ids={list(ids)} K={k} FAMMAX={fammax} NV={nv} NFAC={nfac} thm={thm} chunks={note}")
    groups = defaultdict(list)
    for case in r.prints:
        groups[json.dumps([case["ml"], case["cl"], case["f"]])].append(case)
    for cases in groups.values():
        check_inject_group(rep, fnd, cases, max(ids) + 1, stats)
    if r.prints:
        c = max(r.prints, key=lambda c: (len(c["idx"]) == 3, len(c["ml"]) + len(c["cl"]), c["f"][1]))
        rep.sample({k2: c[k2] for k2 in ("idx", "y", "g", "f", "ml", "cl", "out")})
    return len(r.prints)


# ---------------------------------------------------------------------------------------------------------------------
def fit_side_check(rep, fnd, stats):
    """SIDE CHECK (Python only, no spec oracle for the float values): in real decorated fits, at every `_compute_grads`
    call the recorded `_batchify.indices` are the sample ids of the rows of X passed, and the gradient handed to the
    family's own backprop differs from the GEMINI gradient by the documented extra term (1e-9)."""
    from gemclus import add_mlcl_constraint
    from gemclus.linear import LinearModel
    from gemclus.mlp import MLPModel
    from gemclus.nonparametric import CategoricalModel
    n = 13
    rng = np.random.RandomState(7)
    X = rng.normal(size=(n, 3))
    X[:, 0] = np.arange(n)
    ml, cl, factor = [(3, 7), (12, 0)], [(7, 12), (5, 3)], 2.0
    configs = [(LinearModel, dict(batch_size=b)) for b in (1, 2, 5, None)] + \
              [(MLPModel, dict(batch_size=b)) for b in (1, 2, None)] + [(CategoricalModel, {})]
    for cls, kw in configs:
        for gem in ("mmd_ova", "mi"):
            name = f"{cls.__name__}({kw.get('batch_size', 'n/a')},{gem})"
            model = cls(n_clusters=2, gemini=gem, max_iter=2, random_state=0, **kw)
            log = []
            inner = model._compute_grads

            def rec_inner(Xb, y_pred, gradient, inner=inner, log=log, model=model):
                log[-1]["after"] = np.array(gradient, dtype=float)
                log[-1]["ids"] = [int(v) for v in Xb[:, 0]]
                log[-1]["recorded"] = list(model._batchify.indices)
                return inner(Xb, y_pred, gradient)
            model._compute_grads = rec_inner
            try:
                add_mlcl_constraint(model, must_link=ml, cannot_link=cl, factor=factor)
            except Exception as e:
                fnd.add(1000, f"side check: consistent set ml={ml} cl={cl} refused: {type(e).__name__}: {e}",
                        {"kind": "fit", "model": name}, ("rejects-consistent", "fit-side-check"))
                return
            outer = model._compute_grads

            def rec_outer(Xb, y_pred, gradient, outer=outer, log=log):
                log.append({"before": np.array(gradient, dtype=float), "y": np.array(y_pred, dtype=float)})
                return outer(Xb, y_pred, gradient)
            model._compute_grads = rec_outer
            try:
                model.fit(X)
            except Exception as e:
                fnd.add(1000, f"side check: decorated {name}.fit raised {type(e).__name__}: {e}",
                        {"kind": "fit", "model": name}, ("decorated-fit-raises", "fit-side-check"))
                continue
            bs = kw.get("batch_size") or n
            if cls is CategoricalModel:
                bs = n
            nb = -(-n // bs)
            if len(log) != 2 * nb:
                fnd.add(1000, f"side check: {name}: {len(log)} gradient steps in 2 epochs, expected {2 * nb}",
                        {"kind": "fit", "model": name}, ("fit-side-check", "step-count"))
            for step, ev in enumerate(log):
                stats["fit_steps"] += 1
                rep.case(("fit", name, step), nontrivial=False)
                if ev.get("recorded") != ev.get("ids"):
                    fnd.add(1000, f"side check: {name} step {step}: recorded indices {ev.get('recorded')} != sample ids of "
                               f"the batch {ev.get('ids')}", {"kind": "fit", "model": name, "step": step},
                            ("batch-indices-not-recorded", "fit-side-check"))
                    continue
                ref = mlcl.reference_delta(ev["ids"], ev["y"], ml, cl, factor)
                delta = ev["after"] - ev["before"]
                if np.all(np.isfinite(delta)) and not np.allclose(delta, ref, rtol=1e-9, atol=1e-12):
                    fnd.add(1000, f"side check: {name} step {step} batch {ev['ids']}: extra gradient {delta.tolist()} != "
                               f"documented {ref.tolist()}", {"kind": "fit", "model": name, "step": step},
                            ("wrong-injected-gradient", "fit-side-check"))
                stats["fit_steps_with_pairs"] += bool(np.any(ref != 0))
            for epoch in range(2):
                seen = sorted(i for ev in log[epoch * nb:(epoch + 1) * nb] for i in ev.get("ids", []))
                if seen != list(range(n)):
                    fnd.add(1000, f"side check: {name} epoch {epoch}: batches cover {seen}", {"kind": "fit", "model": name},
                            ("fit-side-check", "epoch-coverage"))


# ---------------------------------------------------------------------------------------------------------------------
def run(tier):
    rep = Report("C14", tier)
    fnd = Findings()
    stats = Counter()
    rep.rule = ("(a) every pair (ML, CL) of subsets of the unordered pairs over each listed id set (sampled chunks for 5 "
                "ids) and every self-pair placement on small base sets: one case per (ML, CL), presented in 3 concrete "
                "forms; (c) every combination of 6 shape classes for ML x CL, several literals each; (b) one case per "
                "(consistent family member, batch = ordered selection of the ids or whole data, value assignment, "
                "factor, model family, arithmetic); non-trivial when at least one gradient row must change")
    n_accept = Counter()
    # TLC runs are submitted up front (two at a time) so that they overlap with the single-threaded replay into the code
    pool = ThreadPoolExecutor(max_workers=2)
    jobs = []
    for ids, nch, frac, thm, variants in ACCEPT[tier]:
        jobs.append(pool.submit(mlcl.enumerate_cases, "accept", ids, nch=nch, frac=frac, thm=thm, timeout=1200))
    for ids, nch, fammax in SELF[tier]:
        jobs.append(pool.submit(mlcl.enumerate_cases, "self", ids, nch=nch, fammax=fammax, thm="all", timeout=600))
    jobs.append(pool.submit(mlcl.enumerate_cases, "shape", (0, 3, 7, 12), nch=1, thm="none", timeout=300))
    for ids, nch, frac, k, fammax, nv, nfac, thm in INJECT[tier]:
        jobs.append(pool.submit(mlcl.enumerate_cases, "inject", ids, nch=nch, frac=frac, k=k, fammax=fammax, nv=nv,
                                nfac=nfac, thm=thm, timeout=1500))
    jobs.reverse()
    try:
        for ids, nch, frac, thm, variants in ACCEPT[tier]:
            r, note = jobs.pop().result()
            rep.add_tlc("Mlcl", r, note=f"mode=accept ids={list(ids)} thm={thm} chunks={note}")
            for n, case in enumerate(r.prints):
                check_accept_case(rep, fnd, case, n, variants)
                n_accept[case["accept"]] += 1
            if ids == ACCEPT[tier][0][0]:
                for want in (True, False):
                    c = max((c for c in r.prints if c["accept"] == want),
                            key=lambda c: (len(c["ml"]) == 2, len(c["cl"]) == 2), default=None)
                    if c:
                        rep.sample(c)
        for ids, nch, fammax in SELF[tier]:
            r, note = jobs.pop().result()
            rep.add_tlc("Mlcl", r, note=f"mode=self ids={list(ids)} base sets <= {fammax} pairs")
            for n, case in enumerate(r.prints):
                check_accept_case(rep, fnd, case, n)
                n_accept[case["accept"]] += 1
        r, _ = jobs.pop().result()
        rep.add_tlc("Mlcl", r, note="mode=shape")
        for case in r.prints:
            check_shape_case(rep, fnd, case)
        stats["shape_cases"] = len(r.prints)
        for ids, nch, frac, k, fammax, nv, nfac, thm in INJECT[tier]:
            stats["inject_cases"] += run_inject(rep, fnd, jobs.pop().result(), ids, k, fammax, nv, nfac, thm, stats)
    finally:
        pool.shutdown(wait=True, cancel_futures=True)
    fit_side_check(rep, fnd, stats)
    fnd.flush(rep)
    rep.extra["accept_cases"] = {"spec_accept": n_accept[True], "spec_reject": n_accept[False]}
    rep.extra["inject"] = dict(stats)
    rep.exhaustive = tier == "quick" or all(c[2] >= 1.0 for c in ACCEPT[tier])
    rep.assumptions = [
        "constraint sets range over <= 5 distinct sample ids (all subsets of the unordered pairs for 4 ids, a seeded "
        "1/16 sample for 5); pairs are sets: a pair listed twice is outside the enumerated space",
        "factors are the positive rationals 1, 3, 1/2 (5/4 in thorough): add_mlcl_constraint documents factor > 0",
        "gradient injection is affine in (y, g): 2-3 integer value assignments with pairwise distinct rows per batch; "
        "K = 2 (3 in thorough); batches are the ordered selections of the constrained ids placed at a seeded batch slot "
        "of a scripted permutation of n = max id + 1 samples, and the whole data in natural / reversed order",
        "inject families contain only consistent sets (Accept = TRUE): a set the real validation refuses cannot be "
        "installed and is reported as rejects-consistent",
        "the real-fit comparison of float gradients uses a Python transcription of Inject (side check, 1e-9)",
        "3-column pair lists and non-integer ids are not covered by the property and not asserted"]
    return rep.finish()


def replay(path):
    blob = json.load(open(path))
    rc = blob["case"]
    rep = Report("C14", "quick")
    fnd = Findings()
    print("replaying", {k: v for k, v in rc.items() if k != "case"}, rc.get("case"))
    if rc["kind"] == "accept":
        check_accept_case(rep, fnd, rc["case"], 0)
    elif rc["kind"] == "shape":
        check_shape_case(rep, fnd, rc["case"])
    elif rc["kind"] == "inject":
        n_total = rc["n_total"]
        check_inject_group(rep, fnd, [rc["case"]], n_total, Counter())
    else:
        fit_side_check(rep, fnd, Counter())
    for size, desc, _, tags in sorted(fnd.items, key=lambda t: t[0]):
        print("VIOLATION (replayed)", tags, desc[:600])
    return 1 if fnd.items else 0
