"""C10 - Mini-batches partition the data and stay aligned with the affinity matrix.
(1) TLC model-checks Train (every n<=5, batch size, epoch count, permutation): batch-size bound, step-count theorem.
(2) Real fits of every batched family (plain and mlcl-decorated; affinity user-supplied, computed by a callable, named, or
    absent; batch sizes 1..n+1 and None) are recorded at _batchify / the optimiser and validated against TrainTrace:
    sample identity is observable through an id column and an injective affinity Aff(i,j)=i*n+j, so TLC itself checks
    rows, columns and order of every delivered block."""
import json, random, collections, warnings
import numpy as np
from vf import tlc, trace, train
from vf.common import SEED, NCPU, MachineryError
from vf.report import Report

OWN = {"batchshape", "blockaligned", "recorded", "phase", "rows", "epochsleft", "allepochs", "niter", "eof"}


def collect(rep, tier, rnd):
    import gemclus
    traces, meta = [], []
    ns = [4, 5] if tier == "quick" else [3, 4, 5, 7]
    for n in ns:
        d = 3
        B = train.family_builders(n, d)
        for name, (factory, y, batched) in B.items():
            bss = [None] if not batched else ([1, 2, n - 1, n, n + 1, None] if tier == "thorough" else rnd.sample([1, 2, n - 1, n, n + 1, None], 3))
            for bs in bss:
                for decorated in ([False, True] if (tier == "thorough" or rnd.random() < 0.35) else [False]):
                    mi = rnd.choice([1, 2, 3])
                    common = dict(n_clusters=2, max_iter=mi, random_state=rnd.randint(0, 5), solver=rnd.choice(["sgd", "adam"]))
                    if batched:
                        common["batch_size"] = bs
                    X = train.make_data(n, d, rnd)
                    with warnings.catch_warnings():
                        warnings.simplefilter("ignore")
                        model = factory(**common)
                        if decorated:
                            model = gemclus.add_mlcl_constraint(model, must_link=[[0, 1]], cannot_link=[[2, 3], [1, n - 1]], factor=0.5)
                        ev, err = train.record_fit(model, X, y, decorated=decorated)
                    m = dict(family=name, n=n, batch_size=bs, max_iter=mi, decorated=decorated, solver=common["solver"])
                    rep.case(m)
                    if err is not None:
                        rep.violation(f"fit raised {type(err).__name__}: {err} for {m}", {"meta": m}, tags=("raises", name.split("/")[0]))
                        continue
                    traces.append(ev)
                    meta.append(m)
                    # the same estimator object fitted again on data of another size: the contract holds for every fit, not only
                    # for the first one of an object (nothing may be remembered from the previous data)
                    if "callable" in name or name == "KernelRIM" or not (tier == "thorough" or decorated or rnd.random() < 0.3):
                        continue
                    for n2 in (n + 2, n - 1):
                        if decorated and n2 < n:          # the link constraints name sample n-1: only data at least as long
                            continue
                        X2 = train.make_data(n2, d, rnd)
                        y2 = None if y is None else train.id_affinity(n2)
                        with warnings.catch_warnings():
                            warnings.simplefilter("ignore")
                            ev, err = train.record_fit(model, X2, y2, decorated=decorated)
                        m2 = dict(m, n=n2, refit_after_n=n, batch_size=bs)
                        rep.case(m2)
                        if err is not None:
                            rep.violation(f"second fit of the same object raised {type(err).__name__}: {err} for {m2}", {"meta": m2},
                                          tags=("raises", "refit", name.split("/")[0]))
                            break
                        traces.append(ev)
                        meta.append(m2)
    # a few hundred samples: the partition / alignment contract does not depend on the data size
    from gemclus.linear import LinearMMD, LinearModel
    for n, bs in ((300, 64), (257, 256), (513, 100)):
        X = train.make_data(n, 2, rnd)
        for fam, model, y in (("LinearMMD/precomputed", LinearMMD(n_clusters=2, kernel="precomputed", max_iter=1, batch_size=bs, random_state=0), train.id_affinity(n)),
                              ("LinearModel/kl_ova", LinearModel(n_clusters=2, gemini="kl_ova", max_iter=2, batch_size=bs, random_state=1), None)):
            with warnings.catch_warnings():
                warnings.simplefilter("ignore")
                ev, err = train.record_fit(model, X, y)
            m = dict(family=fam, n=n, batch_size=bs, max_iter=model.max_iter, decorated=False, solver="adam")
            rep.case(m)
            if err is not None:
                rep.violation(f"fit raised {type(err).__name__}: {err} for {m}", {"meta": m}, tags=("raises",))
                continue
            traces.append(ev)
            meta.append(m)
    # path(): the same batching contract during the initial fit and every epoch of every step (mode "path": the number of
    # epochs is decided by the patience rule, everything else is judged as in fit); dynamic mode trains each step with the
    # affinity of the currently selected variables
    from vf import path as vpath
    from gemclus.sparse import SparseLinearMMD, SparseMLPMMD, SparseLinearModel
    from gemclus.gemini import MMDGEMINI
    for n in ([5] if tier == "quick" else [4, 5, 7]):
        A = train.id_affinity(n)
        for cls, kw, y, dyn in ((SparseLinearMMD, dict(kernel="precomputed"), A, False), (SparseMLPMMD, dict(kernel="precomputed", n_hidden_dim=3), A, False),
                                (SparseLinearModel, dict(gemini=MMDGEMINI(kernel=train.IdKernel(n))), None, False),
                                (SparseLinearMMD, dict(kernel="linear"), None, True), (SparseMLPMMD, dict(kernel="rbf", n_hidden_dim=3), None, True)):
            for bs in ([2, None] if tier == "quick" else [1, 2, n - 1, None]):
                X = train.make_data(n, 3, rnd)
                if dyn:
                    X[:, 1:] += np.array([[rnd.gauss(0, 1) for _ in range(2)] for _ in range(n)])
                with warnings.catch_warnings():
                    warnings.simplefilter("ignore")
                    m = cls(n_clusters=2, max_iter=2, alpha=0.3, learning_rate=0.2, batch_size=bs, dynamic=dyn, random_state=rnd.randint(0, 9), **kw)
                    out = vpath.record_path(m, X, y, max_calls=5000, alpha_multiplier=2.0, min_features=1, max_patience=2)
                desc = dict(family=f"{cls.__name__}.path", n=n, batch_size=bs, dynamic=dyn, decorated=False, solver="adam+sgd", max_iter=2)
                rep.case(desc)
                if out["err"] is not None:
                    rep.violation(f"path raised {type(out['err']).__name__}: {out['err']} for {desc}", {"meta": desc}, tags=("raises", cls.__name__))
                    continue
                traces.append(out["train"])
                meta.append(desc)
    return traces, meta


def repo_suite(rep):
    """Every fit / path the repository's own tests perform, validated against TrainTrace (float mode)."""
    from vf import repotests
    out = repotests.run_suite()
    rep.extra["repo_test_suite"] = out["summary"]
    n = 0
    for grp in repotests.groups(out["train"]):
        traces = [t["events"] for t in grp]
        res = trace.validate("TrainTrace", traces, invariants=["BatchSizeOK", "StepCount", "StepsSoFar"], timeout=6000)
        rep.add_tlc("TrainTrace", res["result"], note=f"{len(traces)} traces recorded from the repository's own test-suite")
        rep.traces += len(traces)
        n += len(traces)
        for inv, tid in res["inv_violations"]:
            rep.violation(f"a fit performed by the repository's tests violates {inv}: {grp[tid - 1]['test'] if tid else ''}",
                          {"test": grp[tid - 1]["test"] if tid else None}, tags=(inv, "repo-tests"))
        for tid in res["rejected"]:
            if any(t == tid for _, t in res["inv_violations"]):
                continue
            dg = trace.diagnose("TrainTrace", traces, tid)
            failing = [k for k, v in (dg["diag"] or {}).items() if v is False]
            if failing and not (set(failing) & OWN):
                continue
            ev = dg["event"] or {}
            rep.violation(f"a fit performed by the repository's tests ({grp[tid - 1]['test']}, {grp[tid - 1]['cls']}) is not a behaviour of "
                          f"Train: stuck at event #{dg['l']} ({ev.get('e')}), failing clauses {failing}",
                          {"test": grp[tid - 1]["test"], "diag": {k: v for k, v in dg.items() if k != "event"}}, tags=tuple(failing) + ("repo-tests",))
    rep.extra["repo_test_traces"] = n


def run(tier):
    rep = Report("C10", tier)
    rnd = random.Random(SEED)
    rep.rule = ("(1) exhaustive TLC exploration of Train for n<=5 (6 thorough), batch sizes 1..n+1, <=2 epochs, all permutations; "
                "(2) a case is one real fit = (family x affinity source, n, batch_size, max_iter, solver, decorated); every case "
                "yields one trace validated event by event")
    r = tlc.run("TrainMC", tlc.cfg(constants=dict(MaxN=5 if tier == "quick" else 6, MaxIter=2),
                                   invariants=["BatchSizeOK", "StepCount", "StepsSoFar"], view="View"),
                workers=NCPU, timeout=3000, coverage=True)
    rep.add_tlc("TrainMC", r, note="exhaustive")
    if r.violated:
        rep.violation(f"Train specification violates {r.violated}", {"trace": r.trace[:3000]}, tags=("spec",))
    for act in ("StartEpoch", "Update", "Prox", "Finish"):
        if r.coverage.get(act, (0, 0))[1] == 0:
            raise MachineryError(f"vacuous model check: {act} never taken")
    traces, meta = collect(rep, tier, rnd)
    res = trace.validate("TrainTrace", traces, invariants=["BatchSizeOK", "StepCount", "StepsSoFar"], timeout=3000)
    rep.add_tlc("TrainTrace", res["result"], note=f"{len(traces)} traces")
    rep.traces += len(traces)
    for inv, tid in res["inv_violations"]:
        rep.violation(f"real fit violates {inv}: {meta[tid - 1] if tid else ''}", {"meta": meta[tid - 1] if tid else None,
                      "trace": traces[tid - 1] if tid else None}, tags=(inv,))
    for tid in res["rejected"]:
        if any(t == tid for _, t in res["inv_violations"]):
            continue
        dg = trace.diagnose("TrainTrace", traces, tid)
        failing = [k for k, v in (dg["diag"] or {}).items() if v is False]
        if failing and not (set(failing) & OWN):
            continue                                  # finiteness / direction / prox clauses belong to C17 / C03 / C06
        m = meta[tid - 1]
        rep.violation(f"real fit is not a behaviour of Train: {m}; stuck at event #{dg['l']} {json.dumps(dg['event'])[:300]}; "
                      f"failing clauses {failing}", {"meta": m, "trace": traces[tid - 1], "diag": dg}, tags=tuple(failing) + (m["family"].split("/")[0],))
    if traces:
        rep.sample({"meta": meta[0], "events": traces[0][:4]})
    if tier == "thorough":
        repo_suite(rep)
    rep.assumptions = ["sample identity is made observable by an id column X[:,0] and (for precomputed/callable affinities) the "
                       "injective matrix Aff(i,j)=i*n+j; for named kernels the recorder compares each block with the full affinity",
                       "recorder wraps instance attribute _batchify and sklearn's BaseOptimizer.update_params (no source hook)"]
    return rep.finish()


def replay(path):
    print(json.dumps(json.load(open(path)), indent=1)[:4000])
    return 1
