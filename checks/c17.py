"""C17 - Results stay finite on degenerate and badly scaled but legal inputs.
Config.tla (AWKWARD = TRUE) states the degenerate families (features scaled by 1000 / 1e-6, constant or duplicated columns,
duplicated samples, identical samples, as many clusters as samples, a single cluster, batches of one sample) crossed with all
estimators and GEMINIs; TLC draws the sample; every draw is fitted for real and trace-validated: Finite is required at EVERY
optimiser step, proximal step and at the end (weights, predict_proba, score), so a NaN that appears and is later turned into
a one-cluster answer is rejected at the first non-finite state.  Sparse estimators are also run through path().  The GEMINIs
themselves are checked on saturated (one-hot) predictions of the closed simplex by C13; a direct sweep is repeated here."""
import json, random, warnings
import numpy as np
from vf import config, trace, train, path, params as _p
from vf.common import SEED, MachineryError
from vf.report import Report
from checks import c04

OWN = {"finite", "flags_finite"}


def onehot_sweep(rep):
    from gemclus.gemini._utils import _str_to_gemini, AVAILABLE_GEMINIS
    for n, K in [(1, 1), (1, 2), (2, 2), (3, 3), (4, 2), (5, 1)]:
        P = np.zeros((n, K))
        P[np.arange(n), np.arange(n) % K] = 1.0
        x = np.arange(n, dtype=float)[:, None] * 1000.0
        for name in AVAILABLE_GEMINIS:
            A = x @ x.T if name.startswith("mmd") else np.abs(x - x.T) if name.startswith("wasserstein") else None
            rep.case(("onehot", n, K, name))
            try:
                v, G = _str_to_gemini(name)(P.copy(), A, return_grad=True)
                ok = np.isfinite(v) and np.all(np.isfinite(G)) and np.shape(G) == P.shape
                msg = f"score {v}, gradient finite={bool(np.all(np.isfinite(G)))} shape={np.shape(G)}"
            except Exception as e:
                ok, msg = False, f"raised {type(e).__name__}: {e}"
            if not ok:
                rep.violation(f"{name} on one-hot predictions n={n} K={K} (features x1000): {msg}", {"n": n, "K": K, "name": name},
                              tags=(name, "onehot", f"K={K}", f"n={n}"))


def path_runs(rep, tier, rnd):
    from gemclus.sparse import SparseLinearModel, SparseLinearMMD, SparseLinearMI, SparseMLPModel, SparseMLPMMD
    traces, meta = [], []
    for _ in range(16 if tier == "quick" else 120):
        kind = rnd.choice(["scale1000", "const_col", "dup_col", "dup_rows", "K=n", "K=1", "batch1"])
        n, d = 6, 3
        X = np.array([[rnd.gauss(0, 1) for _ in range(d)] for _ in range(n)])
        X[:3] += 2
        K, bs = 2, rnd.choice([None, 3])
        if kind == "scale1000":
            X *= 1000
        elif kind == "const_col":
            X[:, 1] = 5.0
        elif kind == "dup_col":
            X[:, 2] = X[:, 0]
        elif kind == "dup_rows":
            X[3:] = X[:3]
        elif kind == "K=n":
            K = n
        elif kind == "K=1":
            K = 1
        elif kind == "batch1":
            bs = 1
        cls = rnd.choice([SparseLinearModel, SparseLinearMMD, SparseLinearMI, SparseMLPModel, SparseMLPMMD])
        kw = dict(n_clusters=K, max_iter=2, alpha=rnd.choice([0.05, 1.0]), learning_rate=rnd.choice([0.01, 0.3]), batch_size=bs, random_state=rnd.randint(0, 9))
        if cls in (SparseLinearModel, SparseMLPModel):
            kw["gemini"] = rnd.choice(["mmd_ova", "kl_ovo", "tv_ovo", "hellinger_ova", "chi2_ovo", "wasserstein_ova"])
        if cls in (SparseMLPModel, SparseMLPMMD):
            kw["n_hidden_dim"] = 3
        desc = dict(estimator=cls.__name__, kind=kind, K=K, batch_size=bs, gemini=kw.get("gemini"), alpha=kw["alpha"], lr=kw["learning_rate"])
        with _p.quiet():
            m = cls(**kw)
            out = path.record_path(m, X, None, max_calls=6000, alpha_multiplier=2.0, min_features=1, max_patience=2)
        rep.case(desc)
        if out["err"] is not None:
            rep.violation(f"path on {desc} raised {type(out['err']).__name__}: {out['err']}", {"meta": desc}, tags=("path-raises", kind, cls.__name__))
            continue
        traces.append(out["path"])
        meta.append(desc)
    if traces:
        res = trace.validate("PathTrace", traces, invariants=[], timeout=3000)
        rep.add_tlc("PathTrace", res["result"], note=f"{len(traces)} path traces on awkward inputs")
        rep.traces += len(traces)
        for tid in res["rejected"]:
            dg = trace.diagnose("PathTrace", traces, tid)
            failing = [k for k, v in (dg["diag"] or {}).items() if v is False and not k.startswith("expected_")]
            if failing and not (set(failing) & OWN):
                continue
            rep.violation(f"path on {meta[tid - 1]} rejected at event #{dg['l']}: failing clauses {failing} {json.dumps(dg['event'])[:200]}",
                          {"meta": meta[tid - 1], "diag": dg}, tags=tuple(failing) + (meta[tid - 1]["kind"],))
        for tid, info in res["accepted"].items():
            if info.get("nan"):
                rep.violation(f"path on {meta[tid - 1]} aborted on a NaN score", {"meta": meta[tid - 1]}, tags=("nan-abort", meta[tid - 1]["kind"]))


def run(tier):
    rep = Report("C17", tier)
    rnd = random.Random(SEED + 17)
    rep.rule = ("TLC draws configurations x awkward dataset families (AWKWARD=TRUE in Config.tla); a case = one real fit (or path); "
                "every Update / Prox / Finish event of its trace must carry finite = TRUE; plus all 13 GEMINIs on one-hot predictions")
    c04.run_draws(rep, tier, True, OWN | {"phase"}, "C17", 900 if tier == "quick" else 8000)
    path_runs(rep, tier, rnd)
    onehot_sweep(rep)
    rep.assumptions = ["finiteness is a float predicate evaluated by the recorder after every optimiser/proximal step and on the final "
                       "weights, predict_proba and score; TLC requires it TRUE in every state of every trace",
                       "scales up to 1000 (and 1e-6); datasets n <= 8"]
    return rep.finish()


def replay(path_):
    print(json.dumps(json.load(open(path_)), indent=1)[:4000])
    return 1
