"""C05 - Proximal operators return the exact minimiser of their penalised problem.
TLC (spec/Prox.tla) enumerates integer rows / hidden rows / thresholds / hierarchy constants / set partitions, computes
the group-lasso prox and the first-principles HIER-PROX minimiser in exact rationals (and model-checks, in the same
run, KKT, stationarity, feasibility, the neighbour theorem and `published algorithm = minimiser`); every emitted case is
replayed into gemclus.sparse._prox_grad (rows stacked into matrices so that the vectorised code sees mixed branches)."""
import json, random
from concurrent.futures import ThreadPoolExecutor
import numpy as np
from vf import prox
from vf.common import SEED
from vf.report import Report

Q = prox.quarters
TIERS = {
    "quick": dict(
        lasso=[dict(RNG=3, LMAX=3, ALPHA4=Q(0, "1/2", 1, 2, 3, 5))],
        hier=[dict(RNG=3, LMAX=3, VSET="small", ALPHA4=Q(0, "1/2", 1, 2, 5), M4=Q(0, "1/2", 1, 2, 10), NBMAX=4)],
        glasso=[dict(D=d, H=h, NSEED=8, ALPHA4=Q(0, "1/2", 1, 2, 3, 5)) for d, h in ((1, 1), (2, 2), (3, 2), (4, 1), (4, 2))],
        ghier=[dict(D=d, KO=k, H=h, NSEED=2, SUB=s, ALPHA4=Q(0, "1/2", 2), M4=Q(0, "1/2", 1, 10))
               for d, k, h, s in ((1, 2, 2, 1), (2, 2, 1, 32), (3, 1, 2, 16), (4, 1, 1, 128))],
        side=2000),
    "thorough": dict(
        lasso=[dict(RNG=4, LMAX=4, ALPHA4=Q(0, "1/2", 1, "3/2", 2, 3, 5, 7))],
        hier=[dict(RNG=3, LMAX=3, VSET="large", ALPHA4=Q(0, "1/4", "1/2", 1, 2, 5), M4=Q(0, "1/4", "1/2", 1, 2, 3, 10),
                   NBMAX=5),
              dict(RNG=2, LMAX=4, VSET="small", ALPHA4=Q(0, "1/2", 1, 2, 5), M4=Q(0, "1/2", 1, 2, 10), NBMAX=5)],
        glasso=[dict(D=d, H=h, NSEED=40, ALPHA4=Q(0, "1/4", "1/2", 1, 2, 3, 5, 7))
                for d, h in ((1, 1), (1, 3), (2, 1), (2, 2), (3, 1), (3, 2), (4, 1), (4, 2), (4, 3))],
        ghier=[dict(D=d, KO=k, H=h, NSEED=3, SUB=s, ALPHA4=Q(0, "1/2", 1, 2, 5), M4=Q(0, "1/2", 1, 2, 10))
               for d, k, h, s in ((1, 2, 2, 1), (1, 3, 1, 1), (2, 2, 1, 8), (2, 2, 2, 8), (3, 1, 2, 8), (3, 2, 1, 128),
                                  (4, 1, 1, 64), (4, 1, 2, 128), (4, 2, 2, 128))],
        side=20000),
}
MAX_REPORTED = 40       # replay files written per run (all disagreements are counted)


class Ctx:
    def __init__(self, rep):
        self.rep = rep
        self.nviol = 0
        self.rnd = random.Random(f"c05-{SEED}")

    def violation(self, desc, replay, tags):
        self.nviol += 1
        if self.nviol <= MAX_REPORTED:
            self.rep.violation(desc, replay, tags=tags)
        else:   # keep the verdict (exit 1) without writing thousands of replay files
            self.rep.extra["violations_not_listed"] = self.nviol - MAX_REPORTED


def fr(p):
    return float(prox.frac(p))


def code():
    from gemclus.sparse import _prox_grad as pg
    return pg


def batches(ctx, n):
    """Index batches over n rows: the whole bucket at once, then a seeded shuffle cut into mini-batches of 1..4 rows."""
    yield "stack", list(range(n))
    idx = list(range(n))
    ctx.rnd.shuffle(idx)
    i = 0
    while i < n:
        k = ctx.rnd.randint(1, 4)
        yield "mini", idx[i:i + k]
        i += k


# ---- group lasso, single rows ------------------------------------------------------------------------------------------
def lasso_expect(case):
    vals = [prox.bag_value(b) for b in case["z"]]
    return [v for v, _ in vals], [z for _, z in vals]


def check_lasso(ctx, cases):
    pg = code()
    buckets = {}
    for c in cases:
        buckets.setdefault((len(c["w"]), tuple(c["al"])), []).append(c)
    for (k, al), cs in sorted(buckets.items()):
        alpha = fr(al)
        exp = [lasso_expect(c) for c in cs]
        for how, idx in batches(ctx, len(cs)):
            W = np.array([cs[i]["w"] for i in idx], dtype=float)
            try:
                with np.errstate(all="ignore"):
                    got = pg.linear_prox_grad(W.copy(), alpha)
                bad = prox.cmp_matrix(got, [exp[i][0] for i in idx], [exp[i][1] for i in idx])
            except Exception as e:
                bad = [(0, -1, f"raised {type(e).__name__}: {e}", None, "exception")]
            for i in idx:
                ctx.rep.case(("lasso", how, cs[i]["w"], al))
            for (r, j, g, e, why) in bad[:3]:
                c = cs[idx[max(r, 0)]]
                ctx.violation(f"linear_prox_grad row w={c['w']} alpha={alpha} ({how} of {len(idx)} rows): entry {j} "
                              f"code={g!r} spec={e!r} ({why}); spec: zero={c['zero']}",
                              {"mode": "lasso", "case": c, "batch": [cs[i]["w"] for i in idx][:8]},
                              ("linear_prox_grad", "zero" if c["zero"] else "shrink"))


# ---- HIER-PROX, single rows --------------------------------------------------------------------------------------------
def hier_rows_check(V, U, alpha, M, gb, gt, fstar):
    """Feasibility and optimality of the returned pairs, row by row (float tolerances only absorb rounding)."""
    gb, gt = np.asarray(gb, dtype=float), np.asarray(gt, dtype=float)
    nb = np.linalg.norm(gb, axis=1)
    out = []
    infeas = np.any(np.abs(gt) > (M * nb * (1 + 1e-12))[:, None], axis=1)
    f = 0.5 * np.sum((gb - V) ** 2, axis=1) + 0.5 * np.sum((gt - U) ** 2, axis=1) + alpha * nb
    above = ~(f <= fstar + 1e-9 * np.maximum(1.0, np.abs(fstar)))
    for r in np.nonzero(infeas | above)[0]:
        out.append((int(r), f"infeasible: max|theta|={np.max(np.abs(gt[r]))!r} > M*|beta|={M * nb[r]!r}" if infeas[r]
                    else f"objective {f[r]!r} above the minimum {fstar[r]!r}"))
    return out


def check_hier(ctx, cases):
    pg = code()
    buckets = {}
    for c in cases:
        buckets.setdefault((len(c["v"]), len(c["u"]), tuple(c["al"]), tuple(c["m"])), []).append(c)
    for (k, h, al, m), cs in sorted(buckets.items()):
        alpha, M = fr(al), fr(m)
        eb = [[fr(x) for x in c["beta"]] for c in cs]
        et = [[fr(x) for x in c["theta"]] for c in cs]
        zb = [[x[0] == 0 for x in c["beta"]] for c in cs]
        zt = [[x[0] == 0 for x in c["theta"]] for c in cs]
        fs = [fr(c["f"]) for c in cs]
        for how, idx in batches(ctx, len(cs)):
            V = np.array([cs[i]["v"] for i in idx], dtype=float)
            U = np.array([cs[i]["u"] for i in idx], dtype=float)
            bad = []
            try:
                with np.errstate(all="ignore"):
                    gb, gt = pg.mlp_prox_grad(V.copy(), U.copy(), alpha, M)
                bad += [("beta",) + b for b in prox.cmp_matrix(gb, [eb[i] for i in idx], [zb[i] for i in idx])]
                bad += [("theta",) + b for b in prox.cmp_matrix(gt, [et[i] for i in idx], [zt[i] for i in idx])]
                if not bad:
                    bad += [("pair", r, -1, None, None, why)
                            for r, why in hier_rows_check(V, U, alpha, M, gb, gt, np.array([fs[i] for i in idx]))]
            except Exception as e:
                bad = [("call", 0, -1, f"raised {type(e).__name__}: {e}", None, "exception")]
            for i in idx:
                ctx.rep.case(("hier", how, cs[i]["v"], cs[i]["u"], al, m))
            for (what, r, j, g, e, why) in bad[:3]:
                c = cs[idx[max(r, 0)]]
                ctx.violation(f"mlp_prox_grad v={c['v']} u={c['u']} alpha={alpha} M={M} ({how} of {len(idx)} rows): "
                              f"{what}[{j}] code={g!r} spec={e!r} ({why}); spec minimiser beta={eb[idx[max(r, 0)]]} "
                              f"theta={et[idx[max(r, 0)]]} |beta|={fr(c['b'])}",
                              {"mode": "hier", "case": c, "batch": [[cs[i]["v"], cs[i]["u"]] for i in idx][:8]},
                              ("mlp_prox_grad", f"M={M}", f"alpha={alpha}"))


# ---- group wrappers ----------------------------------------------------------------------------------------------------
def group_variants(gs):
    g0 = [[i - 1 for i in g] for g in gs]
    yield "listed", g0
    yield "reversed", [list(reversed(g)) for g in reversed(g0)]
    yield "arrays", [np.array(g) for g in g0]
    # the members of a group in every other order a user may write them in (a group is a set of features)
    if any(len(g) > 2 for g in g0):
        yield "rotated", [g[1:] + g[:1] for g in g0]
        yield "tail-swapped", [g[:-2] + [g[-1], g[-2]] if len(g) > 1 else g for g in g0]
        yield "head-swapped", [[g[1], g[0]] + g[2:] if len(g) > 1 else g for g in g0]


def check_glasso(ctx, cases):
    pg = code()
    for c in cases:
        alpha = fr(c["al"])
        W = np.array(c["W"], dtype=float)
        vals = [[prox.bag_value(b) for b in row] for row in c["Z"]]
        exp = [[v for v, _ in row] for row in vals]
        zero = [[z for _, z in row] for row in vals]
        entries = [(f"group_linear_prox_grad[{nm}]", (lambda g=g: pg.group_linear_prox_grad(g, W.copy(), alpha)))
                   for nm, g in group_variants(c["gs"])]
        if np.all(W == np.round(W)):            # weights stored as integers: the result is still the real-valued minimiser
            Wi = W.astype(np.int64)
            entries.append(("group_linear_prox_grad[int64 input]", lambda: pg.group_linear_prox_grad(list(group_variants(c["gs"]))[0][1], Wi.copy(), alpha)))
        if all(len(g) == 1 for g in c["gs"]):
            entries.append(("linear_prox_grad", lambda: pg.linear_prox_grad(W.copy(), alpha)))
        for label, f in entries:
            try:
                with np.errstate(all="ignore"):
                    bad = prox.cmp_matrix(f(), exp, zero)
            except Exception as e:
                bad = [(0, -1, f"raised {type(e).__name__}: {e}", None, "exception")]
            ctx.rep.case(("glasso", label, c["gs"], c["W"], c["al"]))
            for (i, j, g, e, why) in bad[:2]:
                ctx.violation(f"{label} groups={c['gs']} (1-based) W={c['W']} alpha={alpha}: entry [{i}][{j}] "
                              f"code={g!r} spec={e!r} ({why}); spec zero groups={c['zero']}",
                              {"mode": "glasso", "case": c}, ("group_linear_prox_grad", f"d={len(c['W'])}"))


def check_ghier(ctx, cases):
    pg = code()
    for c in cases:
        alpha, M = fr(c["al"]), fr(c["m"])
        V = np.array(c["V"], dtype=float)
        U = np.array(c["U"], dtype=float)
        eB = [[fr(x) for x in row] for row in c["B"]]
        eT = [[fr(x) for x in row] for row in c["T"]]
        zB = [[x[0] == 0 for x in row] for row in c["B"]]
        zT = [[x[0] == 0 for x in row] for row in c["T"]]
        entries = [(f"group_mlp_prox_grad[{nm}]", (lambda g=g: pg.group_mlp_prox_grad(g, V.copy(), U.copy(), alpha, M)))
                   for nm, g in group_variants(c["gs"])]
        if np.all(V == np.round(V)) and np.all(U == np.round(U)):
            Vi, Ui = V.astype(np.int64), U.astype(np.int64)
            entries.append(("group_mlp_prox_grad[int64 input]", lambda: pg.group_mlp_prox_grad(list(group_variants(c["gs"]))[0][1], Vi.copy(), Ui.copy(), alpha, M)))
            entries.append(("mlp_prox_grad[int64 input, per group]", None))
        if all(len(g) == 1 for g in c["gs"]):
            entries.append(("mlp_prox_grad", lambda: pg.mlp_prox_grad(V.copy(), U.copy(), alpha, M)))
        for label, f in entries:
            if f is None:
                continue
            bad = []
            try:
                with np.errstate(all="ignore"):
                    gb, gt = f()
                bad += [("W_skip",) + b for b in prox.cmp_matrix(gb, eB, zB)]
                bad += [("W1",) + b for b in prox.cmp_matrix(gt, eT, zT)]
                if not bad:
                    for g in c["gs"]:
                        rows = [i - 1 for i in g]
                        nb = float(np.linalg.norm(np.asarray(gb)[rows]))
                        mx = float(np.max(np.abs(np.asarray(gt)[rows])))
                        if mx > M * nb * (1 + 1e-12) + 1e-300:
                            bad.append(("group", rows[0], -1, mx, M * nb, f"group {g} infeasible: max|W1| > M*|W_skip|"))
            except Exception as e:
                bad = [("call", 0, -1, f"raised {type(e).__name__}: {e}", None, "exception")]
            ctx.rep.case(("ghier", label, c["gs"], c["V"], c["U"], c["al"], c["m"]))
            for (what, i, j, g, e, why) in bad[:2]:
                ctx.violation(f"{label} groups={c['gs']} (1-based) W_skip={c['V']} W1={c['U']} alpha={alpha} M={M}: "
                              f"{what}[{i}][{j}] code={g!r} spec={e!r} ({why})",
                              {"mode": "ghier", "case": c}, ("group_mlp_prox_grad", f"d={len(c['V'])}", f"M={M}"))


# ---- numeric side check on real-valued inputs (float oracle, NOT model-checked) -----------------------------------------
def side_check(ctx, n):
    pg = code()
    rs = np.random.RandomState(SEED + 505)
    done = 0
    while done < n:
        d, k, h = rs.randint(1, 7), rs.randint(1, 5), rs.randint(1, 7)
        scale = 10.0 ** rs.randint(-3, 3)
        alpha = float(rs.choice([0.0, rs.uniform(0, 3) * scale]))
        M = float(rs.choice([0.0, rs.uniform(0, 3), rs.uniform(0, 30)]))
        V = rs.normal(size=(d, k)) * scale
        U = rs.normal(size=(d, h)) * scale * rs.choice([0.1, 1.0, 10.0])
        if h > 1 and rs.rand() < 0.3:
            U[:, 1] = -U[:, 0]                              # exact ties between hidden magnitudes
        # group lasso on real rows (irrational norms): closed form + subgradient condition
        try:
            with np.errstate(all="ignore"):
                got = np.asarray(pg.linear_prox_grad(V.copy(), alpha))
                gb, gt = pg.mlp_prox_grad(V.copy(), U.copy(), alpha, M)
            gb, gt = np.asarray(gb), np.asarray(gt)
        except Exception as e:   # raising on a valid real input is a disagreement with the property too
            ctx.rep.case(None, nontrivial=False)
            done += d
            ctx.violation(f"[numeric side check] raised {type(e).__name__}: {e} on W_skip={V.tolist()} W1={U.tolist()} "
                          f"alpha={alpha} M={M}", {"mode": "side-raise", "V": V.tolist(), "U": U.tolist(),
                                                   "alpha": alpha, "M": M}, ("mlp_prox_grad", "side"))
            continue
        for i in range(d):
            nw = float(np.linalg.norm(V[i]))
            exp = np.zeros(k) if nw <= alpha else (1 - alpha / nw) * V[i]
            ok = np.all(np.abs(got[i] - exp) <= 1e-9 * max(1.0, nw)) and (nw > alpha or np.all(got[i] == 0.0))
            ctx.rep.case(None, nontrivial=False)
            if not ok:
                ctx.violation(f"[numeric side check] linear_prox_grad real row w={V[i].tolist()} alpha={alpha}: "
                              f"code={got[i].tolist()} closed form={exp.tolist()}",
                              {"mode": "side-lasso", "w": V[i].tolist(), "alpha": alpha}, ("linear_prox_grad", "side"))
        for i in range(d):
            eb, et, fstar = prox.hier_min_float(V[i], U[i], alpha, M)
            sc = max(1.0, float(np.linalg.norm(V[i])), float(np.max(np.abs(U[i]))))
            f = prox.hier_objective(gb[i], gt[i], V[i], U[i], alpha)
            feas = np.all(np.abs(gt[i]) <= M * np.linalg.norm(gb[i]) * (1 + 1e-9) + 1e-12 * sc)
            near = np.all(np.abs(gb[i] - eb) <= 1e-6 * sc) and np.all(np.abs(gt[i] - et) <= 1e-6 * sc)
            ok = feas and near and f <= fstar + 1e-9 * max(1.0, abs(fstar), sc * sc)
            ctx.rep.case(None, nontrivial=False)
            done += 1
            if not ok:
                ctx.violation(f"[numeric side check] mlp_prox_grad real row v={V[i].tolist()} u={U[i].tolist()} "
                              f"alpha={alpha} M={M}: code beta={gb[i].tolist()} theta={gt[i].tolist()} objective={f!r}; "
                              f"float first-principles minimiser beta={eb.tolist()} theta={et.tolist()} objective={fstar!r}"
                              f" feasible={bool(feas)}",
                              {"mode": "side-hier", "v": V[i].tolist(), "u": U[i].tolist(), "alpha": alpha, "M": M},
                              ("mlp_prox_grad", "side"))
    return done


CHECKERS = {"lasso": check_lasso, "hier": check_hier, "glasso": check_glasso, "ghier": check_ghier}


def run(tier):
    rep = Report("C05", tier)
    ctx = Ctx(rep)
    plan = TIERS[tier]
    rep.rule = ("TLC enumerates (lasso) every integer row w in (-R..R)^k, k<=LMAX, x every alpha; (hier) every skip row of "
                "a fixed list of integer rows with rational norm (plus zero rows with u=0, alpha>0) x every hidden row "
                "u in (-R..R)^h, h<=LMAX, x every alpha x every M; (glasso/ghier) every set partition of d<=4 features x "
                "generated integer matrices (ghier: all skip matrices on a small grid whose every group has a rational "
                "norm, hashed subset 1/SUB) x alpha (x M). A case is one (entry point, call shape, input) and is distinct "
                "by that key: single-row cases are replayed stacked (whole bucket of equal shape/alpha/M) and in seeded "
                "mini-batches of 1-4 rows; group cases through three spellings of the group list")
    counts = {}
    # the TLC runs are independent: start them all (largest first, 3 JVMs at a time) and replay each into the code as
    # soon as it is available, in a fixed order that leaves the largest run for last (replay overlaps with TLC)
    jobs = [(mode, consts) for mode in ("hier", "ghier", "lasso", "glasso") for consts in plan[mode]]
    pool = ThreadPoolExecutor(max_workers=3)
    futs = [pool.submit(prox.enumerate_cases, mode, timeout=2400 if tier == "thorough" else 600, **consts)
            for mode, consts in jobs]
    pool.shutdown(wait=False)
    order = sorted(range(len(jobs)), key=lambda i: ("lasso", "glasso", "ghier", "hier").index(jobs[i][0]))
    for i in order:
        (mode, consts), r = jobs[i], futs[i].result()       # a MachineryError of any run propagates (exit 2)
        note = mode + " " + " ".join(f"{k}={sorted(v) if isinstance(v, set) else v}" for k, v in consts.items())
        rep.add_tlc("Prox", r, note=note + "; invariants " + ",".join(prox.INVARIANTS))
        counts[mode] = counts.get(mode, 0) + len(r.prints)
        if mode == "hier":
            counts["hier_neighbour_theorem_cases"] = counts.get("hier_neighbour_theorem_cases", 0) + \
                sum(1 for p in r.prints if p["nbr"])
            counts["hier_zero_beta"] = counts.get("hier_zero_beta", 0) + sum(1 for p in r.prints if p["b"][0] == 0)
        CHECKERS[mode](ctx, r.prints)
        if r.prints and consts is plan[mode][-1]:          # one literal case per mode, from its largest run
            c = dict(r.prints[(len(r.prints) * 2) // 3])
            if mode == "lasso":
                c["z"] = lasso_expect(c)[0]
            elif mode == "glasso":
                c["Z"] = [[prox.bag_value(b)[0] for b in row] for row in c["Z"]]
            rep.sample(c)
    counts["numeric_side_check_rows"] = side_check(ctx, plan["side"])
    rep.extra["emitted_cases"] = counts
    rep.exhaustive = False
    rep.assumptions = [
        "exact expectations exist on small grids: entries |.|<=3 (4 thorough), row length / hidden units <=3 (4), "
        "alpha and M multiples of 1/4; HIER-PROX skip rows are integer rows with rational norm so that the minimiser is "
        "rational; these inputs are exactly representable in float64, outputs compared with 1e-9 relative tolerance "
        "and `== 0.0` where the spec value is exactly 0",
        "group lasso rows with irrational norm are expected through symbolic term bags (w_i - alpha w_i rsqrt(|w|^2)) "
        "evaluated in float64 by the harness",
        "the neighbour theorem in (beta,theta) space is model-checked only where the common denominator of the "
        "minimiser is <= 200 and K+h <= NBMAX (32-bit TLC integers); stationarity of phi, feasibility, uniqueness and "
        "`algorithm = minimiser` are checked on every case",
        "zero skip rows are exercised only in the property's scope (hidden row zero, alpha > 0); outside it the code "
        "returns NaN and the check stays silent",
        "real-valued (irrational) inputs are covered only by the seeded numeric side check against a float64 "
        "transcription of the same first-principles minimiser (tolerances 1e-9 objective, 1e-6 point)",
    ]
    return rep.finish()


def replay(path):
    blob = json.load(open(path))
    case = blob["case"]
    print("replaying", json.dumps(case)[:400])
    rep = Report("C05", "quick")
    ctx = Ctx(rep)
    mode = case["mode"]
    if mode in CHECKERS:
        CHECKERS[mode](ctx, [case["case"]])
    elif mode == "side-lasso":
        got = code().linear_prox_grad(np.array([case["w"]]), case["alpha"])
        print("code:", np.asarray(got).tolist())
    elif mode == "side-raise":
        print(code().linear_prox_grad(np.array(case["V"]), case["alpha"]))
        print(code().mlp_prox_grad(np.array(case["V"]), np.array(case["U"]), case["alpha"], case["M"]))
    elif mode == "side-hier":
        gb, gt = code().mlp_prox_grad(np.array([case["v"]]), np.array([case["u"]]), case["alpha"], case["M"])
        eb, et, fs = prox.hier_min_float(np.array(case["v"]), np.array(case["u"]), case["alpha"], case["M"])
        print("code:", np.asarray(gb).tolist(), np.asarray(gt).tolist(), "oracle:", eb.tolist(), et.tolist(), fs)
    for desc, _ in rep.violations:
        print("  ", desc[:600])
    return 1 if rep.violations else 0
