"""C20 - synthetic data generators follow their documented distributions.
"Matches the documented distribution" is reduced to a protocol over an abstract RNG (spec/Data.tla): the generators are run
with a RandomState that logs every call and answers with scripted, tagged values, so the logged arguments show which
parameters reach NumPy's samplers (trusted) and every output entry names the call / draw / column it came from.
(1) Pattern A+B: TLC enumerates generator x arguments x label vectors x Student factors x permutations and emits the
    expected call sequence and output; the real generators are run on every case, their recorded traces are validated by
    DataTrace (acceptance depends on every logged field) and the returned arrays are compared with the emitted ones.
(2) Pattern A: TLC enumerates parameter sets of draw_gmm / multivariate_student_t with the verdict of Valid; replayed.
(3) real integer seeds: shapes, label ranges, determinism.  (4) celeux_two with zero scripted noise: affine structure.
(5) NUMERIC SIDE-CHECK (not the main evidence): moments within 6 sigma of the documented values for fixed seeds."""
import json, warnings, collections
import numpy as np
from vf import tlc, trace, datagen
from vf.common import MachineryError
from vf.report import Report

TRACE_CONSTS = dict(MODE="trace", NMAX=1, STRIDE=1, GSCALE=1)
TRACE_INVS = ["Shapes", "Provenance"]
CALL_FIELDS = {"m": "method", "shape": "shape", "K": "K", "p": "proportions", "loc": "loc", "var": "variance", "cov": "cov",
               "df": "df"}


# ---------------------------------------------------------------------------------------------------------------------
# (1) protocol
def enumerate_proto(tier):
    c = tlc.cfg(init="DInit", next="Next", invariants=["Emit", "Shapes", "Provenance"],
                constants=dict(MODE="proto", NMAX=3 if tier == "quick" else 4, STRIDE=1 if tier == "quick" else 2,
                               GSCALE=8 if tier == "quick" else 2))
    r = tlc.run("Data", c, timeout=3000, coverage=True)
    if r.violated:
        return r, None, []
    consts = [p["consts"] for p in r.prints if "consts" in p]
    cases = [p for p in r.prints if p.get("mode") == "proto"]
    if len(consts) != 1 or not cases:
        raise MachineryError("Data (proto) printed no constants / no cases")
    return r, consts[0], cases


def diff_case(case, events, res):
    """Python-side explanation of a disagreement (the verdict itself is DataTrace's): list of failing clauses."""
    draws = [e for e in events if e["e"] == "draw"]
    bad = []
    if events[-1]["e"] == "error":
        return ["raises"]
    for i, exp in enumerate(case["calls"]):
        if i >= len(draws):
            bad.append(f"missing-call-{i + 1}:{exp['m']}")
            break
        got = draws[i]["call"]
        for f, nm in CALL_FIELDS.items():
            if got[f] != exp[f]:
                bad.append(f"call{i + 1}:{nm}")
        if not draws[i]["exact"]:
            bad.append(f"call{i + 1}:inexact")
    if len(draws) > len(case["calls"]):
        bad.append(f"extra-call:{draws[len(case['calls'])]['call']['m']}")
    ret = events[-1]
    if ret["X"] != case["X"]:
        bad.append("rows")
    if ret["y"] != case["y"]:
        bad.append("labels")
    if not ret["exact"]:
        bad.append("output-inexact")
    return bad


def classify(case, events, bad):
    """Precise tags for the defects this check has reproduced; generic tags otherwise."""
    gen, a = case["gen"], case["args"]
    tags = [gen] + sorted({b.split(":")[-1] for b in bad})
    if gen == "draw_gmm" and a["d"] == 1 and bad and all(b.endswith(":variance") for b in bad):
        draws = [e for e in events if e["e"] == "draw"]
        if all(draws[c + 1]["call"]["var"] * 4 == a["cov"][c][0][0][0] ** 2 for c in range(len(a["loc"]))):
            tags.append("d1-variance-used-as-std")          # normal(loc, scale=variance): scale**2 = variance**2
    return tuple(tags)


def describe(case):
    gen, a = case["gen"], case["args"]
    fn, kw = datagen.real_args(gen, a)
    kws = ", ".join(f"{k}={np.asarray(v).tolist() if isinstance(v, np.ndarray) else v}" for k, v in kw.items())
    return f"{fn.__name__}({kws}) with scripted RNG answers {case['rets']}"


def run_proto(rep, tier, only=None):
    r, consts, cases = enumerate_proto(tier)
    rep.add_tlc("Data[proto]", r, note="generator x args x labels x Student factors x permutations; invariants Shapes, Provenance")
    if r.violated:
        rep.violation(f"Data violates its own invariant {r.violated}", {"trace": r.trace[:3000]}, tags=("spec",))
        return None
    if only is not None:
        cases = [c for c in cases if all(c[k] == only[k] for k in ("gen", "args", "rets"))]
    traces, metas = [], []
    for case in cases:
        events, res, err = datagen.record(case["gen"], case["args"], case["rets"])
        traces.append(events)
        metas.append(dict(case=case, events=events, bad=diff_case(case, events, res), err=err))
        rep.case((case["gen"], case["args"], case["rets"]), nontrivial=case["args"]["n"] > 1)
    if not traces:
        raise MachineryError("no protocol case to run")
    res = trace.validate("DataTrace", traces, constants=TRACE_CONSTS, invariants=TRACE_INVS, timeout=3000)
    rep.add_tlc("DataTrace", res["result"], note=f"{len(traces)} recorded runs of the real generators")
    rep.traces += len(traces)
    groups = collections.OrderedDict()
    for inv, tid in res["inv_violations"]:
        m = metas[tid - 1]
        groups.setdefault((m["case"]["gen"], inv), []).append((tid, m, [inv]))
    rejected = set(res["rejected"]) - {t for _, t in res["inv_violations"]}
    for tid, m in enumerate(metas, 1):
        if tid in rejected or m["bad"]:
            # the two directions must agree: a trace DataTrace rejects differs from the emitted expectation and vice versa
            why = m["bad"] if m["bad"] else ["trace-rejected-unexplained"]
            if tid not in rejected:
                why = why + ["trace-accepted-but-output-differs"]
            groups.setdefault(classify(m["case"], m["events"], why), []).append((tid, m, why))
    diagnosed = 0
    for key, items in groups.items():
        items.sort(key=lambda it: (it[1]["case"]["args"]["n"], len(json.dumps(it[1]["case"]["rets"]))))
        tid, m, why = items[0]
        dg = None
        if diagnosed < 3 and tid in rejected and m["err"] is None:
            dg = trace.diagnose("DataTrace", traces, tid, constants=TRACE_CONSTS)
            diagnosed += 1
        stuck = ""
        if dg:
            failing = [k for k, v in (dg["diag"] or {}).items() if v is False]
            stuck = f"; DataTrace stuck at event #{dg['l']} {json.dumps(dg['event'])[:300]}, failing clauses {failing}"
        errs = f"; raised {type(m['err']).__name__}: {m['err']}" if m["err"] is not None else ""
        rep.violation(f"{len(items)} run(s) of {m['case']['gen']} are not behaviours of the documented protocol "
                      f"({', '.join(why)}); smallest: {describe(m['case'])}{errs}{stuck}",
                      {"part": "proto", "case": {k: m["case"][k] for k in ("gen", "args", "rets")}, "why": why,
                       "events": m["events"], "count": len(items)}, tags=key)
    done = collections.Counter(c["gen"] for c in cases)
    if only is None and any(done[g] == 0 for g in datagen.GENERATORS):
        raise MachineryError(f"vacuous enumeration: no protocol case for some generator ({dict(done)})")
    rep.extra["protocol_runs_per_generator"] = dict(done)
    if cases:
        c = cases[len(cases) // 2]
        rep.sample({"gen": c["gen"], "args": c["args"], "rng_answers": c["rets"], "expected_X_tenths": c["X"][:2], "y": c["y"]})
    return consts


# ---------------------------------------------------------------------------------------------------------------------
# (2) validity
def build_valid(p, idx):
    from gemclus import data as gd
    vp = p["vp"]
    n = 1 + idx % 3
    if p["gen"] == "student":
        d, r, c = vp["d"], vp["r"], vp["c"]
        return gd.multivariate_student_t, dict(n=n, loc=np.zeros(d), scale=np.eye(r) if r == c else np.ones((r, c)), df=3), (n, d), None
    K, d = vp["K"], vp["d"]
    loc = np.arange(K * d, dtype=float).reshape(K, d)
    cov = np.array(vp["cov"], dtype=float)
    if vp["layout"] == "K1":
        cov = cov.reshape(len(vp["cov"]), 1)
    return gd.draw_gmm, dict(n=n, loc=loc, scale=cov, pvals=np.array(vp["p"], dtype=float) / vp["pden"]), (n, d), K


def check_valid_case(rep, p, idx, groups):
    fn, kw, shape, K = build_valid(p, idx)
    err = res = None
    try:
        with warnings.catch_warnings():
            warnings.simplefilter("ignore")
            res = fn(random_state=idx, **kw)
    except Exception as e:
        err = e
    vp = p["vp"]
    rep.case((p["gen"], vp), nontrivial=True)
    msg, tags = None, None
    if p["valid"] and not p["borderline"]:
        if err is not None:
            msg = f"a parameter set that describes a mixture is rejected: {type(err).__name__}: {str(err)[:160]}"
            tags = (p["gen"], "valid-rejected", vp.get("layout", ""))
            if vp.get("layout") == "K11":
                tags += ("d1-cov-shape-dxd-rejected",)
    elif not p["valid"]:
        if err is None:
            msg, tags = "a parameter set that does not describe a mixture is accepted", (p["gen"], "invalid-accepted") + tuple(p["why"])
        elif not isinstance(err, (ValueError, TypeError)):
            msg, tags = f"rejected with {type(err).__name__} instead of ValueError/TypeError: {err}", (p["gen"], "wrong-exception") + tuple(p["why"])
    if msg is None and err is None:
        X, y = (res, None) if p["gen"] == "student" else res
        if np.shape(X) != shape or (y is not None and (np.shape(y) != (shape[0],) or not set(np.unique(y)) <= set(range(K)))):
            msg, tags = f"accepted but returned shapes {np.shape(X)} / labels {None if y is None else np.unique(y)}", (p["gen"], "shape")
    if msg:
        groups.setdefault(tags, []).append((json.dumps(vp, sort_keys=True), msg, p, {k: np.asarray(v).tolist() for k, v in kw.items()}))


def run_valid(rep, tier, only=None):
    c = tlc.cfg(init="DInit", next="Next", invariants=["Emit", "PSDIsDefinition"],
                constants=dict(MODE="valid", NMAX=1, STRIDE=32 if tier == "quick" else 1, GSCALE=1))
    r = tlc.run("Data", c, timeout=3000)
    rep.add_tlc("Data[valid]", r, note="parameter sets of draw_gmm (all valid and single-fault sets, sampled multi-fault sets) and "
                                       "multivariate_student_t with the verdict of Valid; invariant PSDIsDefinition")
    if r.violated:
        rep.violation(f"Data violates its own invariant {r.violated}", {"trace": r.trace[:3000]}, tags=("spec",))
        return
    cases = [p for p in r.prints if p.get("mode") == "valid"]
    if only is not None:
        cases = [p for p in cases if p["vp"] == only]
    if not cases:
        raise MachineryError("Data (valid) printed no case")
    groups = collections.OrderedDict()
    for idx, p in enumerate(sorted(cases, key=lambda q: json.dumps(q, sort_keys=True))):
        check_valid_case(rep, p, idx, groups)
    for tags, items in groups.items():
        items.sort(key=lambda it: (len(it[0]), it[0]))
        _, msg, p, kw = items[0]
        rep.violation(f"{len(items)} parameter set(s): {msg}; smallest: {p['gen']}(**{kw}) [spec: valid={p['valid']} why={p['why']}]",
                      {"part": "valid", "vp": p["vp"], "gen": p["gen"], "kwargs": kw, "count": len(items)}, tags=tags)
    cnt = collections.Counter("valid" if p["valid"] and not p["borderline"] else "borderline" if p["valid"] else "invalid" for p in cases)
    rep.extra["parameter_sets"] = dict(cnt)
    rep.sample({"parameter_set": cases[len(cases) // 3]["vp"], "valid": cases[len(cases) // 3]["valid"], "why": cases[len(cases) // 3]["why"]})


# ---------------------------------------------------------------------------------------------------------------------
# (3) real seeds
def seed_configs(tier):
    from gemclus import data as gd
    ns = [1, 2, 7, 64] if tier == "quick" else [1, 2, 3, 7, 64, 501]
    loc2 = [[0.0, 1.0], [-2.5, 3.0], [4.0, -0.5]]
    cov2 = [[[2.0, 1.0], [1.0, 1.0]], [[1.0, 0.0], [0.0, 3.0]], [[4.0, -2.0], [-2.0, 2.0]]]
    out = []
    for n in ns:
        out.append(("draw_gmm", gd.draw_gmm, dict(n=n, loc=loc2, scale=cov2, pvals=[0.5, 0.125, 0.375]), (n, 2), 3))
        out.append(("draw_gmm", gd.draw_gmm, dict(n=n, loc=[[-1.5], [2.0]], scale=[[4.0], [1.0]], pvals=[0.25, 0.75]), (n, 1), 2))
        for df in (0.5, 3):
            out.append(("multivariate_student_t", gd.multivariate_student_t, dict(n=n, loc=[-1.5, 2.0], scale=cov2[0], df=df), (n, 2), None))
        out.append(("gstm", gd.gstm, dict(n=n + 3, alpha=2, df=1), (n + 3, 2), 4))
        out.append(("gstm", gd.gstm, dict(n=n + 4, alpha=0.5, df=2.5), (n + 4, 2), 4))
        for p in (1, 20):
            out.append(("celeux_one", gd.celeux_one, dict(n=n, p=p, mu=1.7), (n, 5 + p), 3))
        out.append(("celeux_two", gd.celeux_two, dict(n=n), (n, 14), 4))
    out.append(("gstm", gd.gstm, dict(), (500, 2), 4))                   # documented defaults
    out.append(("celeux_one", gd.celeux_one, dict(), (300, 25), 3))
    out.append(("celeux_two", gd.celeux_two, dict(), (2000, 14), 4))
    return out


def run_seeds(rep, tier):
    seeds = [0, 1, 2024] if tier == "quick" else [0, 1, 2, 7, 2024, 2 ** 31 - 1]
    for name, fn, kw, shape, K in seed_configs(tier):
        outs = {}
        for s in seeds:
            def call():
                with warnings.catch_warnings():
                    warnings.simplefilter("ignore")
                    r = fn(random_state=s, **kw)
                return (np.asarray(r), None) if K is None else (np.asarray(r[0]), np.asarray(r[1]))
            rep.case(("seed", name, kw, s), nontrivial=shape[0] > 1)
            try:
                (X1, y1), (X2, y2) = call(), call()
            except Exception as e:
                rep.violation(f"{name}(**{kw}, random_state={s}) raised {type(e).__name__}: {e}",
                              {"part": "seeds", "gen": name, "kwargs": kw, "seed": s}, tags=(name, "raises"))
                continue
            bad = []
            if X1.shape != shape or (K is not None and y1.shape != (shape[0],)):
                bad.append(f"shape X{X1.shape} y{None if y1 is None else y1.shape}, documented {shape}")
            if K is not None and not all(float(v) == int(v) and 0 <= int(v) < K for v in y1.ravel()):
                bad.append(f"labels {np.unique(y1)} not in 0..{K - 1}")
            if not np.all(np.isfinite(X1)):
                bad.append("non-finite sample")
            if not np.array_equal(X1, X2) or (K is not None and not np.array_equal(y1, y2)):
                bad.append("two calls with the same integer seed differ")
            if bad:
                rep.violation(f"{name}(**{kw}, random_state={s}): " + "; ".join(bad),
                              {"part": "seeds", "gen": name, "kwargs": kw, "seed": s}, tags=(name, "seed") + tuple(b.split()[0] for b in bad))
            outs[s] = X1
        ss = sorted(outs)
        if len(ss) > 1 and all(outs[a].shape == outs[ss[0]].shape and np.array_equal(outs[a], outs[ss[0]]) for a in ss[1:]):
            rep.violation(f"{name}(**{kw}): the samples do not depend on the integer seed (seeds {ss})",
                          {"part": "seeds", "gen": name, "kwargs": kw}, tags=(name, "seed-ignored"))


# ---------------------------------------------------------------------------------------------------------------------
# (4) affine structure of celeux_two, read off exactly with zero noise
def run_affine(rep, consts, tier):
    from gemclus import data as gd
    b = np.array(consts["b2"], dtype=float) / 2.0
    off = np.array(consts["off"], dtype=float) / datagen.S
    for seed in (0, 1, 2):
        for n in (1, 5, 200):
            rs = np.random.RandomState(1000 * seed + n)
            y = rs.randint(0, 4, size=n).tolist()
            rng = datagen.ScriptedRNG(dict(y=y, zero={6}, real=rs))
            X, yy = gd.celeux_two(n=n, random_state=rng)
            rep.case(("affine", seed, n), nontrivial=n > 1)
            good = X[:, :2]
            want = off + good @ b
            err = float(np.max(np.abs(X[:, 2:11] - want))) if X.shape == (n, 14) else float("inf")
            if not (err <= 1e-9) or rng.c != 7 or list(yy) != y:
                rep.violation(f"celeux_two(n={n}) with the 9-d noise scripted to zero: X[:,2:11] differs from offsets + X[:,0:2] @ b by "
                              f"{err:.3g} (RNG calls {rng.c}, labels returned unchanged: {list(yy) == y})",
                              {"part": "affine", "seed": seed, "n": n}, tags=("celeux_two", "affine"))


# ---------------------------------------------------------------------------------------------------------------------
# (5) NUMERIC SIDE-CHECK: moments within 6 sigma (fixed seeds; complements, does not replace, the protocol evidence)
def moments(rep, name, X, mean, cov, kurt, what, tags, kw):
    """X: samples of one component.  kurt = (df-2)/(df-4) for Student-t, 1 for Gaussians."""
    n = len(X)
    mean, cov = np.asarray(mean, dtype=float), np.asarray(cov, dtype=float)
    dm = np.abs(X.mean(axis=0) - mean)
    tm = 6.0 * np.sqrt(np.diag(cov) / n)
    dc = np.abs(np.cov(X.T).reshape(cov.shape) - cov)
    tc = 6.0 * np.sqrt(3.0 * kurt * np.outer(np.diag(cov), np.diag(cov)) / n)
    rep.case(("moments", name, what))
    if np.any(dm > tm) or np.any(dc > tc):
        j = int(np.argmax(dm / tm))
        ij = np.unravel_index(int(np.argmax(dc / tc)), dc.shape)
        which = []
        if np.any(dm > tm):
            which.append(f"mean[{j}] = {X.mean(axis=0)[j]:.4f}, documented {mean[j]:.4f} (6 sigma = {tm[j]:.4f})")
        if np.any(dc > tc):
            which.append(f"cov{list(map(int, ij))} = {np.cov(X.T).reshape(cov.shape)[ij]:.4f}, documented {cov[ij]:.4f} (6 sigma = {tc[ij]:.4f})")
        rep.violation(f"[numeric side-check] {name} {what} (n={n}): " + "; ".join(which),
                      {"part": "numeric", "gen": name, "kwargs": kw, "what": what}, tags=tags)


def proportions(rep, name, y, p, tags, kw):
    n = len(y)
    for c, pc in enumerate(p):
        f = float(np.mean(y == c))
        rep.case(("proportion", name, c))
        if abs(f - pc) > 6.0 * np.sqrt(pc * (1 - pc) / n):
            rep.violation(f"[numeric side-check] {name}: proportion of component {c} = {f:.4f}, documented {pc:.4f} (n={n})",
                          {"part": "numeric", "gen": name, "kwargs": kw, "what": f"proportion {c}"}, tags=tags + ("proportion",))


def run_numeric(rep, consts, tier):
    from gemclus import data as gd
    N = 40000 if tier == "quick" else 200000
    with warnings.catch_warnings():
        warnings.simplefilter("ignore")
        # draw_gmm, two dimensions
        loc = [[0.0, 1.0], [-2.5, 3.0], [4.0, -0.5]]
        cov = [[[2.0, 1.0], [1.0, 1.0]], [[1.0, 0.0], [0.0, 3.0]], [[4.0, -2.0], [-2.0, 2.0]]]
        p = [0.5, 0.125, 0.375]
        kw = dict(n=N, loc=loc, scale=cov, pvals=p)
        X, y = gd.draw_gmm(random_state=11, **kw)
        proportions(rep, "draw_gmm[d=2]", y, p, ("draw_gmm", "numeric"), kw)
        for c in range(3):
            moments(rep, "draw_gmm[d=2]", X[y == c], loc[c], cov[c], 1.0, f"component {c}", ("draw_gmm", "numeric", "d=2"), kw)
        # draw_gmm, one dimension: the 1 x 1 covariances are variances
        kw = dict(n=N, loc=[[-1.5], [2.0]], scale=[[4.0], [0.25]], pvals=[0.25, 0.75])
        X, y = gd.draw_gmm(random_state=12, **kw)
        proportions(rep, "draw_gmm[d=1]", y, kw["pvals"], ("draw_gmm", "numeric"), kw)
        for c in range(2):
            moments(rep, "draw_gmm[d=1]", X[y == c], kw["loc"][c], [kw["scale"][c]], 1.0, f"component {c}",
                    ("draw_gmm", "numeric", "d=1", "d1-variance-used-as-std"), kw)
        # Student-t, df = 10: mean loc, covariance df/(df-2) * scale
        kw = dict(n=N, loc=[-1.5, 2.0], scale=cov[0], df=10)
        X = gd.multivariate_student_t(random_state=13, **kw)
        moments(rep, "multivariate_student_t", X, kw["loc"], np.array(cov[0]) * 10 / 8, 8 / 6, "df=10", ("student", "numeric"), kw)
        # gstm
        NG = N + 2                         # not a multiple of 4: pins n_gaussian = 3n // 4
        kw = dict(n=NG, alpha=2, df=10)
        X, y = gd.gstm(random_state=14, **kw)
        ng = 3 * NG // 4
        rep.case(("gstm", "student count"))
        if int(np.sum(y == 3)) != NG - ng:
            rep.violation(f"[numeric side-check] gstm: {int(np.sum(y == 3))} samples labelled 3, documented n - 3n//4 = {NG - ng}",
                          {"part": "numeric", "gen": "gstm", "kwargs": kw}, tags=("gstm", "numeric", "student-count"))
        proportions(rep, "gstm", y[y < 3], [1 / 3] * 3, ("gstm", "numeric"), kw)
        for c, m in enumerate([[2, 2], [2, -2], [-2, 2]]):
            moments(rep, "gstm", X[y == c], m, np.eye(2), 1.0, f"Gaussian component {c}", ("gstm", "numeric"), kw)
        moments(rep, "gstm", X[y == 3], [-2, -2], np.eye(2) * 10 / 8, 8 / 6, "Student-t component", ("gstm", "numeric", "student"), kw)
        # celeux_one
        kw = dict(n=N, p=3, mu=1.7)
        X, y = gd.celeux_one(random_state=15, **kw)
        proportions(rep, "celeux_one", y, [1 / 3] * 3, ("celeux_one", "numeric"), kw)
        for c, s in enumerate([1.7, -1.7, 0.0]):
            moments(rep, "celeux_one", X[y == c], [s] * 5 + [0.0] * 3, np.eye(8), 1.0, f"component {c}", ("celeux_one", "numeric"), kw)
        # celeux_two: per-component mean and covariance of all 14 variables from the documented construction
        b = np.array(consts["b2"], dtype=float) / 2.0
        off = np.array(consts["off"], dtype=float) / datagen.S
        om = np.array([[datagen.dec_z4(e) for e in row] for row in consts["covnoise"]])
        full = np.zeros((14, 14))
        full[:2, :2] = np.eye(2)
        full[:2, 2:11] = b
        full[2:11, :2] = b.T
        full[2:11, 2:11] = b.T @ b + om
        full[11:, 11:] = np.eye(3)
        kw = dict(n=N)
        X, y = gd.celeux_two(random_state=16, **kw)
        proportions(rep, "celeux_two", y, [0.25] * 4, ("celeux_two", "numeric"), kw)
        for c, m in enumerate(np.array(consts["means2"], dtype=float) / datagen.S):
            mean = np.concatenate([m, off + m @ b, np.array(consts["noisemean"], dtype=float) / datagen.S])
            moments(rep, "celeux_two", X[y == c], mean, full, 1.0, f"component {c}", ("celeux_two", "numeric"), kw)


# ---------------------------------------------------------------------------------------------------------------------
def run(tier):
    rep = Report("C20", tier)
    rep.rule = ("(1) a case is one run of a real generator on the scripted RNG = (generator, arguments, label vector answered by "
                "choice, Student factors, permutation) as enumerated by TLC from Data.tla (n <= 3 quick / 4 thorough, K <= 3 for "
                "draw_gmm, gstm n in 4..NMAX+3 with a hash sample of the permutations); non-trivial = n > 1; every run is "
                "validated as a trace by DataTrace and compared with the emitted expected arrays; (2) one case per parameter set "
                "(all valid and single-fault sets, 1/32 of the multi-fault sets in the quick tier); (3) one case per "
                "(generator, arguments, integer seed); (4) zero-noise runs of celeux_two; (5) numeric side-check")
    rep.exhaustive = False
    consts = run_proto(rep, tier)
    run_valid(rep, tier)
    run_seeds(rep, tier)
    if consts is not None:
        run_affine(rep, consts, tier)
        run_numeric(rep, consts, tier)
    rep.assumptions = [
        "NumPy's samplers (choice, normal, multivariate_normal, chisquare, permutation) are trusted: 'matches the documented "
        "distribution within sampling error' is decided by 'the documented parameters reach the samplers, in the documented order, and "
        "rows are routed by label'; the 6-sigma moment test is a labelled side-check",
        "the docstrings give shapes, defaults and the construction in words and cite their sources; the constants of Data.tla are "
        "those of the cited constructions (Celeux et al. 2014 sections 3.1 / 3.2, the GEMINI paper's Gaussian-Student mixture), "
        "transcribed from memory of the papers without network access; celeux_one's docstring 'means 1, 0 and 1' is read as "
        "mu_1 = -mu_2 = mu*1_5, mu_3 = 0",
        "in one dimension the documented (d,d) covariance is the variance of the component; both array layouts (K,1) [used by the "
        "repository's tests] and (K,1,1) [the documented list of (d,d) arrays] are taken to describe a valid mixture",
        "acceptance is asserted only for exactly representable proportions (quarters) and for covariances whose zero eigenvalues "
        "cannot be perturbed by rounding (non-singular or diagonal); rejection of the all-zero covariance / zero variance follows "
        "the repository's tests; non-symmetric matrices are outside the enumerated space",
        "scripted chisquare answers are df / sf^2 with sf in {1, 2} so that sqrt(df / u) is exact"]
    return rep.finish()


def replay(path):
    blob = json.load(open(path))
    case = blob["case"]
    print("replaying", json.dumps({k: v for k, v in case.items() if k != "events"})[:1500])
    rep = Report("C20", "quick")
    if case.get("part") == "proto":
        run_proto(rep, "thorough" if case["case"]["args"]["n"] > 3 else "quick", only=case["case"])
    elif case.get("part") == "valid":
        run_valid(rep, "thorough", only=case["vp"])
    elif case.get("part") == "seeds":
        run_seeds(rep, "quick")
    else:
        r, consts, _ = enumerate_proto("quick")
        (run_affine if case.get("part") == "affine" else run_numeric)(rep, consts, "quick")
    for desc, _ in rep.violations:
        print("  " + desc[:800])
    return 1 if rep.violations else 0
