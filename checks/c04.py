"""C04 - fit succeeds on every valid configuration and yields a coherent model.
Config.tla states the space of valid configurations of the 18 estimators x legal datasets and the post-state of a successful
fit; TLC draws a deterministic seed-dependent sample of the cross product (every draw a state, combination rules evaluated by
TLC); every valid draw is fitted for real under the TrainTrace recorder: the fit must not raise, its trace must be a
behaviour of Train (so max_iter epochs really happened, n_iter_ reflects them) and its Finish event must be coherent:
labels in range, probability rows, predict = argmax = labels_, score = GEMINI(predict_proba), optimiser = solver."""
import json, random, collections
import numpy as np
from vf import config, trace, train, params as _p
from vf.common import SEED, MachineryError
from vf.report import Report

OWN = {"coherent", "niter", "allepochs", "phase", "epochsleft", "eof"}


def run_draws(rep, tier, awkward, own, pid, ndraws):
    rnd = random.Random(SEED + (17 if awkward else 4))
    r = config.draws(ndraws, awkward=awkward)
    rep.add_tlc("Config", r, note=f"{ndraws} draws of the configuration cross product (AWKWARD={awkward})")
    seen_est, seen_vals = collections.Counter(), set()
    traces, meta = [], []
    for case in sorted(r.prints, key=lambda c: c["i"]):
        if not case["valid"]:
            continue
        with _p.quiet():
            model, X, y, info = config.build(case, rnd)
        seen_est[info["est"]] += 1
        for p in case["params"]:
            seen_vals.add((case["est"], p["name"], p["val"]))
        rep.case((case["est"], json.dumps(case["params"]), json.dumps(case["data"])))
        Xin = info.pop("Xin")
        if case["est"] == "Kauri":
            with _p.quiet():
                try:
                    model.fit(Xin, y)
                    bad = config.kauri_coherence(model, np.asarray(Xin), y)
                except Exception as e:
                    bad = [f"fit raised {type(e).__name__}: {e}"]
            if bad:
                rep.violation(f"Kauri {info}: {bad}", {"case": case, "info": info}, tags=("Kauri", "raises" if "raised" in bad[0] else "incoherent"))
            continue
        with _p.quiet():
            ev, err = train.record_fit(model, Xin, y, ids="match", decorated=info["decorated"])
        if err is not None:
            rep.violation(f"fit of a valid configuration raised {type(err).__name__}: {err} -- {info}", {"case": case, "info": info},
                          tags=("raises", info["est"], type(err).__name__))
            continue
        traces.append(ev)
        meta.append(info)
        # the same (already fitted) estimator must also fit other valid data: one feature less, same hyperparameters
        ps = {p["name"]: p["val"] for p in case["params"]}
        d = X.shape[1]
        if case["i"] % 3 == 0 and d >= 2 and not (ps.get("groups") == "pair01" and d - 1 < 2) and ps.get("groups") != "all_single" \
                and ps.get("feature_mask", "none") == "none" and not info["decorated"]:
            with _p.quiet():
                try:
                    model.fit(np.asarray(X)[:, : d - 1], y)
                    bad = train.coherence(model, np.asarray(X)[:, : d - 1], y)
                except Exception as e:
                    bad = [f"raised {type(e).__name__}: {e}"]
            rep.case((case["est"], json.dumps(case["params"]), "refit-narrower"))
            if bad:
                rep.violation(f"second fit of the same estimator on data with one feature less: {bad} -- {info}", {"case": case, "info": info},
                              tags=("refit", info["est"]))
    missing = [e for e in ("LinearModel", "LinearMMD", "LinearWasserstein", "RIM", "KernelRIM", "MLPModel", "MLPMMD", "MLPWasserstein",
                           "SparseLinearModel", "SparseLinearMMD", "SparseLinearMI", "SparseMLPModel", "SparseMLPMMD", "CategoricalModel",
                           "CategoricalMMD", "CategoricalWasserstein", "Douglas", "Kauri") if seen_est[e] == 0]
    if missing:
        raise MachineryError(f"sample misses estimators {missing}")
    rep.extra["fits_per_estimator"] = dict(seen_est)
    rep.extra["distinct_parameter_values_exercised"] = len(seen_vals)
    if traces:
        res = trace.validate("TrainTrace", traces, invariants=["BatchSizeOK", "StepCount"], timeout=3000)
        rep.add_tlc("TrainTrace", res["result"], note=f"{len(traces)} traces")
        rep.traces += len(traces)
        for inv, tid in res["inv_violations"]:
            rep.violation(f"real fit violates {inv}: {meta[tid - 1] if tid else ''}", {"info": meta[tid - 1] if tid else None}, tags=(inv,))
        for tid in res["rejected"]:
            if any(t == tid for _, t in res["inv_violations"]):
                continue
            dg = trace.diagnose("TrainTrace", traces, tid)
            failing = [k for k, v in (dg["diag"] or {}).items() if v is False]
            if failing and not (set(failing) & own):
                continue
            why = dg["event"].get("why", "") if dg["event"] else ""
            rep.violation(f"fit of {meta[tid - 1]} rejected at event #{dg['l']} {json.dumps(dg['event'])[:260]}; failing clauses {failing} {why}",
                          {"info": meta[tid - 1], "diag": dg}, tags=tuple(failing) + (meta[tid - 1]["est"], meta[tid - 1]["data_kind"]))
        rep.sample({"info": meta[0], "finish_event": traces[0][-1]})


def run(tier):
    rep = Report("C04", tier)
    rep.rule = ("TLC draws NDRAWS points of the cross product of in-domain hyperparameter representatives x dataset classes for the 18 "
                "estimators (hash-selected, seed dependent; combination rules evaluated by TLC); a case = one valid draw = one real fit")
    run_draws(rep, tier, False, OWN, "C04", 1500 if tier == "quick" else 12000)
    rep.assumptions = ["representative in-domain values per hyperparameter (not all reals); max_iter <= 3; datasets n <= 8, d <= 3",
                       "coherence predicates are evaluated by the recorder on the fitted model and required TRUE by the trace spec"]
    return rep.finish()


def replay(path):
    print(json.dumps(json.load(open(path)), indent=1)[:4000])
    return 1
