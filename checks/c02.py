"""C02 - GEMINI gradients are the exact derivative of the returned score.
The first-principles definitions of spec/Gemini.tla are evaluated by TLC on dual numbers seeded with every elementary
simplex direction e_{i,k} - e_{i,K}; the exact directional derivative (term bag) is compared with <grad, E> of the code at
every point the spec classifies as smooth along that direction."""
import json
import numpy as np
from vf import gem
from vf.report import Report

QUICK = [((2, 2, 4), 1.0), ((3, 2, 4), 1.0), ((2, 3, 6), 1.0), ((1, 3, 6), 1.0), ((3, 3, 6), 0.016), ((2, 4, 8), 0.03)]
THOROUGH = [((1, 2, 4), 1.0), ((2, 2, 4), 1.0), ((3, 2, 4), 1.0), ((4, 2, 4), 1.0), ((2, 3, 6), 1.0), ((1, 3, 6), 1.0),
            ((3, 3, 6), 0.2), ((2, 4, 8), 0.3), ((3, 4, 8), 0.01), ((4, 3, 6), 0.016), ((2, 2, 16), 1.0),
            ((3, 2, 8), 0.5), ((2, 3, 12), 0.125)]
EPS = 1e-12
_BUF = {}


def check_case(rep, case, stats):
    n, k, q = case["n"], case["k"], case["q"]
    P = np.array(case["a"], dtype=float) / q
    x = case["x"]
    base = {(b["name"], b["aff"]): b for b in case["base"]}
    cache = {}
    aliases = []
    scale_of = {}
    for (name, aff), b in base.items():
        A = gem.affinity(name, aff, x)
        # the unit of the affinity must not matter: MMD (and its gradient) scales with sqrt(s), Wasserstein with s
        sc = 1.0 if A is None else (1.0, 2.0 ** (-30 if name.startswith("wasserstein") else -46), 2.0 ** 20)[(sum(map(sum, case["a"])) + sum(case["a"][0]) * 7 + case["a"][-1][0] * 3 + len(name) + len(aff) + sum(x)) % 3]
        scale_of[(name, aff)] = 1.0 if A is None else (np.sqrt(sc) if name.startswith("mmd") else sc)
        A = None if A is None else A * sc
        for label, g in gem.code_instances(name):
            try:
                v0 = float(g(P.copy(), None if A is None else A.copy()))
                Ab = None
                if A is not None:
                    # same GEMINI object, same affinity BUFFER overwritten in place (as a caller reusing a kernel buffer would)
                    Ab = _BUF.setdefault((name[:3], n), np.zeros((n, n)))
                    g(P.copy(), Ab, return_grad=True)            # previous contents
                    np.copyto(Ab, A)
                v1, G = g(P.copy(), Ab, return_grad=True)
                v2, G2 = g.evaluate(P.copy(), None if A is None else A.copy(), return_grad=True)
            except Exception as e:
                rep.violation(f"n={n} K={k} P={case['a']}/{q} x={x}: {name}[{aff}] via {label} raised "
                              f"{type(e).__name__}: {e}", {"case": _c(case), "name": name, "aff": aff},
                              tags=(name, f"K={k}", f"n={n}", "raises"))
                continue
            Graw = G
            G = np.array(G, dtype=float, copy=True)
            G2 = np.array(G2, dtype=float, copy=True)
            try:
                g(np.ascontiguousarray(P[::-1, ::-1]), None if A is None else A.copy(), return_grad=True)     # the object's next batch
            except Exception:
                pass
            cache[(name, aff, label)] = G
            aliases.append((name, aff, label, np.array(Graw, dtype=float, copy=True), G))      # as the returned array looks NOW
            problems = []
            if G.shape != P.shape:
                problems.append(f"gradient shape {G.shape} != {P.shape}")
            if not (abs(float(v1) - v0) <= 1e-12 * max(1, abs(v0))):
                problems.append(f"score with return_grad ({float(v1)!r}) differs from score without ({v0!r})")
            if not (np.array_equal(np.asarray(G2), G) and float(v2) == float(v1)):
                problems.append("evaluate(...) and __call__(...) disagree")
            if not np.all(np.isfinite(G)):
                problems.append("non-finite gradient on the open simplex")
            try:
                v3, G3 = g(np.asfortranarray(P), None if A is None else np.asfortranarray(A), return_grad=True)
                tolg = 1e-9 * max(1e-300, float(np.abs(G).max()))
                if np.shape(G3) != G.shape or not np.allclose(G3, G, rtol=1e-9, atol=tolg) or abs(float(v3) - float(v1)) > 1e-9 * max(abs(float(v1)), tolg):
                    problems.append(f"Fortran-ordered inputs give another score / gradient ({float(v3)!r} vs {float(v1)!r})")
            except Exception as e:
                problems.append(f"Fortran-ordered inputs raise {type(e).__name__}: {e}")
            for pr in problems:
                rep.violation(f"n={n} K={k} P={case['a']}/{q} x={x}: {name}[{aff}] via {label}: {pr}",
                              {"case": _c(case), "name": name, "aff": aff}, tags=(name, f"K={k}", f"n={n}", "shape"))
    # what was returned as the gradient at P stays the gradient at P: the evaluations made since (same object) must not have
    # rewritten the returned array
    for (name, aff, label, Graw, Gcopy) in aliases:
        if np.shape(Graw) == Gcopy.shape and not np.array_equal(np.asarray(Graw, dtype=float), Gcopy):
            rep.violation(f"n={n} K={k} P={case['a']}/{q} x={x}: the gradient array returned by {name}[{aff}] via {label} was overwritten "
                          f"by a later evaluation of the same object", {"case": _c(case), "name": name, "aff": aff}, tags=(name, "alias"))
    for d in case["dirs"]:
        i, kk = d["i"] - 1, d["k"] - 1
        for res in d["r"]:
            name, aff = res["name"], res["aff"]
            stats["dirs"] += 1
            if not res["s"]:
                stats["nonsmooth"] += 1
                continue
            expected = gem.bag_eval(res["d"]) * scale_of[(name, aff)]
            fac = scale_of[(name, aff)]
            for label, g in gem.code_instances(name):
                G = cache.get((name, aff, label))
                if G is None or G.shape != P.shape:
                    continue
                got = float(G[i, kk] - G[i, k - 1])
                rep.case(((n, k, q), case["a"], x, name, aff, d["i"], d["k"]))
                if not (abs(got - expected) <= 1e-7 * max(fac, abs(expected))):
                    rep.violation(
                        f"n={n} K={k} P={case['a']}/{q} x={x}: d/dt {name}[{aff}](P + t(e[{d['i']},{d['k']}]-e[{d['i']},{k}])) "
                        f"spec={expected!r} but <grad,E>={got!r} via {label}",
                        {"case": _c(case), "name": name, "aff": aff, "dir": [d["i"], d["k"]], "expected": expected},
                        tags=(name, f"K={k}", f"n={n}", "derivative"))


def _c(case):
    return {kk: case[kk] for kk in ("n", "k", "q", "a", "x")}


def clipped_entries(rep):
    """Entries clipped at the epsilon bounds receive zero gradient (closed-simplex rows), all 13 names."""
    from gemclus.gemini._utils import _str_to_gemini, AVAILABLE_GEMINIS
    mats = [np.array([[1.0, 0.0], [0.5, 0.5], [0.25, 0.75]]), np.array([[1.0, 0.0, 0.0], [0.0, 0.5, 0.5], [0.2, 0.3, 0.5]]),
            np.array([[0.0, 1.0, 0.0, 0.0], [0.25, 0.25, 0.25, 0.25], [0.5, 0.0, 0.5, 0.0], [0.1, 0.2, 0.3, 0.4]])]
    for P in mats:
        n = len(P)
        xs = np.arange(n, dtype=float)
        for name in AVAILABLE_GEMINIS:
            A = gem.affinity(name, "lin1" if name.startswith("mmd") else "abs", xs)
            g = _str_to_gemini(name)
            mask = (P <= EPS) | (P >= 1 - EPS)
            # the memory layout of the prediction array is not part of its value: C order, Fortran order, a transposed view
            for lay, Pl in (("C", P.copy()), ("F", np.asfortranarray(P)), ("view", np.ascontiguousarray(P.T).T)):
                v, G = g(Pl, A, return_grad=True)
                rep.case(("clip", P.tolist(), name, lay))
                if not np.all(np.asarray(G)[mask] == 0) or not np.all(np.isfinite(G)) or not np.isfinite(v):
                    rep.violation(f"{name}: clipped entries of P={P.tolist()} ({lay}-ordered array) receive gradient "
                                  f"{np.asarray(G)[mask].tolist()}", {"P": P.tolist(), "name": name, "layout": lay}, tags=(name, "clip", lay))


def run(tier):
    rep = Report("C02", tier)
    rep.rule = ("TLC enumerates count matrices (as C01) x 3 point sets x all N(K-1) elementary simplex directions and "
                "evaluates the definitions on dual numbers; a case is (shape, a, points, GEMINI, affinity, direction) at a "
                "point smooth along that direction; compared with G[i,k]-G[i,K] through every entry point")
    shapes = QUICK if tier == "quick" else THOROUGH
    stats = {"dirs": 0, "nonsmooth": 0}
    for shape, frac in shapes:
        r, nch = gem.enumerate_cases(shape, grad=True, frac=frac)
        rep.add_tlc("Gemini", r, note=f"GRAD shape={shape} chunks={nch}")
        for case in r.prints:
            check_case(rep, case, stats)
        if r.prints:
            c = r.prints[len(r.prints) // 3]
            d = c["dirs"][0]
            rep.sample({"shape": list(shape), "a": c["a"], "x": c["x"], "dir": [d["i"], d["k"]],
                        "spec_derivative": {f"{b['name']}:{b['aff']}": (round(gem.bag_eval(b["d"]), 12) if b["s"] else "non-smooth")
                                            for b in d["r"][:8]}})
    clipped_entries(rep)
    rep.extra["direction_evaluations"] = stats["dirs"]
    rep.extra["classified_non_smooth"] = stats["nonsmooth"]
    rep.assumptions = ["smoothness is decided exactly by the spec (TV sign ties with non-zero slope, zero squared MMD, "
                       "non-unique Kantorovich potentials along the direction are skipped and counted)",
                       "small exact grids; tolerance 1e-7 relative on the directional derivative"]
    return rep.finish()


def replay(path):
    blob = json.load(open(path))
    case = blob["case"]["case"]
    rep = Report("C02", "quick")
    r, _ = gem.enumerate_cases((case["n"], case["k"], case["q"]), grad=True, frac=1.0)
    stats = {"dirs": 0, "nonsmooth": 0}
    for c in r.prints:
        if c["a"] == case["a"] and c["x"] == case["x"]:
            check_case(rep, c, stats)
    for d, _ in rep.violations:
        print("VIOLATION", d)
    return 1 if rep.violations else 0
