#!/usr/bin/env python3
"""Generate /verif/MANIFEST.json from the table below (single source of truth for the registered checks)."""
import json, os
V = os.path.dirname(os.path.dirname(os.path.abspath(__file__)))
ALL = [f"C{i:02d}" for i in range(1, 21)]
CHECKS = {
 "C01": dict(technique="TLA+ spec (Gemini.tla: exact rational/term-bag definitions) enumerated by TLC, every case replayed into gemclus.gemini",
             text="Bounded-exhaustive model-based check: TLC enumerates every prediction matrix on a rational simplex grid x integer point sets for small (n,K) and computes each GEMINI from its textbook definition in exact arithmetic; the real functions are called on every emitted case through all registry/class entry points. Right level: the property quantifies over all inputs, and the vectorised code is shape-generic, so small-scope exhaustiveness with an independent exact oracle is the strongest affordable evidence.",
             note="small grids (n<=5, K<=4, denominators<=16); integer affinity matrices; float evaluation of term bags in the harness; POT is not trusted (W1 recomputed by the spec)", ref="DESIGN §4 C01"),
 "C02": dict(technique="TLA+ spec (Gemini.tla on dual numbers) enumerated by TLC: exact directional derivatives replayed against return_grad=True",
             text="Same grids as C01 x all elementary simplex directions; the spec differentiates the *definition* with forward-mode dual numbers and classifies non-smooth points exactly, so the code's hand-derived gradients are compared with exact derivatives, not finite differences.",
             note="small grids; smoothness classification by the spec; tolerance 1e-7 relative", ref="DESIGN §4 C02"),
 "C13": dict(technique="TLC invariants on Gemini.tla (permutation invariance of canonical term bags, zero/independence, MI=log K, bounds) + replay of every case into the code",
             text="The invariances are theorems of the specification checked by TLC in exact arithmetic on every enumerated case (open and closed simplex); the code is run on the same cases, their permutations and empty-cluster extensions.",
             note="small grids; closed-simplex tolerances account for epsilon clipping", ref="DESIGN §4 C13"),
}
def main():
    checks = []
    for pid in ALL:
        if pid not in CHECKS:
            continue
        c = CHECKS[pid]
        checks.append({
            "property_id": pid,
            "quick_cmd": f"./check {pid} --tier quick",
            "thorough_cmd": f"./check {pid} --tier thorough",
            "evidence_file": f"/verif/evidence/{pid}.json",
            "replay_cmd_template": f"./check {pid} --replay {{path}}",
            "engine": "tlc-conformance",
            "level_claimed": {"category": "model_checking", "text": c["text"], "design_ref": c["ref"]},
            "level_note": c["note"],
            "technique": c["technique"],
        })
    na = [{"property_id": p, "reason": "check under construction in this session (specification planned in DESIGN.md §4); not claimed yet"}
          for p in ALL if p not in CHECKS]
    m = {
        "version": 1,
        "setup_cmd": "cd /verif && ./setup.sh",
        "hooks": {"guard": "GEMCLUS_VERIF", "enable": "no source hooks: checks import /repo's working tree and observe it through public extension points (GEMCLUS_VERIF=1 is exported by ./check for any future hook)",
                  "baseline_off_cmd": "/venv/bin/python /verif/tools/baseline_check.py", "source_commits": [], "add_only": True},
        "engines": [{"name": "tlc-conformance", "path": "/verif/check", "serves_properties": sorted(CHECKS),
                     "kind_free_text": "TLA+ specifications in /verif/spec checked/enumerated by TLC 1.8; Python harness replays TLC behaviours into the real code and validates recorded traces against trace specs"}],
        "checks": checks,
        "not_applicable": na,
        "notes": "See DESIGN.md. ./check <id> exits 0 (held), 1 (VIOLATION line printed), 2 (machinery failure).",
    }
    json.dump(m, open(os.path.join(V, "MANIFEST.json"), "w"), indent=1)
    print("wrote MANIFEST.json with", len(checks), "checks")
if __name__ == "__main__":
    main()
