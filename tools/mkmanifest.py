#!/usr/bin/env python3
"""Generate /verif/MANIFEST.json from the table below (single source of truth for the registered checks)."""
import json, os
V = os.path.dirname(os.path.dirname(os.path.abspath(__file__)))
ALL = [f"C{i:02d}" for i in range(1, 21)]
CHECKS = {
 "C01": dict(technique="TLA+ spec (Gemini.tla: exact rational/term-bag definitions) enumerated by TLC, every case replayed into gemclus.gemini",
             text="Bounded-exhaustive model-based check: TLC enumerates every prediction matrix on a rational simplex grid x integer point sets for small (n,K) and computes each GEMINI from its textbook definition in exact arithmetic; the real functions are called on every emitted case through all registry/class entry points. Right level: the property quantifies over all inputs, and the vectorised code is shape-generic, so small-scope exhaustiveness with an independent exact oracle is the strongest affordable evidence.",
             note="small grids (n<=5, K<=4, denominators<=16); integer affinity matrices; float evaluation of term bags in the harness; POT is not trusted (W1 recomputed by the spec)", ref="DESIGN §4 C01"),
 "C02": dict(technique="TLA+ spec (Gemini.tla on dual numbers) enumerated by TLC: exact directional derivatives replayed against return_grad=True",
             text="Same grids as C01 x all elementary simplex directions; the spec differentiates the *definition* with forward-mode dual numbers and classifies non-smooth points exactly, so the code's hand-derived gradients are compared with exact derivatives, not finite differences.",
             note="small grids; smoothness classification by the spec; tolerance 1e-7 relative", ref="DESIGN §4 C02"),
 "C13": dict(technique="TLC invariants on Gemini.tla (permutation invariance of canonical term bags, zero/independence, MI=log K, bounds) + replay of every case into the code",
             text="The invariances are theorems of the specification checked by TLC in exact arithmetic on every enumerated case (open and closed simplex); the code is run on the same cases, their permutations and empty-cluster extensions.",
             note="small grids; closed-simplex tolerances account for epsilon clipping", ref="DESIGN §4 C13"),
 "C08": dict(technique="TLA+ spec (KauriCore/Kauri.tla) enumerated by TLC: exact candidate tables for every reachable tree state replayed into find_best_split (compiled + interpreted .pyx); real fits trace-validated against KauriTrace; KauriGlue.tla behaviours (scripted search) replayed into the Python side of Kauri.fit",
             text="TLC enumerates datasets x kernels x (max_clusters, min_samples_leaf) x every intermediate state reachable by any admissible split and computes the gain of every candidate as the objective difference in exact integers; the real find_best_split must return an admissible candidate with that exact gain which is a maximiser. Real Kauri.fit runs are validated step by step (gain, best, score = root + sum of gains); the loop of Kauri.fit is also driven by scripted answers of every kind (KauriGlue) and what it tells the next search, stores as gains and labels is compared with the specification.",
             note="integer data/kernels, n<=6; three defects of _utils.pyx (double-star gain, double-star undervalued, second-best reallocation target) are known findings (cannot re-cythonise here); compiled .so and .pyx source are both exercised", ref="DESIGN §4 C08"),
 "C09": dict(technique="TLC model-checks the Kauri.fit state machine (KauriFit.tla invariants) and validates recorded real fits against KauriTrace.tla; KauriGlue.tla behaviours (scripted search) replayed into Kauri.fit",
             text="The structural limits, routing = partition, tree shape and termination are invariants of the KauriFit specification, model-checked for all datasets on a grid x hyperparameters; every real fit over a parameter grid is recorded at find_best_split and validated as a behaviour of the specification with the invariants evaluated on every state, the final tree_/labels_/predict/score compared with the specification's; under a scripted search (KauriGlue) the explorable leaves, tree table, leaves_ and routing are compared after every kind of step.",
             note="integer datasets n<=7, d<=3; recorder wraps a module attribute (no source hook)", ref="DESIGN §4 C09"),
 "C14": dict(technique="TLA+ spec (Mlcl.tla: Accept by transitive closure, Inject in exact rationals) enumerated by TLC, every case replayed into add_mlcl_constraint and the decorated _batchify/_compute_grads",
             text="All 4096 (ML,CL) subset pairs over non-contiguous id sets, self pairs, malformed shapes, and the gradient injection for every ordered batch are enumerated by TLC with spec-internal theorems (Accept iff satisfiable; injection = gradient of the pairwise penalty); the real functions are driven with a scripted permutation and compared exactly.",
             note="<=5 ids, K<=3; real fits checked by a Python-side side check", ref="DESIGN §4 C14"),
 "C15": dict(technique="TLA+ spec (Douglas.tla: cells, leaf index, Active set on an integer-scaled grid) enumerated by TLC, replayed into a real Douglas model with installed cut points",
             text="Masks x n_cuts x cut vectors in every order x small datasets are enumerated by TLC with theorems (argmax of the bin logits = count of cuts below, order irrelevance, mask inertness); the real model must reproduce cells, leaf count, probability vectors at three temperatures, bit-identical predictions under masked-feature perturbation and the Active set.",
             note="d<=3, n_cuts<=3, half-integer cuts; T->0 checked at T=1e-3", ref="DESIGN §4 C15"),
 "C05": dict(technique="TLA+ spec (Prox.tla: first-principles minimiser, transcribed algorithm, KKT/no-better-neighbour theorems in exact rationals) enumerated by TLC, replayed into the four proximal operators",
             text="TLC enumerates integer rows, thresholds, hierarchy constants and all set partitions of <=4 features; the specification derives the minimiser of the documented objective piece by piece, proves (model-checks) that the LassoNet algorithm equals it, that it is feasible and that no grid neighbour is better, and the real operators are compared with it on stacked and mini-batched matrices (exact zeros where the spec says zero).",
             note="small exact grids, rational-norm skip rows for HIER-PROX (irrational norms by a labelled numeric side check)", ref="DESIGN §4 C05"),
 "C07": dict(technique="TLC model-checks Path.tla (safety invariants + liveness); real path() runs driven by a scripted GEMINI are trace-validated against PathTrace.tla which recomputes every comparison",
             text="The path contract (aligned histories, stop rule, NaN abort, best-score/best-weights rule, restore, default replacement) is a TLA+ state machine whose invariants and termination are model-checked; real path() executions of the sparse estimators are recorded at every validation-score evaluation and must be behaviours of it, in exact mode (integer score scripts, every float comparison exact) and in float mode (real GEMINIs).",
             note="max_patience>=1; dyadic keep/early-stopping factors in exact mode; termination of the real code under a call budget", ref="DESIGN §4 C07"),
 "C10": dict(technique="TLC model-checks Train.tla (batch partition, step-count theorem); real fits recorded at _batchify/optimiser are trace-validated against TrainTrace.tla with an injective id affinity",
             text="Every batched family x affinity source x batch size x decoration is fitted for real with an id column and the injective affinity Aff(i,j)=i*n+j; TLC checks for every delivered batch that it is the next min(bs,remaining) unseen samples and that the block has exactly those rows and columns in that order, and that the number of optimiser steps is max_iter*ceil(n/bs).",
             note="n<=7; recorder wraps instance attributes and sklearn's BaseOptimizer.update_params", ref="DESIGN §4 C10"),
 "C16": dict(technique="TLA+ table specification (Params.tla, Groups.tla) enumerated by TLC: one-parameter-off configurations, inconsistent combinations, group lists, malformed data; replayed into every estimator / constructor / function",
             text="Documented parameter domains (transcribed from docstrings, not from _parameter_constraints) are a TLA+ table; TLC enumerates every one-parameter-off configuration over a universe of representative values, all group lists over small feature sets and malformed inputs with the expected verdict; the real code must reject (ValueError/TypeError family, no fitted model left) or accept accordingly.",
             note="representatives, one-off + pairwise rules; unclear boundaries are marked unspecified and not asserted", ref="DESIGN §4 C16"),
 "C20": dict(technique="TLA+ protocol spec (Data.tla) of the RNG calls of the five generators; real generators run with a scripted, tagging RandomState subclass and trace-validated against DataTrace.tla; validity table replayed",
             text="Each generator is a protocol over an abstract RNG (call order, documented parameters reaching the samplers, row i = tagged draw i of component y[i], permutation, affine structure); TLC validates recorded real call traces field by field and enumerates the validity table of parameter sets.",
             note="NumPy's samplers trusted; documented constants transcribed from the cited constructions; moment test is a labelled numeric side check", ref="DESIGN §4 C20"),
 "C03": dict(technique="TLA+ spec (Backprop.tla: forward maps on dual numbers over exact rationals) evaluated by TLC on sampled integer cases and compared exactly with _compute_grads on Fraction arrays; real fits trace-validated (TrainTrace) with a per-coordinate direction predicate",
             text="(a) the direction of every scalar parameter of every family (linear/RIM, MLP, sparse MLP with skip, categorical, KernelRIM, Douglas) is derived by TLC from the family's forward map with forward-mode dual numbers and the real back-propagation code must equal it exactly in rational arithmetic, for every ReLU pattern and cut ordering; (b) in real fits of every family x GEMINI x solver x batch size (plain and mlcl-decorated) every array handed to the optimiser at every step is compared with a kink-safe numerical derivative of the documented objective.",
             note="(a) shapes n<=3,d<=2,h<=2,K<=3, Douglas bin memberships given; (b) numeric derivative evaluated by the harness, TLC requires the flag", ref="DESIGN §4 C03"),
 "C06": dict(technique="Train.tla with the selected-feature set (groups whole) model-checked; real sparse fits/paths trace-validated (TrainTrace/PathTrace) with prox-step predicates; Groups.tla exhaustive",
             text="Every proximal step of every real fit/path of the five sparse estimators is an event whose selected set TLC checks against the completed groups, and whose threshold (= alpha x current optimiser learning rate), applied operator, zero-row selection and W1 zeroing the recorder verified on the real arrays; inertness is checked bit-identically after fits and at every validation point of paths.",
             note="operator semantics tied to the spec by C05; float predicates evaluated by the recorder", ref="DESIGN §4 C06"),
 "C11": dict(technique="TLA+ forwarding table (Forward.tla) enumerated by TLC; each row replayed: behavioural identification of get_gemini() against the Gemini.tla oracle, affinity vs scikit-learn, precomputed = named equivalence (bitwise)",
             text="The documented mapping estimator x hyperparameters -> (GEMINI family, OvA/OvO, affinity source) is a TLA+ table; for every row the real model's GEMINI is identified by its behaviour on oracle inputs (not by attribute names), its affinity is compared with the named scikit-learn function with the given parameters / the callable / the user's matrix, and naming a kernel or passing the same matrix as precomputed must give bitwise identical fits, paths and scores (gradient models and Kauri).",
             note="scikit-learn pairwise functions are the trusted meaning of a named kernel/metric", ref="DESIGN §4 C11"),
 "C18": dict(technique="TLA+ spec (Predict.tla: selections of query rows, row-wise laws) enumerated by TLC; every selection applied to every inductive estimator in several fitted states",
             text="TLC enumerates every subset / ordering / duplication of query rows (length <= 4 of 4 rows; 5 thorough) with the row-wise, concatenation and permutation laws as invariants; each selection is applied to predict / predict_proba / tree routing of all 15 inductive estimators and must reproduce the rows of the whole-array answer; KernelRIM's kernel is observed to be taken between the query and the stored training points.",
             note="softmax models: bitwise first, 1e-12 relative fallback for BLAS reassociation (counted in the evidence)", ref="DESIGN §4 C18"),
 "C19": dict(technique="TLA+ spec (KauriPrint.tla: printing grammar, reader, read-back = routing theorem) on every final tree of the Kauri.fit state machine; real print_kauri_tree output parsed and compared token by token",
             text="The printed text is specified as a token sequence of the node table together with a reader that only knows the text; TLC proves read-back = routing on every final tree it reaches, and the real function's stdout for installed and really fitted trees is parsed strictly, compared with the tokens, applied to grid points against predict, with the feature-name and unfitted/foreign-object guards.",
             note="integer thresholds in the spec (fractional via scaling of installed trees)", ref="DESIGN §4 C19"),
 "C04": dict(technique="TLA+ configuration-space spec (Config.tla: in-domain representatives, combination rules, post-state) sampled deterministically by TLC; every valid draw fitted for real and trace-validated against TrainTrace with a coherence predicate",
             text="The cross product of valid hyperparameter values x dataset classes of the 18 estimators is specified in TLA+; TLC draws a seed-dependent sample (validity decided by TLC); every draw must fit without raising, its execution must be a behaviour of Train (max_iter epochs, n_iter_) and its final state coherent (labels in range, probability rows, predict = argmax = labels_, score = GEMINI(predict_proba), optimiser = solver; Kauri: contiguous labels, tree, predict = labels_).",
             note="sampled cross product (1500 draws quick, 12000 thorough), max_iter <= 3, n <= 8", ref="DESIGN §4 C04"),
 "C17": dict(technique="Config.tla with the awkward dataset families sampled by TLC; real fits and paths trace-validated (TrainTrace/PathTrace) with Finite required at every optimiser/proximal/validation step; one-hot sweep of the 13 GEMINIs",
             text="Degenerate and badly scaled but legal inputs (x1000, x1e-6, constant/duplicated columns, duplicated or identical samples, K=n, K=1, batches of one) crossed with estimators and GEMINIs are drawn by TLC; Finite is a clause of every Update, Prox, validation and Finish event of the trace specifications, so a NaN produced and later collapsed into a one-cluster answer is rejected at the first non-finite state.",
             note="finiteness evaluated by the recorder on the real arrays; scales up to 1000", ref="DESIGN §4 C17"),
 "C12": dict(technique="TLA+ spec (Lifecycle.tla: public-call histories, fitted = <<kind, params, data>>, history-independence theorem) enumerated by TLC; histories replayed on all 18 estimators, fingerprints grouped by final abstract state",
             text="TLC enumerates every history of public calls up to length 4 (5 thorough) and states which configuration get_params must report after each call and which abstract model the final fit/path yields; histories with the same final abstract state must give bitwise identical fitted models on the real estimators, callers' arrays must be untouched after every call, hyperparameters must only change through set_params and must round-trip through clone/get_params/set_params.",
             note="two configurations and two datasets per class; long histories are a seeded stratified sample", ref="DESIGN §4 C12"),
}
def main():
    checks = []
    for pid in ALL:
        if pid not in CHECKS:
            continue
        c = CHECKS[pid]
        checks.append({
            "property_id": pid,
            "quick_cmd": f"./check {pid} --tier quick",
            "thorough_cmd": f"./check {pid} --tier thorough",
            "evidence_file": f"/verif/evidence/{pid}.json",
            "replay_cmd_template": f"./check {pid} --replay {{path}}",
            "engine": "tlc-conformance",
            "level_claimed": {"category": "model_checking", "text": c["text"], "design_ref": c["ref"]},
            "level_note": c["note"],
            "technique": c["technique"],
        })
    na = [{"property_id": p, "reason": "check under construction in this session (specification planned in DESIGN.md §4); not claimed yet"}
          for p in ALL if p not in CHECKS]
    m = {
        "version": 1,
        "setup_cmd": "cd /verif && ./setup.sh",
        "hooks": {"guard": "GEMCLUS_VERIF", "enable": "no source hooks: checks import /repo's working tree and observe it through public extension points (GEMCLUS_VERIF=1 is exported by ./check for any future hook)",
                  "baseline_off_cmd": "/venv/bin/python /verif/tools/baseline_check.py", "source_commits": [], "add_only": True},
        "engines": [{"name": "tlc-conformance", "path": "/verif/check", "serves_properties": sorted(CHECKS),
                     "kind_free_text": "TLA+ specifications in /verif/spec checked/enumerated by TLC 1.8; Python harness replays TLC behaviours into the real code and validates recorded traces against trace specs"}],
        "checks": checks,
        "not_applicable": na,
        "notes": "See DESIGN.md. ./check <id> exits 0 (held), 1 (VIOLATION line printed), 2 (machinery failure).",
    }
    json.dump(m, open(os.path.join(V, "MANIFEST.json"), "w"), indent=1)
    print("wrote MANIFEST.json with", len(checks), "checks")
if __name__ == "__main__":
    main()
