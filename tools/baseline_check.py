#!/usr/bin/env python3
"""Run the repository's baseline test command (guard OFF) and compare with /root/.vp/BASELINE.json stable_pass."""
import json, os, subprocess, sys, tempfile, xml.etree.ElementTree as ET
base = json.load(open('/root/.vp/BASELINE.json'))
env = dict(os.environ); env.pop('GEMCLUS_VERIF', None)
with tempfile.TemporaryDirectory() as td:
    xml = os.path.join(td, 'j.xml')
    cmd = base['cmd'].replace('<file>', xml)
    subprocess.run(cmd, shell=True, env=env, stdout=subprocess.DEVNULL, stderr=subprocess.DEVNULL)
    root = ET.parse(xml).getroot()
passed = set()
for tc in root.iter('testcase'):
    ok = not any(ch.tag in ('failure', 'error', 'skipped') for ch in tc)
    if ok:
        passed.add(f"{tc.get('classname')}::{tc.get('name')}")
missing = [t for t in base['stable_pass'] if t not in passed]
print(f"baseline stable_pass={len(base['stable_pass'])} passed_now={len(passed)} missing={len(missing)}")
for t in missing[:20]:
    print("MISSING", t)
sys.exit(1 if missing else 0)
