#!/usr/bin/env python3
"""Confirm a seeded change in a scratch copy of /repo and run the checks against it.
usage: verify_seeded.py <seed-dir> [--tests] [--checks C01,C02] [--tier quick]
<seed-dir> holds patch.diff + demo.py.  Prints one JSON line with: demo_clean, demo_patched, tests_new_failures, checks {id: exit}."""
import json, os, shutil, subprocess, sys, tempfile, re

def sh(cmd, cwd=None, env=None, timeout=3600):
    p = subprocess.run(cmd, shell=True, cwd=cwd, env=env, stdout=subprocess.PIPE, stderr=subprocess.STDOUT, text=True, timeout=timeout)
    return p.returncode, p.stdout

def main():
    d = os.path.abspath(sys.argv[1])
    args = sys.argv[2:]
    do_tests = "--tests" in args
    checks = []
    tier = "quick"
    for i, a in enumerate(args):
        if a == "--checks":
            checks = args[i + 1].split(",")
        if a == "--tier":
            tier = args[i + 1]
    w = tempfile.mkdtemp(prefix="vfseed-", dir="/tmp")
    res = {"seed": os.path.basename(d)}
    try:
        repo = os.path.join(w, "repo")
        sh(f"rsync -a --exclude .git --exclude doc --exclude examples /repo/ {repo}/")
        rc, out = sh(f"/venv/bin/python {d}/demo.py", cwd=repo)
        res["demo_clean"] = rc
        rc, out = sh(f"patch -p1 --no-backup-if-mismatch < {d}/patch.diff", cwd=repo)
        res["patch_applied"] = rc == 0
        if rc != 0:
            res["patch_output"] = out[-400:]
            print(json.dumps(res)); return
        rc, out = sh(f"/venv/bin/python {d}/demo.py", cwd=repo)
        res["demo_patched"] = rc
        res["demo_tail"] = out.strip().splitlines()[-1][:200] if out.strip() else ""
        if do_tests:
            rc, out = sh("/venv/bin/python -m pytest -q -p no:cacheprovider gemclus/tests 2>&1 | tail -40", cwd=repo, timeout=3000)
            failed = sorted(set(re.findall(r"^FAILED (\S+)", out, re.M)))
            base = [l.strip() for l in open("/verif/seeded/baseline_failures.txt") if l.strip()]
            res["tests_new_failures"] = [f for f in failed if f not in base]
            res["tests_summary"] = out.strip().splitlines()[-1]
        res["checks"] = {}
        for c in checks:
            env = dict(os.environ, VERIF_REPO=repo, VERIF_EVIDENCE_DIR=os.path.join(w, "ev"))
            rc, out = sh(f"/verif/check {c} --tier {tier}", cwd="/verif", env=env, timeout=7200)
            first = next((l for l in out.splitlines() if l.startswith("  ") and "VIOLATION" not in l), "")
            res["checks"][c] = {"exit": rc, "first": first.strip()[:300]}
    finally:
        shutil.rmtree(w, ignore_errors=True)
    print(json.dumps(res))

if __name__ == "__main__":
    main()
