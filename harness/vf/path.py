"""Recording real path() executions as PathTrace events (+ the Train events of their epochs)."""
import math, warnings, hashlib, io, contextlib
import numpy as np
from . import train


def scripted_gemini(script):
    """A GEMINI instance (documented extension point) whose score follows a script: one entry per compute_val_score call;
    zero gradient, so weights only move through the proximal step.  Scores are small integers or NaN."""
    from gemclus.gemini._base_loss import _GEMINI

    class Scripted(_GEMINI):
        def __init__(self, script):
            super().__init__()
            self.script = list(script)
            self.pos = -1

        def current(self):
            v = self.script[min(max(self.pos, 0), len(self.script) - 1)]
            return float("nan") if v is None else float(v)

        def evaluate(self, y_pred, affinity, return_grad=False):
            if return_grad:
                return np.float64(self.current()), np.zeros_like(y_pred)
            return np.float64(self.current())

        def compute_affinity(self, X, y=None):
            return None
    return Scripted(script)


def _whash(ws):
    h = hashlib.sha256()
    for w in ws:
        a = np.ascontiguousarray(w)
        h.update(str(a.shape).encode())
        h.update(a.tobytes())
    return h.hexdigest()


def inert_ok(m, X, rnd_seed=0):
    """Changing the value of any unselected feature never changes predict_proba (bit-identical)."""
    sel = set(int(v) for v in m.get_selection())
    X = np.asarray(X, dtype=np.float64)
    uns = [j for j in range(X.shape[1]) if j not in sel]
    if not uns:
        return True
    base = m.predict_proba(X)
    rs = np.random.RandomState(rnd_seed)
    for j in uns + [uns]:
        X2 = X.copy()
        X2[:, j] = rs.uniform(-50, 50, size=X2[:, j].shape)
        if not np.array_equal(m.predict_proba(X2), base):
            return False
    return True


def selection_ok(m, X=None):
    if X is not None and not inert_ok(m, X):
        return False
    is_mlp = hasattr(m, "W_skip_")
    skip = m.W_skip_ if is_mlp else m.W_
    rows = np.any(skip != 0, axis=1)
    ok = set(int(v) for v in m.get_selection()) == set(np.nonzero(rows)[0].tolist()) and int(m._n_selected_features()) == int(rows.sum())
    if is_mlp:
        ok = ok and bool(np.all(m.W1_[~rows] == 0))
    if getattr(m, "groups_", None) is not None:
        ok = ok and all(len({bool(rows[i]) for i in g}) <= 1 for g in m.groups_)
    return bool(ok)


class _Ids:
    def __init__(self):
        self.d = {}

    def __call__(self, v):
        key = "nan" if (isinstance(v, float) and math.isnan(v)) else repr(v)
        if key not in self.d:
            self.d[key] = len(self.d) + 1
        return self.d[key]


class TooLong(Exception):
    pass


def record_path(model, X, y=None, script=None, frac=None, max_calls=4000, call=None, ids="match", **pargs):
    """Run model.path(X, y, **pargs) under the recorders.
    script: list of integer scores / None(NaN) for the scripted GEMINI already installed as model.gemini (exact mode).
    frac: dict(keep=(N,D), esf=(N,D)) the rational values of keep_threshold / early_stopping_factor actually passed.
    Returns dict(path=events, train=events, err=exception|None, result=tuple|None, warnings=[...])."""
    import gemclus.sparse._base_sparse as bs
    X = np.asarray(X, dtype=np.float64)
    n, d = X.shape
    exact = script is not None
    sg = model.gemini if exact else None
    mult = pargs.get("alpha_multiplier", 1.05)
    minf = pargs.get("min_features", 2)
    keep = pargs.get("keep_threshold", 0.9)
    esf = pargs.get("early_stopping_factor", 0.99)
    maxpat = pargs.get("max_patience", 10)
    restore = pargs.get("restore_best_weights", True)
    multLE1, keepOut = bool(mult <= 1), bool(keep < 0 or keep > 1)
    emult = 1.05 if multLE1 else mult
    ekeep = 0.9 if keepOut else keep
    eminf = 2 if minf <= 0 else minf
    kN, kD = (9, 10) if keepOut else (frac or {}).get("keep", (int(round(ekeep * 1000)), 1000))
    eN, eD = (frac or {}).get("esf", (int(round(esf * 1000)), 1000))
    alpha0 = float(model.alpha)
    ev = []
    sid, pid, wid = _Ids(), _Ids(), {}

    def widof(ws):
        h = _whash(ws)
        if h not in wid:
            wid[h] = len(wid)
        return wid[h]
    st = dict(phase="init", epochs=0, calls=0, val=None, val_l1=None, i=0, pat=0, best=None, step=0, alpha=alpha0)
    inner_bf = None
    real_cvs = bs.compute_val_score

    def spy_cvs(clf, Xa, ya, batch_size, gem):
        st["calls"] += 1
        if st["calls"] > max_calls:
            raise TooLong(f"path made more than {max_calls} validation-score evaluations")
        if exact:
            sg.pos += 1
        s, l1 = real_cvs(clf, Xa, ya, batch_size, gem)
        s, l1 = float(s), float(l1)
        ws = clf._get_weights()
        nsel = int(clf._n_selected_features())
        e = dict(e="val", pre=min(st["epochs"], 1), s=0, isnan=bool(math.isnan(s)), improves=False, gebest=False, gekeep=False,
                 l1imp=False, nsel=nsel, w=widof(ws), sid=sid(s), pid=pid(float(clf._group_lasso_penalty())), step=st["step"],
                 alphaok=True, selok=selection_ok(clf, Xa), finite=bool(all(np.all(np.isfinite(w)) for w in ws)))
        if exact:
            e["s"] = -1 if math.isnan(s) else int(s)
        if st["phase"] == "init":
            e["alphaok"] = bool(clf.alpha == 0)
            st["best"] = s
            st["phase"] = "outer"
        elif st["phase"] == "outer" and st["epochs"] == 0:
            e["alphaok"] = bool(clf.alpha == st["alpha"])
            st.update(val=s, val_l1=l1, i=0, pat=0, phase="inner")
            if clf.dynamic and ya is None:
                # dynamic mode: during this step the model trains with the affinity of the currently selected variables only
                sel_now = clf.get_selection()
                try:
                    tr.full_affinity = None if len(sel_now) == 0 else np.asarray(gem.compute_affinity(np.asarray(Xa)[:, sel_now]), dtype=float)
                except Exception:
                    tr.full_affinity = None
        else:
            e["alphaok"] = bool(clf.alpha == st["alpha"])
            l1imp = bool(l1 < esf * st["val_l1"])
            improves = bool(s > (2 - esf) * st["val"]) or l1imp
            e["l1imp"], e["improves"] = l1imp, improves
            if improves:
                st["val_l1"], st["val"], st["pat"] = l1, s, 0
            else:
                st["pat"] += 1
            if math.isnan(s):
                st["pat"] = maxpat
            st["i"] += 1
            over = not (st["i"] < clf.max_iter and st["pat"] < maxpat)
            gebest = bool(s >= st["best"])
            nb = s if (gebest and nsel == d) else st["best"]
            e["gebest"], e["gekeep"] = gebest, bool(s >= ekeep * nb)
            if over:
                if not math.isnan(s):
                    st["best"] = nb
                    st["step"] += 1
                    st["alpha"] = st["alpha"] * emult
                st["phase"] = "outer"
        st["epochs"] = 0
        ev.append(e)
        return s, l1
    try:
        full = None if model.dynamic else train.full_affinity_of(model, X, y)
        hasaff = train.full_affinity_of(model, X, y) is not None
    except Exception:
        full, hasaff = None, False
    tr = train.Recorder(model, n, "path", False, None, hasaff, full, d=d)
    tr.ids_mode = ids
    res, err = None, None
    with warnings.catch_warnings(record=True) as wlist:
        warnings.simplefilter("always")
        with tr:
            spy_bf = model._batchify                       # the Train recorder's spy

            class Count:
                indices = property(lambda self: spy_bf.indices)

                def __call__(self, Xb, aff=None, rs=None):
                    st["epochs"] += 1
                    return spy_bf(Xb, aff, rs)
            model._batchify = Count()
            bs.compute_val_score = spy_cvs
            try:
                with contextlib.redirect_stdout(io.StringIO()):          # verbose=True models print their progress
                    res = call() if call is not None else model.path(X, y, **pargs)
            except Exception as e_:
                err = e_
            finally:
                bs.compute_val_score = real_cvs
                model._batchify = spy_bf
    msgs = [str(w.message) for w in wlist]
    begin = dict(e="pbegin", d=d, maxiter=int(model.max_iter), minf=int(minf), multLE1=multLE1, keepOut=keepOut, keepN=int(kN), keepD=int(kD),
                 esfN=int(eN), esfD=int(eD), maxpat=int(maxpat), dynamic=bool(model.dynamic), restore=bool(restore), exact=bool(exact),
                 warn_mult=any("alpha multiplier" in m for m in msgs), warn_keep=any("threshold to keep" in m for m in msgs),
                 warn_minf_low=any("min_features to stop" in m for m in msgs), warn_minf_high=any("min_features param is greater" in m for m in msgs),
                 mult_is_default=multLE1, keep_is_default=keepOut)
    events = [begin] + ev
    if err is None:
        best_weights, geminis, pens, alphas, nfeat = res
        a, aok = alpha0, True
        for k in range(len(alphas)):
            aok = aok and (alphas[k] == a)
            a = a * emult
        # out-of-range arguments really replaced: the alpha history must grow by the effective multiplier
        events[0]["mult_is_default"] = multLE1 and (len(alphas) < 2 or alphas[1] == alphas[0] * 1.05)
        bw = _whash(best_weights)
        events.append(dict(e="ret", lens=[len(geminis), len(pens), len(alphas), len(nfeat)], nfeat=[int(v) for v in nfeat],
                           gem=[sid(float(v)) for v in geminis], pen=[pid(float(v)) for v in pens], alphasok=bool(aok),
                           bestw=wid.get(bw, -5), finalw=wid.get(_whash(model._get_weights()), -6),
                           nanwarned=any("converged to nan" in m for m in msgs),
                           selok=selection_ok(model, X), nfeat_types=all(isinstance(v, (int, np.integer)) for v in nfeat)))
        tr.finish(X, y)
    return dict(path=events, train=tr.events, err=err, result=res, warnings=msgs, warnings_raw=list(wlist), alpha_after=getattr(model, "alpha", None), alpha0=alpha0)
