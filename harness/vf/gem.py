"""Binding of spec/Gemini.tla to gemclus.gemini: run TLC, evaluate term bags, replay into the real code."""
import math, random
from fractions import Fraction
import numpy as np
from . import tlc
from .common import SEED, NCPU

NCH = 64
KERNELS = ("lin", "lin1", "mix")
METRICS = ("abs", "disc", "sq")


def bag_eval(bag):
    """SUM c*fn(a) with c, a exact rationals; evaluated in float with math (error ~1e-15 per term)."""
    tot = 0.0
    for t in bag:
        c = Fraction(t["c"][0], t["c"][1])
        if c == 0:
            continue
        a = Fraction(t["a"][0], t["a"][1])
        fn = t["fn"]
        if fn == "id":
            tot += float(c)
        elif fn == "log":
            tot += float(c) * (math.log(a.numerator) - math.log(a.denominator))
        elif fn == "sqrt":
            tot += float(c) * math.sqrt(a)
        elif fn == "rsqrt":
            tot += float(c) / math.sqrt(a)
        else:
            raise ValueError(fn)
    return tot


def kern(name, x):
    x = np.asarray(x, dtype=float)
    n = len(x)
    A = np.outer(x, x)
    if name == "lin1":
        A = A + np.eye(n)
    elif name == "mix":
        A = A - np.diag([2.0 if int(v) % 2 == 1 else 0.0 for v in x])
    return A


def metr(name, x):
    x = np.asarray(x, dtype=float)
    if name == "abs":
        return np.abs(x[:, None] - x[None, :])
    if name == "sq":                       # 0,1,2,5 for |xi-xj| = 0,1,2,3+: not a metric (5 > 1 + 2)
        dd = np.abs(x[:, None] - x[None, :])
        return np.where(dd <= 2, dd, 5.0)
    return 1.0 - np.eye(len(x))


def affinity(name, aff, x):
    if name.startswith("mmd"):
        return kern(aff, x)
    if name.startswith("wasserstein"):
        return metr(aff, x)
    return None


def enumerate_cases(shape, grad=False, closed=False, frac=1.0, seed=SEED, timeout=900, workers=NCPU,
                    invariants=("Emit",)):
    """Run TLC on Gemini.tla for one (N,K,QD) shape; frac<1 explores a seeded subset of the NCH chunks."""
    n, k, q = shape
    rnd = random.Random(f"{seed}-{shape}-{grad}-{closed}")
    # TLC parallelises over chunk states: keep >= 48 chunks selected whatever the sampling fraction
    nch = NCH if frac >= 1.0 else int(round(48 / frac))
    nchunks = max(1, round(nch * frac))
    chunks = set(range(nch)) if nchunks >= nch else set(rnd.sample(range(nch), nchunks))
    c = tlc.cfg(constants=dict(N=n, K=k, QD=q, NCH=nch, CHUNKS=chunks, GRAD=grad, CLOSED=closed),
                invariants=list(invariants))
    r = tlc.run("Gemini", c, workers=workers, timeout=timeout)
    return r, f"{len(chunks)}/{nch}"


_INST = {}


def code_instances(name):
    if name not in _INST:
        _INST[name] = _code_instances(name)
    return _INST[name]


def _code_instances(name):
    """All ways the library offers the GEMINI called `name` (registry name + class with ovo flag [+ MI])."""
    from gemclus.gemini import (MI, KLGEMINI, TVGEMINI, HellingerGEMINI, ChiSquareGEMINI, MMDGEMINI,
                                WassersteinGEMINI)
    from gemclus.gemini._utils import _str_to_gemini
    fam, mode = name.rsplit("_", 1)
    ovo = mode == "ovo"
    cls = {"kl": KLGEMINI, "tv": TVGEMINI, "hellinger": HellingerGEMINI, "chi2": ChiSquareGEMINI,
           "mmd": MMDGEMINI, "wasserstein": WassersteinGEMINI}[fam]
    out = [("registry:" + name, _str_to_gemini(name))]
    if fam == "mmd":
        out.append((f"MMDGEMINI(ovo={ovo},precomputed)", cls(ovo=ovo, kernel="precomputed")))
    elif fam == "wasserstein":
        out.append((f"WassersteinGEMINI(ovo={ovo},precomputed)", cls(ovo=ovo, metric="precomputed")))
    else:
        out.append((f"{cls.__name__}(ovo={ovo})", cls(ovo=ovo)))
    if name == "kl_ova":
        out.append(("registry:mi", _str_to_gemini("mi")))
        out.append(("MI()", MI()))
    return out


def tol_value(res):
    # sqrt amplifies rounding when an exact squared MMD is 0 (spec flags those points s = FALSE)
    if res["name"].startswith("mmd") and not res["s"]:
        return 2e-6
    return 1e-9
