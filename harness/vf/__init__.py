"""GemClus verification harness (TLA+/TLC model-based verification, see /verif/DESIGN.md)."""
