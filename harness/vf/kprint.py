"""Binding of spec/KauriPrint.tla to gemclus.tree.print_kauri_tree (C19).

* TLC side: `final_trees` explores KauriFitMC and emits one record per final tree; `given_trees` loads node tables (from
  real fits or generated) through GInit/GNext and emits the same record.  A record holds the node table, the expected
  token list for default names and for the user's names <<"n1", ...>>, the accept table per names length, and Route on
  the grid (-1..V+1)^D.
* code side: `install` puts a node table on a really fitted Kauri object, `call_print` captures what the real
  print_kauri_tree writes, `lex` / `parse` read that text back strictly from the documented layout
      "| "*depth + "Node i"        "| "*depth + " Cluster: k"        "| "*depth + "|=" + "name <= thr" / "name > thr"
  and `apply_rules` applies the nested rules to a point the way a reader of the text would.
"""
import io, re, json, contextlib, itertools
import numpy as np
from . import tlc
from .common import NCPU, MachineryError

INVS = ["Emit", "ReadBackIsRoute", "EveryNodeOnce", "NamesOnlyRelabel"]
NONE = -1


# ---------------------------------------------------------------------------------------------------------------
# TLC drivers
def final_trees(n, d, v, stride, nch, chunks, workers=NCPU, timeout=900, coverage=False):
    c = tlc.cfg(constants=dict(N=n, D=d, V=v, NCH=nch, CHUNKS=set(chunks), PSTRIDE=stride), invariants=INVS)
    return tlc.run("KauriPrint", c, workers=workers, timeout=timeout, coverage=coverage)


def node_table(left, right, feat1, th, target, depth):
    """Parallel arrays (features 1-based, -1 = none) -> the spec's node records."""
    return [dict(left=int(l), right=int(r), f=int(f), th=int(t), target=int(tg), depth=int(dp), gain=0, size=0)
            for l, r, f, t, tg, dp in zip(left, right, feat1, th, target, depth)]


def given_trees(tables, d, v, workers=4, timeout=600):
    """Run the grammar on explicit node tables; the k-th table comes back with id = k (1-based)."""
    if not tables:
        raise MachineryError("no node tables given")
    c = tlc.cfg(init="GInit", next="GNext", constants=dict(N=1, D=d, V=v, NCH=1, CHUNKS={0}, PSTRIDE=1),
                invariants=INVS + ["GivenWellFormed"])
    r = tlc.run("KauriPrint", c, env={"TREE_FILE": "trees.json"}, workers=workers, timeout=timeout,
                extra_files={"trees.json": json.dumps({"trees": tables})})
    if not r.violated and len(r.prints) != len(tables):
        raise MachineryError(f"KauriPrint returned {len(r.prints)} records for {len(tables)} node tables")
    return r


def tree_key(rec):
    return json.dumps([rec["d"], rec["v"], rec["left"], rec["right"], rec["feat"], rec["th"], rec["target"], rec["depth"]])


def grid(d, v):
    """The spec's Grid, in the spec's order (first coordinate most significant)."""
    return [list(p) for p in itertools.product(range(-1, v + 2), repeat=d)]


# ---------------------------------------------------------------------------------------------------------------
# real objects
def fitted_kauri(d):
    """A really fitted Kauri on d features (so that check_is_fitted and every attribute of a fitted model exist)."""
    from gemclus.tree import Kauri
    X = np.array([[float((i * (f + 2)) % 5) for f in range(d)] for i in range(5)])
    return Kauri(max_clusters=2).fit(X)


def install(model, rec, scale=1):
    """Overwrite the lists of model.tree_ with the spec's node table (features become 0-based, None on leaves,
    thresholds = spec threshold x scale)."""
    t = model.tree_
    n = len(rec["left"])
    leaf = [l == NONE for l in rec["left"]]
    t.children_left = [int(x) for x in rec["left"]]
    t.children_right = [int(x) for x in rec["right"]]
    t.features = [None if leaf[i] else int(rec["feat"][i]) - 1 for i in range(n)]
    t.thresholds = [None if leaf[i] else float(rec["th"][i] * scale) for i in range(n)]
    t.target = [int(x) for x in rec["target"]]
    t.depths = [int(x) for x in rec["depth"]]
    t.gains = [0 if leaf[i] else 1.0 for i in range(n)]
    t.categorical_nodes = [False] * n
    t.n_nodes = n
    model.n_features_in_ = rec["d"]
    return model


def table_of_model(model):
    """tree_ of a real fit -> the spec's node records (thresholds must be integers: the datasets are)."""
    t = model.tree_
    th = []
    for x in t.thresholds:
        if x is None:
            th.append(NONE)
        else:
            if float(x) != round(float(x)):
                raise MachineryError(f"non-integer threshold {x!r} in a fit on integer data")
            th.append(int(round(float(x))))
    return node_table(t.children_left, t.children_right, [NONE if f is None else int(f) + 1 for f in t.features], th,
                      t.target, t.depths)


def call_print(obj, names="default"):
    """-> (captured stdout, exception or None) of the real print_kauri_tree."""
    from gemclus.tree import print_kauri_tree
    buf, exc = io.StringIO(), None
    with contextlib.redirect_stdout(buf):
        try:
            if isinstance(names, str) and names == "default":
                print_kauri_tree(obj)
            else:
                print_kauri_tree(obj, feature_names=names)
        except Exception as e:
            exc = e
    return buf.getvalue(), exc


# ---------------------------------------------------------------------------------------------------------------
# reading the printed text back
class ParseError(Exception):
    pass


_BAR = r"((?:\| )*)"
_NODE = re.compile(r"^" + _BAR + r"Node (\d+)$")
_LEAF = re.compile(r"^" + _BAR + r" Cluster: (-?\d+)$")
_RULE = re.compile(r"^" + _BAR + r"\|=(.+) (<=|>) ([-+]?\d+(?:\.\d*)?(?:[eE][-+]?\d+)?)$")


def lex(text):
    """One token per printed line; any line outside the documented layout raises ParseError."""
    if text and not text.endswith("\n"):
        raise ParseError(f"output does not end with a newline: {text[-40:]!r}")
    toks = []
    for ln, line in enumerate(text.split("\n")[:-1], 1):
        m = _NODE.match(line)
        if m:
            toks.append(dict(t="node", id=int(m.group(2)), depth=len(m.group(1)) // 2))
            continue
        m = _LEAF.match(line)
        if m:
            toks.append(dict(t="cluster", target=int(m.group(2)), depth=len(m.group(1)) // 2))
            continue
        m = _RULE.match(line)
        if m:
            toks.append(dict(t="le" if m.group(3) == "<=" else "gt", name=m.group(2), th=float(m.group(4)),
                             depth=len(m.group(1)) // 2))
            continue
        raise ParseError(f"line {ln} is not a node, cluster or rule line: {line!r}")
    return toks


def parse(toks):
    """Recursive descent over the token list -> nested rules
    ("leaf", id, target) | ("split", id, (name, thr), <left rules>, (name, thr), <right rules>)."""
    def node(pos, depth):
        if pos + 1 >= len(toks):
            raise ParseError(f"text ends inside node at token {pos}")
        a, b = toks[pos], toks[pos + 1]
        if a["t"] != "node" or a["depth"] != depth:
            raise ParseError(f"expected a 'Node' line at nesting {depth}, got {a}")
        if b["depth"] != depth:
            raise ParseError(f"expected a line at nesting {depth} after {a}, got {b}")
        if b["t"] == "cluster":
            return ("leaf", a["id"], b["target"]), pos + 2
        if b["t"] != "le":
            raise ParseError(f"expected 'Cluster' or a '<=' rule after {a}, got {b}")
        lt, pos2 = node(pos + 2, depth + 1)
        if pos2 >= len(toks) or toks[pos2]["t"] != "gt" or toks[pos2]["depth"] != depth:
            raise ParseError(f"expected the '>' rule of nesting {depth} after the subtree of {b}, got "
                             f"{toks[pos2] if pos2 < len(toks) else 'end of text'}")
        c = toks[pos2]
        rt, pos3 = node(pos2 + 1, depth + 1)
        return ("split", a["id"], (b["name"], b["th"]), lt, (c["name"], c["th"]), rt), pos3
    if not toks:
        raise ParseError("nothing was printed")
    rules, end = node(0, 0)
    if end != len(toks):
        raise ParseError(f"{len(toks) - end} extra line(s) after the tree, first: {toks[end]}")
    return rules


_DEFAULT = re.compile(r"^X\[:, (\d+)\]$")


def feature_of(name, names):
    """0-based feature a printed name designates (names: the user's list, or None for default names)."""
    if names is None:
        m = _DEFAULT.match(name)
        if not m:
            raise ParseError(f"{name!r} is not a default feature name X[:, i]")
        return int(m.group(1))
    hits = [i for i, nm in enumerate(names) if str(nm) == name]
    if len(hits) != 1:
        raise ParseError(f"{name!r} does not designate exactly one of the supplied names {list(names)}")
    return hits[0]


NO_RULE = -2


def apply_rules(rules, pt, names):
    """Follow the '<=' line if the point satisfies it, else the '>' line if the point satisfies that one."""
    while rules[0] == "split":
        _, _, (n1, t1), lt, (n2, t2), rt = rules
        f1, f2 = feature_of(n1, names), feature_of(n2, names)
        if f1 >= len(pt) or f2 >= len(pt):
            raise ParseError(f"rule on feature {max(f1, f2)} but points have {len(pt)} features")
        if pt[f1] <= t1:
            rules = lt
        elif pt[f2] > t2:
            rules = rt
        else:
            return NO_RULE
    return rules[2]


def same_tokens(got, exp):
    """First difference between parsed tokens and the spec's tokens (None if equal); thresholds compare as numbers."""
    for i in range(max(len(got), len(exp))):
        if i >= len(got):
            return f"line {i + 1} missing, spec expects {exp[i]}"
        if i >= len(exp):
            return f"extra line {i + 1}: {got[i]}"
        g, e = got[i], exp[i]
        if set(g) != set(e) or any((float(g[k]) != float(e[k])) if k == "th" else (g[k] != e[k]) for k in e):
            return f"line {i + 1}: printed {g}, spec expects {e}"
    return None
