"""Binding of spec/Forward.tla (C11) to the real estimators: run TLC, turn a table row into a real model, identify a
GEMINI by its behaviour against the Gemini.tla oracle, compute the affinity scikit-learn gives for a named source."""
import contextlib, inspect, signal, warnings
import numpy as np
from . import tlc, gem, params
from .common import MachineryError, NCPU

F_DIVS = ("kl", "tv", "hellinger", "chi2")
PAIRS = [(f, o) for f in F_DIVS + ("mmd", "wasserstein") for o in (False, True)]          # the 12 (family, ovo)
ORACLE_AFFS = {"mmd": ("lin1", "mix"), "wasserstein": ("abs", "disc")}                     # integer affinities (C01)
FORWARD_PARAMS = {"gemini", "kernel", "kernel_params", "metric", "metric_params", "ovo", "base_kernel",
                  "base_kernel_params"}
GRADIENT_EQUIV = {"LinearMMD", "MLPMMD", "SparseLinearMMD", "SparseMLPMMD", "CategoricalMMD", "LinearWasserstein",
                  "MLPWasserstein", "CategoricalWasserstein", "LinearModel", "MLPModel", "SparseLinearModel",
                  "SparseMLPModel", "CategoricalModel", "Douglas"}
THEOREMS = ["Covered", "Functional", "WellFormed", "NameIsDefaultInstance"]       # spec-internal, same TLC run
SPARSE = {"SparseLinearModel", "SparseLinearMMD", "SparseMLPModel", "SparseMLPMMD"}


# ---------------------------------------------------------------------------------------------------------------
# the table
def enumerate_table(classes=None, timeout=300):
    """TLC run of Forward.tla.  Returns (TLCResult, rows, exposes {cls: set}, class order)."""
    order = class_order()
    idx = set(range(1, len(order) + 1)) if classes is None else {order.index(c) + 1 for c in classes}
    c = tlc.cfg(constants=dict(CLASSES=idx), invariants=["Emit"] + THEOREMS)
    r = tlc.run("Forward", c, workers=min(NCPU, 8), timeout=timeout, coverage=True)
    if r.violated:
        raise MachineryError(f"Forward.tla: spec-internal theorem {r.violated} fails\n{r.trace[:1500]}")
    rows = [p for p in r.prints if "cls" in p]
    hdr = {p["exposes_of"]: (set(p["exposes"]), p["rows"]) for p in r.prints if "exposes_of" in p}
    for cls, (_, n) in hdr.items():
        got = sum(1 for p in rows if p["cls"] == cls)
        if got != n:
            raise MachineryError(f"Forward.tla announced {n} rows for {cls}, {got} were printed")
    if r.coverage.get("PickCase", (0, 0))[0] != len(rows):
        raise MachineryError(f"PickCase produced {r.coverage.get('PickCase')} states but {len(rows)} rows were printed")
    rows.sort(key=row_key)
    return r, rows, {k: v[0] for k, v in hdr.items()}, order


def class_order():
    return ["LinearModel", "LinearMMD", "LinearWasserstein", "RIM", "KernelRIM", "MLPModel", "MLPMMD", "MLPWasserstein",
            "SparseLinearModel", "SparseLinearMMD", "SparseLinearMI", "SparseMLPModel", "SparseMLPMMD",
            "CategoricalModel", "CategoricalMMD", "CategoricalWasserstein", "Douglas", "Kauri"]


def row_key(row):
    h = row["hyper"]
    return (row["cls"], row["role"], h["gemini"], h["inst"], h["aff"], h["params"], h["ovo"], h["y"])


def signature_problems(exposes):
    """The spec's Exposes table against the real constructor signatures."""
    bad = []
    if list(exposes) and set(exposes) - set(params.ESTIMATORS):
        bad.append(f"unknown classes in the table: {sorted(set(exposes) - set(params.ESTIMATORS))}")
    for cls, exp in exposes.items():
        names = set(inspect.signature(params.resolve(cls).__init__).parameters) & FORWARD_PARAMS
        if names != exp:
            bad.append(f"{cls}: the documentation table exposes {sorted(exp)}, the constructor takes {sorted(names)}")
    return bad


# ---------------------------------------------------------------------------------------------------------------
# concrete values
def param_dict(pid, items):
    """Python value of a parameter-dictionary id: None, {} or the keyword dictionary."""
    if pid in ("none", "-"):
        return None
    d = {}
    for key, num, den in items:
        if key == "squared":
            d[key] = bool(num)
        elif key == "degree":
            d[key] = num // den
        else:
            d[key] = num / den
    return d


def kernel_callable(X, Y=None):
    """A kernel no scikit-learn name computes; asymmetric in its arguments so that K(Xnew, Xtrain) is recognisable."""
    X = np.asarray(X, dtype=float)
    Y = X if Y is None else np.asarray(Y, dtype=float)
    return 0.5 * (X @ Y.T) + 0.25 * X.sum(1)[:, None] * (1 + Y.sum(1)[None, :]) + 1.0


def sym_kernel_callable(X, Y=None):
    X = np.asarray(X, dtype=float)
    Y = X if Y is None else np.asarray(Y, dtype=float)
    return 0.5 * (X @ Y.T) + 0.125 * X.sum(1)[:, None] * Y.sum(1)[None, :] + np.exp(-((X[:, None] - Y[None]) ** 2).sum(-1))


def metric_callable(X, Y=None):
    X = np.asarray(X, dtype=float)
    Y = X if Y is None else np.asarray(Y, dtype=float)
    return np.abs(X[:, None, :] - Y[None, :, :]).max(-1) + 0.5 * np.abs(X[:, None, :] - Y[None, :, :]).sum(-1)


def data(n, d=3, seed=0):
    """Non-negative quarter-integers with distinct rows (chi2 kernels need X >= 0)."""
    rs = np.random.RandomState(1000 + seed)
    while True:
        X = rs.randint(0, 13, size=(n, d)) / 4.0
        if len({tuple(r) for r in X}) == n:
            return X


def sk_matrix(family, name, kw, X, Y=None):
    """The scikit-learn oracle for "the kernel / metric named `name` evaluated with the dictionary kw"."""
    from sklearn.metrics.pairwise import pairwise_kernels, pairwise_distances
    kw = kw or {}
    if family == "wasserstein":
        return pairwise_distances(X, Y, metric=name, **kw)
    return pairwise_kernels(X, Y, metric=name, **kw)


def aff_value(family, aff):
    if aff == "callable":
        return metric_callable if family == "wasserstein" else sym_kernel_callable
    return aff


def build(row, extra=None, precomputed=False):
    """The real estimator a table row describes (baseline of vf.params + the row's hyper-parameters).
    precomputed=True: the same configuration with the affinity replaced by 'precomputed'."""
    cls, h, fam = row["cls"], row["hyper"], row["expect"]["family"]
    kw = params.kwargs_for(cls)
    drop = set()
    pd = param_dict(h["params"], row["hyper_items"])
    ovo = {"true": True, "false": False}.get(h["ovo"])
    aff = "precomputed" if precomputed else aff_value(fam, h["aff"])
    if precomputed:
        pd = None
    ent = params.ESTIMATORS[cls]["baseline"]
    if "gemini" in ent:
        g = h["gemini"]
        if g == "default":
            drop.add("gemini")
        elif g == "none":
            kw["gemini"] = None
        elif g == "instance":
            kw["gemini"] = build_instance(h["inst"], ovo, aff, pd)
        else:
            kw["gemini"] = g
    elif "kernel_params" in ent or "metric_params" in ent:
        a, p = ("kernel", "kernel_params") if "kernel" in ent else ("metric", "metric_params")
        if h["aff"] == "-":
            drop |= {a, p, "ovo"}
        else:
            kw[a], kw[p], kw["ovo"] = aff, pd, ovo
    elif cls == "KernelRIM" and row["role"] == "features":
        if h["aff"] == "-":
            drop |= {"base_kernel", "base_kernel_params"}
        else:
            kw["base_kernel"] = kernel_callable if h["aff"] == "callable" else h["aff"]
            kw["base_kernel_params"] = pd
    elif cls == "Kauri":
        if h["aff"] == "-":
            drop.add("kernel")
        else:
            kw["kernel"] = aff
    kw.update(extra or {})
    for k in drop:
        kw.pop(k, None)
    return params.resolve(cls)(**kw)


def build_instance(inst, ovo, aff, pd):
    import gemclus.gemini as G
    if inst == "MMDGEMINI":
        return G.MMDGEMINI(ovo=ovo, kernel=aff, kernel_params=pd)
    if inst == "WassersteinGEMINI":
        return G.WassersteinGEMINI(ovo=ovo, metric=aff, metric_params=pd)
    if inst == "MI":
        return G.MI()
    return getattr(G, inst)(ovo=ovo)


# ---------------------------------------------------------------------------------------------------------------
# behavioural identification
class Oracle:
    """Grid inputs (prediction matrix + integer points) with the exact value of each of the 12 GEMINIs (Gemini.tla)."""

    def __init__(self, shapes=((2, 3, 6), (3, 2, 4)), per_shape=(14, 8)):
        self.runs, self.inputs = [], []
        for shape, cnt in zip(shapes, per_shape):
            r, nch = gem.enumerate_cases(shape, grad=False, frac=1.0)
            self.runs.append((shape, r, nch))
            cases = sorted(r.prints, key=lambda c: (c["a"], c["x"]))
            # leave out the degenerate inputs on which everything is 0 (all rows equal); spread over the grid
            cases = [c for c in cases if any(row != c["a"][0] for row in c["a"])]
            step = max(1, len(cases) // cnt)
            self.inputs += cases[step // 2::step][:cnt]
        self.P = [np.array(c["a"], dtype=float) / c["q"] for c in self.inputs]
        self.val, self.tol = {}, {}
        for i, c in enumerate(self.inputs):
            for res in c["base"]:
                fam, mode = res["name"].rsplit("_", 1)
                key = (fam, mode == "ovo", res["aff"])
                self.val.setdefault(key, np.zeros(len(self.inputs)))[i] = gem.bag_eval(res["v"])
                self.tol.setdefault(key, np.zeros(len(self.inputs)))[i] = gem.tol_value(res)
        self._check_discriminating()

    def affs(self, fam):
        return ORACLE_AFFS.get(fam, ("",))

    def matrix(self, fam, aff, x):
        return gem.affinity(fam + "_ova", aff, x)

    def close(self, got, key):
        exp = self.val[key]
        return np.abs(got - exp) <= self.tol[key] * np.maximum(1.0, np.abs(exp))

    def _check_discriminating(self):
        """Two pairs are told apart when some input separates them for some choice of their integer affinities (the
        Wasserstein distance for the discrete metric IS the total variation: that choice alone would not do)."""
        for f, o in PAIRS:
            for f2, o2 in PAIRS:
                if (f2, o2) != (f, o) and all(np.all(np.abs(self.val[(f, o, a)] - self.val[(f2, o2, a2)]) <= 1e-4)
                                              for a in self.affs(f) for a2 in self.affs(f2)):
                    raise MachineryError(f"the identification inputs cannot tell {(f, o)} from {(f2, o2)}")

    def identify(self, g, fam, ovo):
        """Evaluate g on every input.  Returns (ok, message): the values must be those of (fam, ovo) and must not be
        those of any of the 11 other (family, ovo) pairs."""
        gots = {}
        for a in self.affs(fam):
            got = gots[a] = np.zeros(len(self.inputs))
            for i, c in enumerate(self.inputs):
                A = self.matrix(fam, a, c["x"])
                try:
                    got[i] = float(g(self.P[i].copy(), None if A is None else A.copy()))
                except Exception as e:
                    return False, f"raised {type(e).__name__}: {e} on P={c['a']}/{c['q']} x={c['x']} affinity={a or None}"
            ok = self.close(got, (fam, ovo, a))
            if not ok.all():
                i = int(np.argmin(ok))
                c = self.inputs[i]
                like = [f"{f2}_{'ovo' if o2 else 'ova'}" for f2, o2 in PAIRS
                        if (f2, o2) != (fam, ovo) and any(self.close(got, (f2, o2, a2)).all() for a2 in self.affs(f2))]
                return False, (f"on P={c['a']}/{c['q']} x={c['x']} affinity={a or None}: code={got[i]!r} "
                               f"spec={self.val[(fam, ovo, a)][i]!r}" + (f"; behaves like {like}" if like else ""))
        for f2, o2 in PAIRS:
            if (f2, o2) != (fam, ovo) and all(np.all(np.abs(gots[a] - self.val[(f2, o2, a2)]) <= 1e-5)
                                              for a in gots for a2 in self.affs(f2)):
                return False, f"indistinguishable from {f2} ovo={o2} on the identification inputs"
        return True, ""


# ---------------------------------------------------------------------------------------------------------------
@contextlib.contextmanager
def time_limit(seconds, what):
    def handler(signum, frame):
        raise MachineryError(f"{what} did not finish within {seconds}s")
    old = signal.signal(signal.SIGALRM, handler)
    signal.setitimer(signal.ITIMER_REAL, seconds)
    try:
        yield
    finally:
        signal.setitimer(signal.ITIMER_REAL, 0)
        signal.signal(signal.SIGALRM, old)


@contextlib.contextmanager
def capture():
    """Library silenced (stdout, numpy) but warnings RECORDED: yields the list of caught warnings."""
    import io
    with warnings.catch_warnings(record=True) as w, np.errstate(all="ignore"), contextlib.redirect_stdout(io.StringIO()):
        warnings.simplefilter("always")
        yield w
