"""Binding of spec/Config.tla: decode a drawn configuration into a real estimator, a dataset and (when needed) the affinity."""
import random, warnings
import numpy as np
from . import tlc
from .common import SEED, NCPU


def draws(ndraws, awkward=False, seed=SEED, timeout=900):
    c = tlc.cfg(constants=dict(NDRAWS=ndraws, SEEDC=seed % 1000, AWKWARD=awkward), invariants=["Emit"])
    return tlc.run("Config", c, workers=NCPU, timeout=timeout)


def _num(v):
    try:
        return int(v)
    except ValueError:
        return float(v)


def lin_callable(X):
    X = np.asarray(X, dtype=float)
    return X @ X.T + 1.0


def l1_callable(X):
    X = np.asarray(X, dtype=float)
    return np.abs(X[:, None, :] - X[None, :, :]).sum(-1)


def cross_callable(X, Y):
    return np.asarray(X, dtype=float) @ np.asarray(Y, dtype=float).T


def make_data(case, K, rnd):
    dd = {p["name"]: p["val"] for p in case["data"]}
    d = int(dd["d"])
    nv = dd["n"]
    n = K if nv == "K" else K + 1 if nv == "K+1" else int(nv)
    n = max(n, K, 1)
    kind = dd["kind"]
    if kind in ("int",):
        X = np.array([[rnd.randint(-3, 3) for _ in range(d)] for _ in range(n)], dtype=float)
    elif kind == "ties":
        X = np.array([[rnd.randint(0, 1) for _ in range(d)] for _ in range(n)], dtype=float)
    else:
        X = np.array([[rnd.gauss(0, 1) for _ in range(d)] for _ in range(n)])
        X[: n // 2] += 2.0
    if kind in ("scale1000", "scale1000_const"):
        X = X * 1000.0
    if kind == "tiny_scale":
        X = X * 1e-6
    if kind in ("const_col", "scale1000_const"):
        X[:, -1] = 3.0
    if kind == "dup_col" and d >= 2:
        X[:, -1] = X[:, 0]
    if kind == "dup_rows" and n >= 2:
        X[n // 2:] = X[: n - n // 2]
    if kind == "all_equal_rows":
        X[:] = X[0]
    return X, kind


def build(case, rnd):
    """-> (model, X, y, info).  Raises nothing by itself; the estimator constructor never validates."""
    from gemclus import linear, mlp, sparse, nonparametric, tree
    from gemclus.gemini import MMDGEMINI, WassersteinGEMINI
    est = case["est"]
    ps = {p["name"]: p["val"] for p in case["params"]}
    dd = {p["name"]: p["val"] for p in case["data"]}
    kname = "max_clusters" if est == "Kauri" else "n_clusters"
    kv = ps[kname]
    if kv == "n":
        nv = dd["n"]
        K = 3 if nv in ("K", "K+1") else int(nv)
    else:
        K = int(kv)
    X, kind = make_data(case, K, rnd)
    n, d = X.shape
    y = None
    kw = {}
    for name, v in ps.items():
        if name in ("n_clusters", "max_clusters"):
            kw[name] = K
        elif name == "batch_size":
            kw[name] = None if v == "none" else n if v == "n" else n + 1 if v == "n+1" else int(v)
        elif name == "gemini":
            if v == "none":
                kw[name] = None
            elif v == "inst_mmd_rbf_ovo":
                kw[name] = MMDGEMINI(ovo=True, kernel="rbf")
            elif v == "inst_wasserstein_l1":
                kw[name] = WassersteinGEMINI(metric="l1")
            elif v == "inst_mmd_precomputed":
                kw[name] = MMDGEMINI(kernel="precomputed")
                y = X @ X.T
            else:
                kw[name] = v
        elif name == "kernel":
            if v == "callable":
                kw[name] = lin_callable
            else:
                kw[name] = v
                if v == "precomputed":
                    y = X @ X.T
        elif name == "metric":
            if v == "callable":
                kw[name] = l1_callable
            else:
                kw[name] = v
                if v == "precomputed":
                    y = np.sqrt(((X[:, None, :] - X[None, :, :]) ** 2).sum(-1))
        elif name == "kernel_params":
            kw[name] = None if v == "none" else {"gamma": 2.0}
        elif name == "base_kernel":
            kw[name] = cross_callable if v == "callable" else v
        elif name == "groups":
            kw[name] = None if v == "none" else [[0, 1]] if v == "pair01" else [[j] for j in range(d)]
        elif name == "feature_mask":
            kw[name] = None if v == "none" else np.array([j == 0 for j in range(d)]) if v == "first_only" else np.ones(d, dtype=bool)
        elif name in ("ovo", "dynamic", "verbose"):
            kw[name] = v == "true"
        elif name == "random_state":
            seed = rnd.randint(0, 99)
            kw[name] = seed if v == "int" else np.random.RandomState(seed) if v == "instance" else None
        elif name in ("max_depth", "max_leaves"):
            kw[name] = None if v == "none" else int(v)
        elif name == "max_features":
            kw[name] = None if v == "none" else d if v == "d" else d + 2 if v == "d+2" else int(v)
        elif name in ("solver",):
            kw[name] = v
        else:
            kw[name] = _num(v)
    if est == "Kauri" and kw.get("kernel") == "precomputed":
        y = X @ X.T
    kw.setdefault("random_state", rnd.randint(0, 99))
    mod = {"Linear": linear, "RIM": linear, "Kernel": linear, "MLP": mlp, "Sparse": sparse, "Categorical": nonparametric, "Douglas": tree,
           "Kauri": tree}
    module = next(m for pre, m in mod.items() if est.startswith(pre))
    cls = getattr(module, est)
    model = cls(**kw)
    layout = dd.get("layout", "c64")
    Xin = X
    if layout == "f32":
        Xin = X.astype(np.float32)
    elif layout == "fortran":
        Xin = np.asfortranarray(X)
    elif layout == "noncontiguous":
        big = np.zeros((2 * n, 2 * d))
        big[::2, ::2] = X
        Xin = big[::2, ::2]
    elif layout == "list":
        Xin = X.tolist()
    elif layout == "int64" and np.all(X == np.round(X)):
        Xin = X.astype(np.int64)
    decorated = dd.get("decorated", "no") == "mlcl" and est != "Kauri" and n >= 4
    if decorated:
        import gemclus
        model = gemclus.add_mlcl_constraint(model, must_link=[[0, 1]], cannot_link=[[2, 3], [0, n - 1]] if n - 1 > 1 else [[2, 3]], factor=0.5)
    info = dict(layout=layout, decorated=decorated, est=est, K=K, n=n, d=d, data_kind=kind, params={k: (v if isinstance(v, (int, float, str, bool, type(None))) else type(v).__name__)
                                                               for k, v in kw.items()})
    info["Xin"] = Xin
    return model, X, y, info


def kauri_coherence(m, X, y):
    bad = []
    n = len(X)
    lab = np.asarray(m.labels_)
    if lab.shape != (n,) or lab.min() < 0 or lab.max() >= m.max_clusters:
        bad.append(f"labels_ outside [0, max_clusters): {lab.tolist()}")
    if sorted(set(lab.tolist())) != list(range(len(set(lab.tolist())))):
        bad.append(f"labels are not contiguous from 0: {sorted(set(lab.tolist()))}")
    if not hasattr(m, "tree_"):
        bad.append("no tree_")
    else:
        if not np.array_equal(m.predict(X), lab):
            bad.append("predict(training) != labels_")
        nl = sum(1 for v in m.tree_.children_left if v == -1)
        if m.tree_.n_nodes != 2 * nl - 1 or len(m.tree_.children_left) != m.tree_.n_nodes:
            bad.append("tree does not have 2*leaves-1 nodes")
    s = m.score(X, y)
    if not np.isfinite(s):
        bad.append(f"score {s}")
    return bad
