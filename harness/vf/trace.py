"""Batched trace validation: many recorded executions are checked against a trace specification in one TLC run.

The trace spec (e.g. KauriTrace) reads {"traces": [[event, ...], ...]} from IOEnv.TRACE_FILE, picks `tid` in its initial
predicate and consumes one event per step.  A trace is ACCEPTED iff TLC reaches a state in which the whole trace has been
consumed (the spec prints {"accept": tid}); every INVARIANT listed is evaluated in every state of every trace."""
import json, os, re
from . import tlc
from .common import scratch, MachineryError, NCPU


STATS = {"validated": 0, "accepted": 0, "rejected": 0}


def validate(module, traces, constants=None, invariants=(), timeout=900, workers=NCPU, accept_inv="Accept"):
    """Returns dict(accepted={tid: info}, rejected=[tid], inv_violations=[(invariant, tid)], result=TLCResult)."""
    if not traces:
        raise MachineryError("no traces to validate")
    with scratch("traces") as d:
        path = os.path.join(d, "traces.json")
        with open(path, "w") as fh:
            json.dump({"traces": traces}, fh)
        consts = dict(constants or {})
        consts.setdefault("TIDS", 0)
        cfg = tlc.cfg(init="TInit", next="TNext", constants=consts, invariants=[accept_inv] + list(invariants))
        r = tlc.run(module, cfg, env={"TRACE_FILE": path}, workers=workers, timeout=timeout, cont=True)
    accepted = {}
    for p in r.prints:
        if isinstance(p, dict) and "accept" in p:
            accepted[p["accept"]] = p
    viol = []
    for m in re.finditer(r"Invariant (\w+) is violated", r.stdout):
        seg = r.stdout[m.end():m.end() + 200000]
        nxt = seg.find("Invariant ")
        seg = seg if nxt < 0 else seg[:nxt]
        tids = re.findall(r"/\\ tid = (\d+)", seg)
        viol.append((m.group(1), int(tids[-1]) if tids else 0))
    rejected = [t for t in range(1, len(traces) + 1) if t not in accepted]
    STATS["validated"] += len(traces)
    STATS["accepted"] += len(accepted)
    STATS["rejected"] += len(rejected)
    return dict(accepted=accepted, rejected=rejected, inv_violations=viol, result=r)


def diagnose(module, traces, tid, constants=None, timeout=300):
    """Re-run one rejected trace with the Progress invariant; return the deepest state's diagnostics."""
    with scratch("traces") as d:
        path = os.path.join(d, "traces.json")
        with open(path, "w") as fh:
            json.dump({"traces": traces}, fh)
        consts = dict(constants or {})
        consts["TIDS"] = tid
        cfg = tlc.cfg(init="TInit", next="TNext", constants=consts, invariants=["Progress"])
        r = tlc.run(module, cfg, env={"TRACE_FILE": path}, workers=1, timeout=timeout, cont=True)
    best = None
    for p in r.prints:
        if isinstance(p, dict) and p.get("at") == tid and (best is None or p["l"] > best["l"]):
            best = p
    if best is None:
        return {"l": 0, "event": None, "diag": None}
    ev = traces[tid - 1][best["l"] - 1] if best["l"] <= len(traces[tid - 1]) else None
    return {"l": best["l"], "event": ev, "diag": best.get("d"), "ph": best.get("ph")}
