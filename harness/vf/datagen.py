"""Binding of gemclus.data to spec/Data.tla (C20): a RandomState that logs every call and answers with scripted, tagged
values; integer encodings of the logged arguments; one recorded trace per generator run.

Encodings (must agree with the header of Data.tla): locations / outputs in units of 1/10, proportions as [num, den],
covariance entries as [a, b] = (a + b*sqrt(3))/4, the variance seen by `normal` (scale**2) in units of 1/4, df / alpha /
mu in units of 1/10.  Every encoder returns (value, exact); `exact` is False when the float is not of that form."""
import math
from fractions import Fraction
import numpy as np

S = 10
SQ3 = math.sqrt(3.0)
GENERATORS = ("draw_gmm", "student", "gstm", "celeux_one", "celeux_two")


def tag_array(c, shape):
    """Entry (i, j) (1-based) of the answer to RNG call number c: 10000*c + 100*i + j (j = 1 for 1-d answers)."""
    n = int(shape[0])
    cols = int(shape[1]) if len(shape) > 1 else 1
    a = 10000.0 * c + 100.0 * np.arange(1, n + 1)[:, None] + np.arange(1, cols + 1)[None, :]
    return a if len(shape) > 1 else a[:, 0]


def enc_int(v, unit):
    x = float(v) * unit
    r = int(round(x))
    return r, bool(abs(x - r) <= 1e-6 * max(1.0, abs(x)))


def enc_z4(v):
    """float -> [a, b] with v = (a + b*sqrt(3))/4, a, b small integers (b = 0 preferred)."""
    x = 4.0 * float(v)
    for b in sorted(range(-24, 25), key=abs):
        a = round(x - b * SQ3)
        if abs(x - a - b * SQ3) <= 1e-9 * max(1.0, abs(x)):
            return [int(a), int(b)], True
    return [int(round(x)), 0], False


def enc_rat(v):
    f = Fraction(float(v)).limit_denominator(64)
    return [f.numerator, f.denominator], bool(abs(float(v) - f.numerator / f.denominator) <= 1e-12)


def dec_z4(p):
    return (p[0] + p[1] * SQ3) / 4.0


class Exact:
    """Accumulates the exactness of every encoding made for one event."""
    def __init__(self):
        self.ok = True

    def __call__(self, pair):
        v, ok = pair
        self.ok = self.ok and ok
        return v


def _shape(size):
    if size is None:
        return []
    if isinstance(size, (int, np.integer)):
        return [int(size)]
    return [int(s) for s in size]


class ScriptedRNG(np.random.RandomState):
    """RandomState whose sampling methods are scripted.  script: y (labels answered by choice), sf (chisquare answers
    df / sf_i**2), perm (answer of permutation), zero (set of call numbers whose tagged answer is replaced by zeros),
    real (np.random.RandomState used instead of tags for normal / multivariate_normal when given)."""

    def __new__(cls, script=None):
        return super().__new__(cls, 0)

    def __init__(self, script=None):
        super().__init__(0)
        self.script = dict(script or {})
        self.events = []
        self.c = 0

    # -- helpers ------------------------------------------------------------------------------------------------
    def _log(self, call, ret, ex):
        base = dict(m="", shape=[], K=0, p=[], loc=[], var=0, cov=[], df=0)
        base.update(call)
        self.events.append(dict(e="draw", call=base, ret=ret, exact=ex.ok))

    def _gauss(self, shape):
        if self.c in self.script.get("zero", ()):
            return np.zeros(shape)
        real = self.script.get("real")
        if real is not None:
            return real.standard_normal(shape)
        return None

    def _fit(self, vals, n):
        vals = list(vals)
        if len(vals) != n:                      # the generator asked for another size than the protocol: keep it running,
            vals = (vals * (n + 1))[:n] if vals else [0] * n      # the logged shape makes the trace rejected
        return vals

    # -- scripted methods ---------------------------------------------------------------------------------------
    def choice(self, a, size=None, replace=True, p=None):
        self.c += 1
        ex = Exact()
        shape = _shape(size)
        n = shape[0] if shape else 1
        K = int(a) if np.ndim(a) == 0 else len(a)
        pe = [] if p is None else [ex(enc_rat(v)) for v in np.asarray(p, dtype=float).ravel()]
        if not replace or len(shape) != 1:
            ex.ok = False
        y = self._fit(self.script.get("y", []), n)
        self._log(dict(m="choice", shape=shape, K=K, p=pe), [int(v) for v in y], ex)
        return np.array(y, dtype=np.int64).reshape(shape)

    def normal(self, loc=0.0, scale=1.0, size=None):
        self.c += 1
        ex = Exact()
        shape = _shape(size)
        loc_a, sc_a = np.asarray(loc, dtype=float).ravel(), np.asarray(scale, dtype=float).ravel()
        if len(loc_a) != 1 or len(sc_a) != 1 or not shape:
            ex.ok = False
        le = [ex(enc_int(v, S)) for v in loc_a[:4]]
        var = ex(enc_int(float(sc_a[0]) ** 2, 4)) if len(sc_a) else 0
        self._log(dict(m="normal", shape=shape, loc=le, var=var), [], ex)
        g = self._gauss(tuple(shape))
        return tag_array(self.c, shape) if g is None else float(loc_a[0]) + float(sc_a[0]) * g

    def multivariate_normal(self, mean, cov, size=None, check_valid="warn", tol=1e-8):
        self.c += 1
        ex = Exact()
        shape = _shape(size)
        mean_a, cov_a = np.asarray(mean, dtype=float), np.asarray(cov, dtype=float)
        d = mean_a.size
        if mean_a.ndim != 1 or cov_a.shape != (d, d) or len(shape) != 1:
            ex.ok = False
            ce = []
        else:
            ce = [[ex(enc_z4(v)) for v in row] for row in cov_a]
        le = [ex(enc_int(v, S)) for v in mean_a.ravel()]
        self._log(dict(m="mvn", shape=shape, loc=le, cov=ce), [], ex)
        n = shape[0] if shape else 1
        g = self._gauss((n, d))
        if g is None:
            return tag_array(self.c, [n, d])
        if not g.any():
            return g
        return mean_a + g @ np.linalg.cholesky(cov_a + 1e-12 * np.eye(d)).T

    def chisquare(self, df, size=None):
        self.c += 1
        ex = Exact()
        shape = _shape(size)
        n = shape[0] if shape else 1
        if np.ndim(df) != 0 or len(shape) != 1:
            ex.ok = False
            dfe = 0
        else:
            dfe = ex(enc_int(df, S))
        sf = self._fit(self.script.get("sf", []), n)
        self._log(dict(m="chisquare", shape=shape, df=dfe), [int(v) for v in sf], ex)
        return np.array([float(np.ravel(df)[0]) / (s * s) for s in sf]).reshape(shape)      # sqrt(df / u_i) = sf_i exactly (sf in {1,2,4})

    def permutation(self, x):
        self.c += 1
        ex = Exact()
        if np.ndim(x) != 0:
            ex.ok = False
            n = len(x)
        else:
            n = int(x)
        pm = self.script.get("perm", [])
        if sorted(pm) != list(range(n)):
            pm = list(range(n))[::-1]
        self._log(dict(m="permutation", shape=[n]), [int(v) for v in pm], ex)
        return np.array(pm, dtype=np.int64) if np.ndim(x) == 0 else np.asarray(x)[np.array(pm, dtype=np.int64)]

    def _other(name):
        def f(self, *a, **kw):
            self.c += 1
            ex = Exact()
            ex.ok = False
            self._log(dict(m="other:" + name), [], ex)
            return getattr(np.random.RandomState, name)(self, *a, **kw)
        f.__name__ = name
        return f

    for _n in ("rand", "randn", "random_sample", "random", "standard_normal", "uniform", "randint", "multinomial", "shuffle",
               "standard_t", "gamma", "standard_gamma", "binomial", "exponential"):
        locals()[_n] = _other(_n)
    del _n, _other


# -------------------------------------------------------------------------------------------------------------------
def real_args(gen, a):
    """Encoded arguments (as in Data.tla) -> (function, kwargs without random_state)."""
    from gemclus import data as gd
    if gen == "draw_gmm":
        d, K = a["d"], len(a["loc"])
        loc = np.array(a["loc"], dtype=float) / S
        cov = np.array([[[dec_z4(e) for e in row] for row in M] for M in a["cov"]], dtype=float)
        if d == 1:
            cov = cov.reshape(K, 1)          # the layout the repository's own tests use for one dimension
        return gd.draw_gmm, dict(n=a["n"], loc=loc, scale=cov, pvals=np.array([p[0] / p[1] for p in a["p"]]))
    if gen == "student":
        return gd.multivariate_student_t, dict(n=a["n"], loc=np.array(a["loc"], dtype=float) / S,
                                               scale=np.array([[dec_z4(e) for e in row] for row in a["cov"]]), df=a["df"] / S)
    if gen == "gstm":
        return gd.gstm, dict(n=a["n"], alpha=a["alpha"] / S, df=a["df"] / S)
    if gen == "celeux_one":
        return gd.celeux_one, dict(n=a["n"], p=a["pn"], mu=a["mu"] / S)
    if gen == "celeux_two":
        return gd.celeux_two, dict(n=a["n"])
    raise KeyError(gen)


def encode_output(res, gen):
    ex = Exact()
    X, y = (res, None) if gen == "student" else res
    X = np.asarray(X, dtype=float)
    if X.ndim != 2:
        return dict(e="return", X=[], y=[], exact=False)
    Xe = [[ex(enc_int(v, S)) for v in row] for row in X]
    ye = [] if y is None else [ex(enc_int(v, 1)) for v in np.asarray(y).ravel()]
    return dict(e="return", X=Xe, y=ye, exact=ex.ok)


def record(gen, a, script):
    """Run the real generator on the scripted RNG.  Returns (events, result-or-None, exception-or-None)."""
    fn, kw = real_args(gen, a)
    rng = ScriptedRNG(script)
    events = [dict(e="setup", gen=gen, args=a)]
    try:
        res = fn(random_state=rng, **kw)
    except Exception as e:            # a documented-valid configuration must not raise: reported by the caller
        return events + rng.events + [dict(e="error", what=f"{type(e).__name__}: {e}"[:200])], None, e
    return events + rng.events + [encode_output(res, gen)], res, None
