"""Run TLC on a spec in /verif/spec and collect what it printed.

Every TLC run happens in a private scratch copy of the spec directory, is wrapped in a timeout, and is parsed into
a TLCResult.  PrintT(ToJson(..)) lines are returned decoded in `prints`.  Any TLC error that is not a property
violation (parse error, 32-bit overflow, timeout) raises MachineryError.
"""
import json, os, re, shutil, subprocess, time, glob
from dataclasses import dataclass, field
from .common import SPEC, CACHE, NCPU, MachineryError, scratch

JAR = "/opt/veriftools/tla/tla2tools.jar"
DEPS = "/opt/veriftools/tla/CommunityModules-deps.jar"


@dataclass
class TLCResult:
    rc: int = 0
    stdout: str = ""
    prints: list = field(default_factory=list)
    generated: int = 0
    distinct: int = 0
    depth: int = 0
    coverage: dict = field(default_factory=dict)   # action name -> (distinct, generated)
    violated: str = ""                              # name of violated invariant/property, "" if none
    error: str = ""
    wall: float = 0.0
    trace: str = ""

    @property
    def ok(self):
        return self.rc == 0 and not self.violated and not self.error


_STATS = re.compile(r"(\d+) states generated, (\d+) distinct states found")
_DEPTH = re.compile(r"depth of the complete state graph search is (\d+)")
_COV = re.compile(r"^<(\w+) line \d+, col \d+ to line \d+, col \d+ of module (\w+)>: (\d+):(\d+)")
_INV = re.compile(r"Invariant (\w+) is violated")
_PROP = re.compile(r"(?:Action property|Temporal properties|property) (\w+)? ?(?:is|were) violated")


def parse(out, rc, wall):
    r = TLCResult(rc=rc, stdout=out, wall=wall)
    for line in out.splitlines():
        if line.startswith('"{') or line.startswith('"['):
            try:
                r.prints.append(json.loads(json.loads(line)))
            except Exception as e:  # a broken line is a machinery failure, never silently dropped
                raise MachineryError(f"unparsable PrintT line: {line[:200]} ({e})")
            continue
        m = _STATS.search(line)
        if m:
            r.generated, r.distinct = int(m.group(1)), int(m.group(2))
        m = _DEPTH.search(line)
        if m:
            r.depth = int(m.group(1))
        m = _COV.match(line)
        if m:
            name = m.group(1)
            d, g = int(m.group(3)), int(m.group(4))
            od, og = r.coverage.get(name, (0, 0))
            r.coverage[name] = (od + d, og + g)
        m = _INV.search(line)
        if m:
            r.violated = m.group(1)
        if "is violated" in line and not r.violated:
            m2 = re.search(r"(\w+) is violated", line)
            r.violated = m2.group(1) if m2 else "property"
        if "Temporal properties were violated" in line:
            r.violated = r.violated or "temporal"
        if line.startswith("Error:") and not r.error:
            r.error = line
    if r.violated:
        # keep the counterexample text
        i = out.find("Error:")
        r.trace = out[i:i + 20000] if i >= 0 else ""
        r.error = ""
    return r


def run(module, cfg_text, *, env=None, workers=NCPU, timeout=600, simulate=None, depth=None, coverage=False,
        extra_files=None, seed=None, deadlock=False, dfs=False, java_opts=None, keep_dir=None, cont=False):
    """Run TLC on spec/<module>.tla with the given cfg text.  extra_files: {name: text} written next to the spec."""
    # the timeouts written at the call sites were measured on an idle 16-core machine; they are safety nets against a hung
    # model checker, not budgets, so they are stretched to survive a loaded machine
    timeout = int(timeout * float(os.environ.get("VERIF_TIMEOUT_SCALE", "4")))
    with scratch("tlc") as d:
        for f in glob.glob(os.path.join(SPEC, "*.tla")):
            shutil.copy(f, d)
        with open(os.path.join(d, module + ".cfg"), "w") as fh:
            fh.write(cfg_text)
        dump = os.environ.get("VERIF_DUMP_CFG")
        if dump:                                  # keep a copy of every distinct configuration used (spec/cfg/ is made this way)
            os.makedirs(dump, exist_ok=True)
            import hashlib
            head = "\\* " + module + ".tla  -- run with:  tlc -workers 16 -config <this file> " + module + ".tla" + \
                   ("".join(f"\n\\*   environment: {k}=<path>" for k in (env or {})) if env else "") + \
                   (f"\n\\*   mode: -simulate {simulate}" if simulate else "") + "\n"
            name = f"{module}.{hashlib.sha256(cfg_text.encode()).hexdigest()[:8]}.cfg"
            with open(os.path.join(dump, name), "w") as fh:
                fh.write(head + cfg_text)
        for name, text in (extra_files or {}).items():
            with open(os.path.join(d, name), "w") as fh:
                fh.write(text)
        jopts = ["-XX:+UseParallelGC", "-Xss512m", f"-Djava.io.tmpdir={d}"] + (java_opts or [])      # TLC leaves an empty tlc-* dir per run in tmpdir
        if dfs:
            jopts.append("-Dtlc2.tool.queue.IStateQueue=StateDeque")
        cmd = ["timeout", "-k", "5", str(int(timeout)), "java"] + jopts + ["-cp", JAR + ":" + DEPS, "tlc2.TLC",
               "-workers", str(workers), "-metadir", os.path.join(d, "meta"), "-noGenerateSpecTE"]
        if not deadlock:
            pass  # deadlock checking is controlled from the cfg (CHECK_DEADLOCK FALSE)
        if coverage:
            cmd += ["-coverage", "1"]
        if cont:
            cmd += ["-continue"]
        if seed is not None:
            cmd += ["-seed", str(seed)]
        if simulate:
            cmd += ["-simulate", simulate]
        if depth:
            cmd += ["-depth", str(depth)]
        cmd += [module + ".tla"]
        e = dict(os.environ)
        e.update({k: str(v) for k, v in (env or {}).items()})
        t0 = time.time()
        p = subprocess.run(cmd, cwd=d, env=e, stdout=subprocess.PIPE, stderr=subprocess.STDOUT, text=True)
        wall = time.time() - t0
        if keep_dir:
            shutil.copytree(d, keep_dir, dirs_exist_ok=True)
        if p.returncode in (124, 137):
            raise MachineryError(f"TLC timeout after {timeout}s on {module}")
        r = parse(p.stdout, p.returncode, wall)
        if r.error or (p.returncode != 0 and not r.violated):
            ls = [l[:300] for l in p.stdout.splitlines() if not l.startswith('"') and not l.lstrip().startswith("|")]
            i0 = next((i for i, l in enumerate(ls) if l.startswith("Error:")), max(0, len(ls) - 25))
            tail = "\n".join(ls[max(0, i0 - 25):i0 + 40])
            raise MachineryError(f"TLC failed on {module} (rc={p.returncode}): {r.error}\n{tail}")
        return r


def cfg(init="Init", next="Next", constants=None, invariants=(), properties=(), constraint=None, view=None,
        spec=None, postcondition=None, deadlock=False, action_constraint=None):
    lines = []
    if spec:
        lines.append(f"SPECIFICATION {spec}")
    else:
        lines += [f"INIT {init}", f"NEXT {next}"]
    if constants:
        lines.append("CONSTANTS")
        for k, v in constants.items():
            lines.append(f"  {k} = {fmt(v)}" if not (isinstance(v, str) and v.startswith("<-")) else f"  {k} {v}")
    for i in invariants:
        lines.append(f"INVARIANT {i}")
    for p in properties:
        lines.append(f"PROPERTY {p}")
    if constraint:
        lines.append(f"CONSTRAINT {constraint}")
    if action_constraint:
        lines.append(f"ACTION_CONSTRAINT {action_constraint}")
    if view:
        lines.append(f"VIEW {view}")
    if postcondition:
        lines.append(f"POSTCONDITION {postcondition}")
    lines.append(f"CHECK_DEADLOCK {'TRUE' if deadlock else 'FALSE'}")
    return "\n".join(lines) + "\n"


def fmt(v):
    """Python value -> TLA+ cfg constant expression."""
    if isinstance(v, bool):
        return "TRUE" if v else "FALSE"
    if isinstance(v, int):
        return str(v)
    if isinstance(v, str):
        return '"' + v + '"'
    if isinstance(v, (set, frozenset)):
        return "{" + ", ".join(fmt(x) for x in sorted(v, key=repr)) + "}"
    if isinstance(v, (list, tuple)):
        return "<<" + ", ".join(fmt(x) for x in v) + ">>"
    raise TypeError(v)
