"""Thorough tier: run the repository's own test-suite under the recorder plugin and hand back the recorded traces, so that
every fit / path the existing tests perform (but under-assert) is judged by the trace specifications."""
import json, os, subprocess, glob
from .common import REPO, VERIF, scratch, MachineryError


def run_suite(select=None, timeout=3000):
    """Returns dict(train=[{test, cls, events}], path=[...]).  `select`: pytest path(s) relative to the repo."""
    with scratch("repotests") as d:
        env = dict(os.environ)
        env["VF_TRACE_DIR"] = d
        env["PYTHONPATH"] = os.path.join(VERIF, "harness") + os.pathsep + env.get("PYTHONPATH", "")
        cmd = ["/venv/bin/python", "-m", "pytest", "-q", "-p", "no:cacheprovider", "-p", "vf.pytest_recorder", "-x", "--co", "-q"]
        cmd = ["/venv/bin/python", "-m", "pytest", "-q", "-p", "no:cacheprovider", "-p", "vf.pytest_recorder"] + list(select or ["gemclus/tests"])
        p = subprocess.run(["timeout", str(timeout)] + cmd, cwd=REPO, env=env, stdout=subprocess.PIPE, stderr=subprocess.STDOUT, text=True)
        out = {"train": [], "path": [], "summary": (p.stdout.strip().splitlines() or [""])[-1]}
        files = glob.glob(os.path.join(d, "traces-*.json"))
        if not files:
            raise MachineryError("the recorder plugin produced no trace file:\n" + p.stdout[-1500:])
        for f in files:
            blob = json.load(open(f))
            out["train"] += blob["train"]
            out["path"] += blob["path"]
    return out


def groups(items, max_bytes=12_000_000):
    """Split traces into groups of bounded JSON size (one TLC run per group)."""
    cur, size = [], 0
    for it in items:
        s = len(json.dumps(it["events"]))
        if cur and size + s > max_bytes:
            yield cur
            cur, size = [], 0
        cur.append(it)
        size += s
    if cur:
        yield cur
