"""Binding of spec/Kauri*.tla to gemclus.tree: state encoding, calls of the real find_best_split, verdict rules."""
import random
import numpy as np
from . import tlc, build
from .common import SEED, NCPU


def enumerate_states(n, d, v, frac=1.0, ramp=False, seed=SEED, invariants=("Emit", "StatesWellFormed", "GainIsIncrease"), timeout=1800):
    rnd = random.Random(f"{seed}-kauri-{n}-{d}-{v}")
    nch = 64 if frac >= 1.0 else int(round(48 / frac))
    k = max(1, round(nch * frac))
    chunks = set(range(nch)) if k >= nch else set(rnd.sample(range(nch), k))
    if ramp:
        nch, chunks = 1, {0}
    c = tlc.cfg(constants=dict(N=n, D=d, V=v, NCH=nch, CHUNKS=chunks, RAMP=ramp), invariants=list(invariants))
    return tlc.run("Kauri", c, workers=NCPU, timeout=timeout), f"{len(chunks)}/{nch}"


def encode_state(case, max_leaves=None):
    """(Y, Z) exactly as Kauri.fit holds them: Z leaf x sample, Y cluster x leaf."""
    n, kmax, nL = case["n"], case["kmax"], case["nL"]
    ml = max_leaves or max(n, nL)
    Z = np.zeros((ml, n), dtype=np.int64)
    for i, lf in enumerate(case["leafOf"]):
        Z[lf, i] = 1
    Y = np.zeros((kmax, ml), dtype=np.int64)
    for lf, cl in enumerate(case["clOf"]):
        Y[cl, lf] = 1
    return Y, Z


def ask(mod, case, query):
    Y, Z = encode_state(case)
    X = np.array(case["X"], dtype=np.float64)
    K = np.array(case["K"], dtype=np.float64)
    feats = np.array([f - 1 for f in query["fsub"]], dtype=np.intp)
    s = mod.find_best_split(K, X, np.array(query["expl"], dtype=np.int64), Y, Z, case["nC"], case["kmax"], case["nL"],
                            case["minleaf"], feats)
    return dict(gain=float(s.gain), leaf=int(s.leaf), lt=int(s.left_target), rt=int(s.right_target),
                f=int(s.feature) + 1, th=float(s.threshold))


def judge(case, query, pick):
    """Compare the code's pick with the spec's candidate table.
    Returns (ok, description, tags). tags name the cause so that known findings can be matched precisely."""
    L = case["L"]
    cands = query["cands"]
    best = max((c["gain"] for c in cands), default=None)
    dstar_possible = any(c["kind"] == "dstar" for c in cands)
    g = pick["gain"] * L
    if best is None or best <= 0:
        if pick["gain"] <= 1e-9:
            return True, "", ()
        match = [c for c in cands if (c["leaf"], c["f"], c["lt"], c["rt"]) == (pick["leaf"], pick["f"], pick["lt"], pick["rt"])
                 and c["th"] == pick["th"]]
        tags = ["positive-gain-when-none"]
        if match and match[0]["kind"] == "dstar":
            tags.append("dstar-gain-wrong")
        return False, f"no admissible split has positive gain (best exact gain {best}/{L}) but the code returns gain {pick['gain']!r} for {pick}", tuple(tags)
    match = [c for c in cands if (c["leaf"], c["f"], c["lt"], c["rt"]) == (pick["leaf"], pick["f"], pick["lt"], pick["rt"])
             and c["th"] == pick["th"]]
    if not match:
        return False, f"the code's pick {pick} is not an admissible candidate (best exact gain {best}/{L})", ("inadmissible",)
    c = match[0]
    if abs(g - c["gain"]) > 1e-6 * max(1.0, abs(c["gain"])):
        tags = ["gain-not-increase", c["kind"] + "-gain-wrong"]
        return False, (f"reported gain {pick['gain']!r} (x{L} = {g!r}) is not the objective increase {c['gain']}/{L} "
                       f"of the chosen {c['kind']} split {pick}"), tuple(tags)
    if c["gain"] != best:
        bests = [b for b in cands if b["gain"] == best]
        kinds = sorted({b["kind"] for b in bests})
        tags = ["not-best"]
        nondstar_best = max((b["gain"] for b in cands if b["kind"] != "dstar"), default=None)
        if kinds == ["dstar"] and c["gain"] == nondstar_best:
            tags.append("dstar-undervalued")
        if kinds == ["realloc"] and case["nC"] >= 4:
            tags.append("realloc-second-best")
        return False, (f"the code picks {c} but {bests[0]} has a larger exact gain ({best}/{L} > {c['gain']}/{L})"), tuple(tags)
    return True, "", ()
