"""Binding of spec/Kauri*.tla to gemclus.tree: state encoding, calls of the real find_best_split, verdict rules."""
import random
import numpy as np
from . import tlc, build
from .common import SEED, NCPU


def enumerate_states(n, d, v, frac=1.0, ramp=False, seed=SEED, invariants=("Emit", "StatesWellFormed", "GainIsIncrease"), timeout=1800):
    rnd = random.Random(f"{seed}-kauri-{n}-{d}-{v}")
    nch = 64 if frac >= 1.0 else int(round(48 / frac))
    k = max(1, round(nch * frac))
    chunks = set(range(nch)) if k >= nch else set(rnd.sample(range(nch), k))
    if ramp:
        nch, chunks = 1, {0}
    c = tlc.cfg(constants=dict(N=n, D=d, V=v, NCH=nch, CHUNKS=chunks, RAMP=ramp), invariants=list(invariants))
    return tlc.run("Kauri", c, workers=NCPU, timeout=timeout), f"{len(chunks)}/{nch}"


def probe_state(probe, timeout=300):
    """The candidate table of ONE given state (Kauri.tla ProbeInit): probe = dict(X, kn, kmax, minleaf, leafOf, clOf, nL, nC)."""
    import json as _json
    n, d = len(probe["X"]), len(probe["X"][0])
    c = tlc.cfg(init="ProbeInit", next="ProbeNext", constants=dict(N=n, D=d, V=max(max(r) for r in probe["X"]), NCH=1, CHUNKS={0}, RAMP=False),
                invariants=["Emit", "StatesWellFormed", "GainIsIncrease"])
    r = tlc.run("Kauri", c, workers=1, timeout=timeout, extra_files={"probe.json": _json.dumps(probe)}, env={"PROBE_FILE": "probe.json"})
    return r


def encode_state(case, max_leaves=None):
    """(Y, Z) exactly as Kauri.fit holds them: Z leaf x sample, Y cluster x leaf."""
    n, kmax, nL = case["n"], case["kmax"], case["nL"]
    ml = max_leaves or max(n, nL)
    Z = np.zeros((ml, n), dtype=np.int64)
    for i, lf in enumerate(case["leafOf"]):
        Z[lf, i] = 1
    Y = np.zeros((kmax, ml), dtype=np.int64)
    for lf, cl in enumerate(case["clOf"]):
        Y[cl, lf] = 1
    return Y, Z


def ask(mod, case, query):
    Y, Z = encode_state(case)
    X = np.array(case["X"], dtype=np.float64)
    K = np.array(case["K"], dtype=np.float64)
    feats = np.array([f - 1 for f in query["fsub"]], dtype=np.intp)
    s = mod.find_best_split(K, X, np.array(query["expl"], dtype=np.int64), Y, Z, case["nC"], case["kmax"], case["nL"],
                            case["minleaf"], feats)
    return dict(gain=float(s.gain), leaf=int(s.leaf), lt=int(s.left_target), rt=int(s.right_target),
                f=int(s.feature) + 1, th=float(s.threshold))


def judge(case, query, pick):
    """Compare the code's pick with the spec's candidate table.
    Returns (ok, description, tags). tags name the cause so that known findings can be matched precisely."""
    L = case["L"]
    cands = query["cands"]
    best = max((c["gain"] for c in cands), default=None)
    dstar_possible = any(c["kind"] == "dstar" for c in cands)
    g = pick["gain"] * L
    if best is None or best <= 0:
        if pick["gain"] <= 1e-9:
            return True, "", ()
        match = [c for c in cands if (c["leaf"], c["f"], c["lt"], c["rt"]) == (pick["leaf"], pick["f"], pick["lt"], pick["rt"])
                 and c["th"] == pick["th"]]
        tags = ["positive-gain-when-none"]
        if match and match[0]["kind"] == "dstar":
            tags.append("dstar-gain-wrong")
        return False, f"no admissible split has positive gain (best exact gain {best}/{L}) but the code returns gain {pick['gain']!r} for {pick}", tuple(tags)
    match = [c for c in cands if (c["leaf"], c["f"], c["lt"], c["rt"]) == (pick["leaf"], pick["f"], pick["lt"], pick["rt"])
             and c["th"] == pick["th"]]
    if not match and pick["gain"] <= 1e-9:
        # no split returned although an admissible one has positive gain.  Known finding only when every candidate with
        # a positive exact gain is a double-star one (their internal gain is wrong, see C08-dstar-undervalued)
        pos = [b for b in cands if b["gain"] > 0]
        tags = ["stops-with-positive-gain-available"]
        if pos and all(b["kind"] == "dstar" for b in pos):
            tags.append("dstar-undervalued")
        if pos and all(b["kind"] == "realloc" for b in pos) and case["nC"] >= 4:
            tags.append("realloc-second-best")
        return False, (f"find_best_split returns no split (gain {pick['gain']!r}) although {pos[0]} has exact gain "
                       f"{pos[0]['gain']}/{L} > 0"), tuple(tags)
    if not match:
        return False, f"the code's pick {pick} is not an admissible candidate (best exact gain {best}/{L})", ("inadmissible",)
    c = match[0]
    if abs(g - c["gain"]) > 1e-6 * max(1.0, abs(c["gain"])):
        tags = ["gain-not-increase", c["kind"] + "-gain-wrong"]
        return False, (f"reported gain {pick['gain']!r} (x{L} = {g!r}) is not the objective increase {c['gain']}/{L} "
                       f"of the chosen {c['kind']} split {pick}"), tuple(tags)
    if c["gain"] != best:
        bests = [b for b in cands if b["gain"] == best]
        kinds = sorted({b["kind"] for b in bests})
        tags = ["not-best"]
        nondstar_best = max((b["gain"] for b in cands if b["kind"] != "dstar"), default=None)
        if kinds == ["dstar"] and c["gain"] == nondstar_best:
            tags.append("dstar-undervalued")
        if case["nC"] >= 4 and all(b["kind"] == "realloc" for b in cands if b["gain"] > c["gain"]):
            tags.append("realloc-second-best")        # every candidate that beats the pick is a reallocation (>= 3 possible targets)
        return False, (f"the code picks {c} but {bests[0]} has a larger exact gain ({best}/{L} > {c['gain']}/{L})"), tuple(tags)
    return True, "", ()


# ---------------------------------------------------------------------------------------------------------------
# code -> spec: recording real Kauri.fit executions as KauriTrace events
import math, itertools, io, contextlib


def lcm_to(n):
    l = 1
    for i in range(2, n + 1):
        l = l * i // math.gcd(l, i)
    return l


def _scaled(v, L):
    s = v * L
    r = int(round(s))
    return r, bool(abs(s - r) < 1e-6 * max(1.0, abs(s)))


def record_fit(params, X, Kmat=None, variant="compiled", queries=None, scale=1.0, model=None, offset=0):
    """Fit a real Kauri on integer data X (n x d) with integer kernel (linear if Kmat is None, else precomputed) and
    return (events, model).  params uses the constructor's names.
    scale != 1: the kernel handed to the estimator is the integer kernel times `scale` (always as a precomputed matrix), and
    every logged gain / score is divided by it again - the tree must not depend on the unit the kernel is expressed in.
    model: an already used Kauri object to be re-parameterised and refitted (state left by earlier fits must not matter)."""
    from gemclus.tree import Kauri
    mod = dict(build.variants())[variant]
    X = np.asarray(X, dtype=np.float64)
    n, d = X.shape
    L = lcm_to(n)
    if (scale != 1.0 or offset) and Kmat is None:
        Kmat = X @ X.T
    # offset: the features are shifted far from the origin (values around 1e6 with unit gaps) while the kernel stays the one of
    # the un-shifted data: comparisons with a threshold must be exact whatever the magnitude of the feature values
    X = X + float(offset)
    Kint = (X @ X.T) if Kmat is None else np.asarray(Kmat, dtype=np.float64)
    assert np.all(Kint == np.round(Kint)) and np.all(X == np.round(X))
    raw = dict(kmax=params.get("max_clusters", 3), maxdepth=params.get("max_depth") or 0,
               minsplit=params.get("min_samples_split", 2), minleaf=params.get("min_samples_leaf", 1),
               maxfeat=params.get("max_features") or 0, maxleaves=params.get("max_leaves") or 0)
    events = [dict(e="setup", X=X.astype(int).tolist(), K=Kint.astype(int).tolist(), par=raw)]
    if model is None:
        model = Kauri(kernel="linear" if Kmat is None else "precomputed", **params)
    else:
        model.set_params(kernel="linear" if Kmat is None else "precomputed", **params)
    Kgiven = None if Kmat is None else Kint * scale
    with build.kauri_with(mod) as kk:
        real = kk.find_best_split

        def spy(kernel, Xa, leaves, Y, Z, n_clusters, K_max, n_leaves, min_leaf, feats):
            s = real(kernel, Xa, leaves, Y, Z, n_clusters, K_max, n_leaves, min_leaf, feats)
            g, ok = _scaled(float(s.gain) / scale, L)
            th = float(s.threshold)
            events.append(dict(e="step", expl=[int(v) for v in leaves], fsub=sorted(int(f) + 1 for f in feats),
                               nC=int(n_clusters), nL=int(n_leaves), kmax=int(K_max), minleaf=int(min_leaf),
                               leaf=int(s.leaf), f=int(s.feature) + 1, th=int(round(th)), thint=bool(th == round(th)),
                               lt=int(s.left_target), rt=int(s.right_target), gain=g, gainok=ok,
                               pos=bool(float(s.gain) > 0)))            # what the fit loop tests
            return s
        kk.find_best_split = spy
        try:
            model.fit(X, Kgiven)
        finally:
            kk.find_best_split = real
        t = model.tree_
        if queries is None:
            lo, hi = int(X.min()) - 1, int(X.max()) + 1
            pts = list(itertools.product(range(lo, hi + 1), repeat=d))
            if len(pts) > 40:
                pts = pts[::max(1, len(pts) // 40)]
            queries = [list(p) for p in pts]
        # points just above every threshold of the tree: for the (integer-threshold) specification they are equivalent to the
        # next integer, the real tree is asked at the neighbouring float and a hair above it
        qreal = [list(map(float, q)) for q in queries]
        for f_, th_ in zip(t.features, t.thresholds):
            if f_ is None:
                continue
            for eps_ in (np.nextafter(float(th_), np.inf) - float(th_), min(0.25, 1e-9 * max(1.0, abs(float(th_)))), min(0.5, 1e-6 * max(1.0, abs(float(th_))))):
                base = [float(v) for v in X[0]]
                for other in (X[0], X[-1]):
                    pt = [float(v) for v in other]
                    pt[int(f_)] = float(th_) + eps_
                    qreal.append(pt)
                    ipt = [int(v) for v in other]
                    ipt[int(f_)] = int(round(float(th_))) + 1
                    queries = queries + [ipt]
        pred = model.predict(np.asarray(qreal, dtype=np.float64)) if qreal else []
        train_pred = model.predict(X)
        sc, scok = _scaled(float(model.score(X, Kgiven)) / scale, L)
        gains = [_scaled(float(g) / scale, L)[0] for g in t.gains]
        # the score of OTHER data with the same number of rows: kernel-KMeans objective of the labels predicted for it
        X2 = X[::-1] + 1.0
        K2 = None if Kmat is None else Kgiven[::-1, ::-1]
        Kfull2 = (X2 @ X2.T) if Kmat is None else K2
        lab2 = model.predict(X2)
        ref2 = sum(Kfull2[np.ix_(np.where(lab2 == k_)[0], np.where(lab2 == k_)[0])].sum() / (lab2 == k_).sum() for k_ in np.unique(lab2))
        sc2 = float(model.score(X2, K2))
        score2ok = bool(abs(sc2 - ref2) <= 1e-9 * max(1.0, abs(ref2)))
        events.append(dict(
            e="end", labels=[int(v) for v in model.labels_], leaves=[int(v) for v in model.leaves_],
            tree=dict(left=[int(v) for v in t.children_left], right=[int(v) for v in t.children_right],
                      feat=[-1 if f is None else int(f) + 1 for f in t.features],
                      th=[-1 if v is None else int(round(float(v))) for v in t.thresholds],
                      target=[int(v) for v in t.target], depth=[int(v) for v in t.depths], gain=gains),
            queries=[[int(v) for v in q] for q in queries] + X.astype(int).tolist(),
            pred=[int(v) for v in pred] + [int(v) for v in train_pred],
            score=sc, scoreok=scok, score2ok=score2ok, nnodes=int(t.n_nodes)))
    return events, model


# ---------------------------------------------------------------------------------------------------------------
# drivers shared by C08 (gain / best-split clauses) and C09 (structural clauses)
import json, collections
from . import trace
from .common import MachineryError

TRACE_INVS = {"C08": ["ScoreIsSum"], "C09": ["Limits", "TreeShape", "RoutingReproducesPartition"]}

def datasets(tier, rnd):
    ds = {
        (5, 1): [[[0], [1], [3], [4], [7]], [[2], [2], [2], [5], [5]], [[1], [1], [1], [1], [1]], [[4], [0], [3], [1], [2]]],
        (4, 2): [[[0, 0], [0, 1], [2, 0], [2, 2]], [[1, 0], [1, 3], [1, 1], [1, 2]], [[0, 1], [1, 0], [1, 1], [0, 0]]],
        (3, 1): [[[0], [1], [3]], [[2], [2], [0]]],
        (6, 1): [[[0], [1], [2], [5], [6], [9]], [[3], [1], [3], [1], [0], [0]]],
        (1, 1): [[[3]]],
        (2, 2): [[[0, 1], [1, 0]]],
        (6, 2): [[[0, 0], [0, 3], [1, 1], [4, 0], [5, 3], [5, 4]]],
    }
    if tier == "thorough":
        for (n, d) in [(5, 1), (4, 2), (6, 1), (6, 2), (7, 1), (5, 3)]:
            for _ in range(6):
                ds.setdefault((n, d), []).append([[rnd.randint(0, 4) for _ in range(d)] for _ in range(n)])
    return ds


def param_grid(n, d, tier, rnd, budget):
    grid = []
    for kmax, md, mss, msl, mf, ml in itertools.product([1, 2, 3, 4], [None, 1, 2], [2, 3, 4, 5], [1, 2], [None] + list(range(1, d + 2)),
                                                         [None, 2, 3]):
        if 2 * msl > mss or msl > n:
            continue
        grid.append(dict(max_clusters=kmax, max_depth=md, min_samples_split=mss, min_samples_leaf=msl, max_features=mf,
                         max_leaves=ml))
    k = budget
    must = [g for g in grid if g["min_samples_split"] > n][:2]           # root smaller than min_samples_split
    pick = rnd.sample(grid, min(k, len(grid)))
    return must + pick


def precomputed_kernels(n):
    i = np.arange(1, n + 1)
    pre = ((np.outer(i, i) + 2 * i[:, None] + 2 * i[None, :]) % 5) - 1          # symmetric, indefinite
    return [None, pre.astype(float)]




def owner_of_rejection(dg):
    """Which properties a rejected trace is reported under: C08 when the gain / best-candidate conjuncts fail at a step, when
    only the score fails at the end, or when the fit ended with a tree other than the one its recorded steps build (a found
    positive-gain split not applied = fitting stopped early); C09 for every structural clause.  End-of-fit tree mismatches
    belong to both."""
    d = dg.get("diag") or {}
    ev = dg.get("event") or {}
    if ev.get("e") == "step" and d.get("loopcond") and d.get("args") and d.get("admissible"):
        return {"C08"}
    if ev.get("e") == "end" and d and all(d.get(k) for k in ("loopcond", "labels", "leaves", "tree", "routing")):
        return {"C08"}          # only the score clause fails
    if ev.get("e") == "end" and d and d.get("tree") is False:
        return {"C08", "C09"}
    return {"C09"}


def run_traces(rep, pid, tier, rnd, budget):
    """Record real Kauri.fit executions and validate them against KauriTrace; report what property `pid` owns."""
    groups, meta = collections.defaultdict(list), collections.defaultdict(list)
    reuse = {}
    for (n, d), dsl in datasets(tier, rnd).items():
        for X in dsl:
            for params in param_grid(n, d, tier, rnd, budget):
                for Kmat in precomputed_kernels(n):
                    for variant in ("compiled", "pyx"):
                        p = dict(params, random_state=rnd.randint(0, 3))
                        scale = rnd.choice([1.0, 1.0, 1e-20, 2.0 ** 40])
                        offset = rnd.choice([0, 0, 0, 10 ** 6])
                        try:
                            # the same estimator object is re-parameterised and refitted all along (per execution variant)
                            ev, model = record_fit(p, X, Kmat=Kmat, variant=variant, scale=scale, model=reuse.get(variant), offset=offset)
                            reuse[variant] = model
                        except Exception as e:
                            if pid in ("C08", "C09"):       # a fit that raises completes neither the search nor the tree
                                rep.violation(f"Kauri(**{p}).fit raised {type(e).__name__}: {e} on X={X} kernel="
                                              f"{'linear' if Kmat is None else 'precomputed'} [{variant}]",
                                              {"X": X, "params": p, "variant": variant}, tags=("raises", variant))
                            continue
                        groups[(n, d)].append(ev)
                        meta[(n, d)].append(dict(X=X, params=p, kernel=("linear" if Kmat is None else "precomputed-indefinite") + f" x{scale:g}" + (f" data+{offset}" if offset else ""),
                                                 variant=variant, splits=len(ev[-1]["tree"]["left"]) // 2))
    devs = 0
    for (n, d), traces in groups.items():
        res = trace.validate("KauriTrace", traces, constants=dict(N=n, D=d), invariants=TRACE_INVS[pid], timeout=3000)
        rep.add_tlc("KauriTrace", res["result"], note=f"N={n} D={d} traces={len(traces)}")
        rep.traces += len(traces)
        for m in meta[(n, d)]:
            rep.case((m["X"], m["params"], m["kernel"], m["variant"]), nontrivial=m["splits"] > 0)
        for tid, info in res["accepted"].items():
            if info.get("dev"):
                devs += info["dev"]
                if pid == "C08":        # named deviation actions = the known defects of the search inside a real fit
                    m = meta[(n, d)][tid - 1]
                    if info["dev"] % 1000:
                        rep.violation(f"Kauri.fit took {info['dev'] % 1000} step(s) only explained by the double-star gain defect: {m}",
                                      m, tags=("dstar-gain-wrong", "dstar-undervalued", m["variant"]))
                    if info["dev"] // 1000:
                        rep.violation(f"Kauri.fit took {info['dev'] // 1000} step(s) only explained by the second-best reallocation "
                                      f"target defect: {m}", m, tags=("realloc-second-best", m["variant"]))
        for inv, tid in res["inv_violations"]:
            m = meta[(n, d)][tid - 1] if tid else {}
            rep.violation(f"real Kauri.fit execution violates {inv}: {m}", {"meta": m, "trace": traces[tid - 1] if tid else None},
                          tags=(inv, m.get("variant", "")))
        for tid in res["rejected"]:
            if any(t == tid for _, t in res["inv_violations"]):
                continue
            m = meta[(n, d)][tid - 1]
            dg = trace.diagnose("KauriTrace", traces, tid, constants=dict(N=n, D=d))
            if pid not in owner_of_rejection(dg):
                continue
            failing = [k for k, v in (dg["diag"] or {}).items() if v is False]
            rep.violation(f"real Kauri.fit execution is not a behaviour of KauriFit: {m}; stuck at event #{dg['l']} "
                          f"{json.dumps(dg['event'])[:400]}; failing clauses: {failing}; diag={dg['diag']}",
                          {"meta": m, "trace": traces[tid - 1], "diag": dg}, tags=tuple(failing) + (m["variant"],))
        if traces:
            rep.sample({"meta": meta[(n, d)][0], "trace_events": [e["e"] for e in traces[0]],
                        "first_step": traces[0][1] if len(traces[0]) > 2 else None})
    rep.extra["known_deviation_steps_in_real_fits"] = devs


# ---------------------------------------------------------------------------------------------------------------
# spec -> code: the bookkeeping of Kauri.fit under a scripted search (spec/KauriGlue.tla)
def glue_scripts(n, d, v, datasets, num, seed=SEED, steer=True, timeout=900):
    """Random behaviours of KauriGlue (tlc -simulate): each is a dataset, a kernel, parameters and a script of answers."""
    codes = set()
    for x in datasets:
        digits = [val for row in x for val in row]
        assert len(digits) == n * d and all(0 <= val <= v for val in digits)
        codes.add(sum(val * (v + 1) ** i for i, val in enumerate(digits)))
    r = tlc.run("KauriGlue", tlc.cfg(constants=dict(N=n, D=d, V=v, STEER=steer, XCODES=codes),
                                     invariants=["Emit", "GlueLimits", "GlueTreeShape", "GlueRouting"]),
                simulate=f"num={num}", depth=2 * n + 4, seed=seed + 11, timeout=timeout)
    if r.violated:
        raise MachineryError(f"KauriGlue: spec-internal invariant {r.violated} violated\n{r.trace[:1500]}")
    seen, out = set(), []
    for p in r.prints:
        key = json.dumps([p["X"], p["kn"], p["par"], [[h["leaf"], h["f"], h["th"], h["lt"], h["rt"]] for h in p["hist"]]])
        if key not in seen:
            seen.add(key)
            out.append(p)
    return r, out


def replay_script(case, variant="compiled", model=None):
    """Drive the real Kauri.fit with the scripted answers of one KauriGlue behaviour.  Returns (problems, model) where a problem
    is (owner, tag, text): owner C08 = what the next search is told / what is stored about the gains and the clusters,
    owner C09 = the explorable leaves, the tree table, leaves_ and routing."""
    from gemclus.tree import Kauri
    mod = dict(build.variants())[variant]
    X = np.asarray(case["X"], dtype=np.float64)
    K = np.asarray(case["K"], dtype=np.float64)
    n, L, par, hist = len(X), case["L"], case["par"], case["hist"]
    params = dict(max_clusters=par["kmax"], max_depth=par["maxdepth"], min_samples_split=par["minsplit"],
                  min_samples_leaf=par["minleaf"], max_features=par["maxfeat"], max_leaves=par["maxleaves"], kernel="precomputed")
    if model is None:
        model = Kauri(**params)
    else:
        model.set_params(**params)
    problems, calls = [], [0]

    def bad(owner, tag, text):
        problems.append((owner, tag, f"search #{calls[0]}: {text}"))

    with build.kauri_with(mod) as kk:
        real = kk.find_best_split

        def script(kernel, Xa, leaves, Y, Z, n_clusters, K_max, n_leaves, min_leaf, feats):
            i = calls[0]
            calls[0] += 1
            if i >= len(hist):
                bad("C09", "extra-search", f"the loop searches again although the specification has finished ({len(hist)} searches)")
                return mod.Split(0.0, 0, 0, 0, 0, 0.0, False)
            h = hist[i]
            Y, Z = np.asarray(Y), np.asarray(Z)
            nl = int(n_leaves)
            if (int(n_clusters), nl, int(K_max), int(min_leaf)) != (h["nC"], h["nL"], par["kmax"], par["minleaf"]):
                bad("C08", "counters", f"n_clusters, n_leaves, K_max, min_leaf = {(int(n_clusters), nl, int(K_max), int(min_leaf))}; "
                                       f"specification {(h['nC'], h['nL'], par['kmax'], par['minleaf'])}")
            if sorted(int(v) for v in leaves) != sorted(h["expl"]):
                bad("C09", "explorable", f"leaves to explore {sorted(int(v) for v in leaves)}; specification {sorted(h['expl'])}")
            if sorted(int(f) for f in feats) != list(range(X.shape[1])):
                bad("C09", "features", f"features drawn {sorted(int(f) for f in feats)} with max_features = n_features")
            if nl == h["nL"]:
                leaf_of = [sorted(np.flatnonzero(Z[:, s] == 1).tolist()) for s in range(n)]
                if any(len(l) != 1 for l in leaf_of) or [l[0] for l in leaf_of] != h["before"]["leafOf"] or Z[nl:].any():
                    bad("C08", "Z", f"sample -> leaf matrix says {leaf_of}; specification {h['before']['leafOf']}")
                cl_of = [sorted(np.flatnonzero(Y[:, j] == 1).tolist()) for j in range(nl)]
                if any(len(c) != 1 for c in cl_of) or [c[0] for c in cl_of] != h["before"]["clOf"] or Y[:, nl:].any() \
                        or np.any((Y != 0) & (Y != 1)):
                    bad("C08", "Y", f"leaf -> cluster matrix says {cl_of} (unused columns: {Y[:, nl:].sum()}); specification "
                                    f"{h['before']['clOf']} after the steps {[(g['kind'], g['leaf'], g['lt'], g['rt']) for g in hist[:i]]}")
            if h["kind"] == "stop":
                return mod.Split(0.0, 0, 0, 0, 0, 0.0, False)
            return mod.Split(float(h["gain"]) / L, h["leaf"], h["lt"], h["rt"], h["f"] - 1, float(h["th"]), False)
        kk.find_best_split = script
        try:
            model.fit(X, K)
        except Exception as e:
            bad("C09", "raises", f"fit raised {type(e).__name__}: {e}")
            return problems, None
        finally:
            kk.find_best_split = real
    if calls[0] < len(hist):
        problems.append(("C09", "stops-early", f"the loop ended after {calls[0]} searches; the specification goes on: next explorable "
                                              f"leaves {hist[calls[0]]['expl']}, {hist[calls[0]]['nL']} leaves of {par['maxleaves']}"))
        return problems, model
    t = model.tree_
    spec_tree = case["tree"]
    got = dict(left=[int(v) for v in t.children_left], right=[int(v) for v in t.children_right],
               f=[-1 if f is None else int(f) + 1 for f in t.features], th=[-1 if v is None else int(round(float(v))) for v in t.thresholds],
               target=[int(v) for v in t.target], depth=[int(v) for v in t.depths])
    want = {k: [nd[k] for nd in spec_tree] for k in got}
    if got != want:
        diff = [k for k in got if got[k] != want[k]]
        problems.append(("C09", "tree-" + "-".join(diff), f"tree table differs in {diff}: code { {k: got[k] for k in diff} } specification { {k: want[k] for k in diff} }"))
    gains = [float(g) for g in t.gains]
    wg = [nd["gain"] / L for nd in spec_tree]
    if len(gains) != len(wg) or any(abs(a - b) > 1e-9 * max(1.0, abs(b)) for a, b in zip(gains, wg)):
        problems.append(("C08", "stored-gains", f"gains stored in the tree {gains}; answers of the search {wg}"))
    if [int(v) for v in model.labels_] != case["labels"]:
        problems.append(("C08", "labels", f"labels_ {model.labels_.tolist()}; specification {case['labels']} (leaf -> cluster {case['final']['clOf']})"))
    if [int(v) for v in model.leaves_] != case["final"]["leafOf"]:
        problems.append(("C09", "leaves", f"leaves_ {model.leaves_.tolist()}; specification {case['final']['leafOf']}"))
    # the Tree object's own interface (spec: RouteFrom, Len(tree), depth fields)
    if len(t) != case["nnodes"] or int(t.n_nodes) != case["nnodes"]:
        problems.append(("C09", "tree-len", f"len(tree_) = {len(t)}, n_nodes = {t.n_nodes}; specification {case['nnodes']} nodes"))
    elif got == want:
        if int(t.get_depth()) != case["height"] or [int(t.get_depth(nd)) for nd in range(case["nnodes"])] != want["depth"]:
            problems.append(("C09", "tree-depth", f"get_depth() = {t.get_depth()}, per node {[int(t.get_depth(nd)) for nd in range(case['nnodes'])]}; "
                                                  f"specification height {case['height']}, depths {want['depth']}"))
        for nd in range(case["nnodes"]):
            sub = [int(v) for v in t.predict(X, node=nd)]
            if sub != case["routeFrom"][nd]:
                problems.append(("C09", "route-from-node", f"tree_.predict(X, node={nd}) = {sub}; specification RouteFrom = {case['routeFrom'][nd]}"))
                break
    pred = [int(v) for v in model.predict(X)]
    if pred != case["labels"]:
        problems.append(("C09", "routing", f"predict(X) {pred}; specification {case['labels']}"))
    sc = float(model.score(X, K))
    if abs(sc - case["obj"] / L) > 1e-9 * max(1.0, abs(case["obj"] / L)):
        problems.append(("C08", "score", f"score(X) {sc}; objective of the specification's partition {case['obj'] / L}"))
    return problems, model


def run_glue(rep, pid, tier, rnd):
    """KauriGlue behaviours replayed into Kauri.fit (both execution variants only differ by the Split class here: compiled)."""
    confs = [(6, 1, 5, 40), (7, 1, 6, 40), (5, 2, 2, 20)] if tier == "quick" else [(5, 1, 4, 600), (6, 1, 5, 600), (7, 1, 6, 600), (5, 2, 2, 400), (6, 2, 2, 300)]
    kinds = collections.Counter()
    needed = ("star", "switch", "dstar/both-children-leave", "realloc/both-children-leave")
    model, extra = None, 0
    while confs:
        (n, d, v, num) = confs.pop(0)
        ds = [[[i] * d for i in range(min(n, v + 1))] + [[rnd.randint(0, v)] * d for _ in range(n - min(n, v + 1))],
              [[(i * 3 + f) % (v + 1) for f in range(d)] for i in range(n)]]
        ds += [[[rnd.randint(0, v) for _ in range(d)] for _ in range(n)] for _ in range(3)]
        r, cases = glue_scripts(n, d, v, ds, num, seed=SEED + 101 * extra)
        rep.add_tlc("KauriGlue", r, note=f"N={n} D={d} V={v} simulate num={num}/worker: {len(cases)} distinct scripts")
        for c in cases:
            for h in c["hist"]:
                kinds[h["kind"] + ("" if h["stay"] else "/both-children-leave")] += 1
            problems, model = replay_script(c, model=model)
            rep.case(("glue", c["X"], c["kn"], c["par"], [(h["leaf"], h["f"], h["th"], h["lt"], h["rt"]) for h in c["hist"]]),
                     nontrivial=len(c["hist"]) > 1)
            for owner, tag, text in problems:
                if owner == pid:
                    rep.violation(f"Kauri.fit with a scripted search does not follow KauriGlue: {text}; X={c['X']} kernel={c['kn']} "
                                  f"parameters={c['par']}", {"glue_case": c, "problem": [owner, tag, text]}, tags=("glue", tag))
                    break
        if not confs and extra < 4 and any(kinds.get(k, 0) < 3 for k in needed):
            extra += 1                       # a rare kind of step is still missing from the random scripts: draw more of them
            confs.append((7, 1, 6, 80))
    rep.extra["glue_steps_by_kind"] = dict(kinds)
    for k in needed:
        if not kinds.get(k):
            raise MachineryError(f"KauriGlue scripts never contained a {k} step: the replay would be vacuous for it")
