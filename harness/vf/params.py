"""Python mirror of spec/Params.tla: concrete values of the representatives, the registry of estimators / GEMINI
constructors / validated functions with their cheap valid baselines, and the tiny datasets they are exercised on.

The TLA+ module is the single source of truth for DOMAINS and VERDICTS; this module only says which Python value a
representative id stands for and how a configuration is built and fitted.  `verify_against_spec` cross-checks the two
(ids, abstract attributes, baselines, parameter names vs. the real signatures) so that they cannot drift silently.

    from vf import params
    m = params.make("LinearMMD", {"kernel": "str_rbf"})      # baseline + overrides (representative ids or raw values)
    params.fit_tiny(m)                                       # fit on the 6 x 3 integer dataset (y = affinity if needed)
"""
import contextlib, importlib, inspect, io, warnings
import numpy as np

N_SAMPLES, N_FEATURES = 6, 3
_ROWS = [[0, 1, 2], [1, 0, 3], [5, 6, 4], [6, 5, 7], [2, 9, 1], [3, 8, 0], [7, 2, 5], [4, 4, 9]]


class Ctx:
    """The tiny valid dataset (non-negative integers, distinct rows) and its precomputed affinities."""

    def __init__(self, d=N_FEATURES, n=N_SAMPLES):
        self.d, self.n = d, n
        self.X = np.array([r[:d] for r in _ROWS[:n]], dtype=np.int64).reshape(n, d)
        Xf = self.X.astype(float)
        self.kernel = Xf @ Xf.T                                              # linear kernel (positive semi-definite)
        self.dist = np.sqrt(((Xf[:, None, :] - Xf[None, :, :]) ** 2).sum(-1))  # Euclidean distances
        self._cache = {}

    def kauri_fitted(self):
        if "kauri" not in self._cache:
            from gemclus.tree import Kauri
            with quiet():
                self._cache["kauri"] = Kauri(max_clusters=2, random_state=0).fit(self.X)
        return self._cache["kauri"]


_CTX = {}


def ctx(d=N_FEATURES, n=N_SAMPLES):
    if (d, n) not in _CTX:
        _CTX[(d, n)] = Ctx(d, n)
    return _CTX[(d, n)]


@contextlib.contextmanager
def quiet():
    """Silence the library: warnings, numpy floating point complaints and verbose prints."""
    with warnings.catch_warnings(), np.errstate(all="ignore"), contextlib.redirect_stdout(io.StringIO()):
        warnings.simplefilter("ignore")
        yield


def linear_kernel_callable(X, Y=None):
    X = np.asarray(X, dtype=float)
    Y = X if Y is None else np.asarray(Y, dtype=float)
    return X @ Y.T


# ---------------------------------------------------------------------------------------------------------------
# representatives: id -> factory(ctx) -> a FRESH concrete value
def _const(v):
    return lambda c: v


def _gemini(c):
    from gemclus.gemini import MMDGEMINI
    return MMDGEMINI()


def _model(c):
    from gemclus.linear import LinearModel
    return LinearModel(n_clusters=2, max_iter=2, random_state=0)


def _kauri_unfitted(c):
    from gemclus.tree import Kauri
    return Kauri(max_clusters=2)


def _mask(delta):
    def f(c):
        m = np.ones(c.d + delta, dtype=bool)
        if len(m) > 1:
            m[1] = False
        return m
    return f


STRINGS = ["additive_chi2", "chi2", "cosine", "linear", "poly", "polynomial", "rbf", "laplacian", "sigmoid", "precomputed",
           "euclidean", "l2", "l1", "manhattan", "cityblock",
           "mmd_ova", "mmd_ovo", "wasserstein_ova", "wasserstein_ovo", "kl_ova", "kl_ovo", "mi", "tv_ova", "tv_ovo",
           "hellinger_ova", "hellinger_ovo", "chi2_ova", "chi2_ovo", "sgd", "adam",
           "no_such_option", "haversine", "nan_euclidean"]

REPRESENTATIVES = {
    "int_neg1": _const(-1), "int_0": _const(0), "int_1": _const(1), "int_2": _const(2), "int_3": _const(3),
    "int_4": _const(4), "int_7": _const(7),
    "float_neg": _const(-0.5), "float_0": _const(0.0), "float_tiny": _const(1e-12), "float_half": _const(0.5),
    "float_1": _const(1.0), "float_1_5": _const(1.5), "float_2": _const(2.0), "float_inf": _const(float("inf")),
    "nan": _const(float("nan")),
    "none": _const(None), "bool_true": _const(True), "bool_false": _const(False),
    "list": lambda c: [0, 1], "dict": lambda c: {}, "callable": _const(linear_kernel_callable),
    "ndarray_bool_len_d_minus_1": _mask(-1), "ndarray_bool_len_d": _mask(0), "ndarray_bool_len_d_plus_1": _mask(1),
    "gemini_instance": _gemini, "rng_instance": lambda c: np.random.RandomState(0), "model_instance": _model,
    "kauri_fitted": lambda c: c.kauri_fitted(), "kauri_unfitted": _kauri_unfitted,
    "names_len_d": lambda c: [f"f{i}" for i in range(c.d)],
    "lol_partition": lambda c: [[0, 1], [2]], "lol_partial": lambda c: [[1]], "lol_overlap": lambda c: [[0, 1], [1, 2]],
    "lol_out_of_range": lambda c: [[0, c.d]], "lol_empty": lambda c: [],
}
REPRESENTATIVES.update({"str_" + s: _const(s) for s in STRINGS})


def value(rep, c=None):
    """Concrete value of a representative id (anything that is not a known id is passed through unchanged)."""
    if isinstance(rep, str) and rep in REPRESENTATIVES:
        return REPRESENTATIVES[rep](c or ctx())
    return rep


# ---------------------------------------------------------------------------------------------------------------
# registry
_DM = dict(n_clusters="int_2", max_iter="int_2", learning_rate="float_half", solver="str_adam", batch_size="none",
           verbose="bool_false", random_state="int_0")
_GEM = dict(gemini="str_mmd_ova")
_MMD = dict(kernel="str_linear", ovo="bool_false", kernel_params="none")
_WAS = dict(metric="str_euclidean", ovo="bool_false", metric_params="none")
_SPARSE = dict(groups="none", alpha="float_half", dynamic="bool_false")
_NOBATCH = {k: v for k, v in _DM.items() if k != "batch_size"}
_RS = dict(random_state="int_0")


def _e(path, base, kind="estimator", **kw):
    return dict(path=path, baseline=base, kind=kind, **kw)


ESTIMATORS = {
    "LinearModel": _e("gemclus.linear:LinearModel", {**_DM, **_GEM}),
    "LinearMMD": _e("gemclus.linear:LinearMMD", {**_DM, **_MMD}),
    "LinearWasserstein": _e("gemclus.linear:LinearWasserstein", {**_DM, **_WAS}),
    "RIM": _e("gemclus.linear:RIM", {**_DM, "reg": "float_half"}),
    "KernelRIM": _e("gemclus.linear:KernelRIM", {**_DM, "reg": "float_half", "base_kernel": "str_linear",
                                                 "base_kernel_params": "none"}),
    "MLPModel": _e("gemclus.mlp:MLPModel", {**_DM, **_GEM, "n_hidden_dim": "int_2"}),
    "MLPMMD": _e("gemclus.mlp:MLPMMD", {**_DM, **_MMD, "n_hidden_dim": "int_2"}),
    "MLPWasserstein": _e("gemclus.mlp:MLPWasserstein", {**_DM, **_WAS, "n_hidden_dim": "int_2"}),
    "SparseLinearModel": _e("gemclus.sparse:SparseLinearModel", {**_DM, **_GEM, **_SPARSE}),
    "SparseLinearMMD": _e("gemclus.sparse:SparseLinearMMD", {**_DM, **_MMD, **_SPARSE}),
    "SparseLinearMI": _e("gemclus.sparse:SparseLinearMI", {**_DM, "groups": "none", "alpha": "float_half"}),
    "SparseMLPModel": _e("gemclus.sparse:SparseMLPModel", {**_DM, **_GEM, **_SPARSE, "n_hidden_dim": "int_2",
                                                           "M": "float_1"}),
    "SparseMLPMMD": _e("gemclus.sparse:SparseMLPMMD", {**_DM, **_MMD, **_SPARSE, "n_hidden_dim": "int_2", "M": "float_1"}),
    "CategoricalModel": _e("gemclus.nonparametric:CategoricalModel", {**_NOBATCH, **_GEM}),
    "CategoricalMMD": _e("gemclus.nonparametric:CategoricalMMD", {**_NOBATCH, **_MMD}),
    "CategoricalWasserstein": _e("gemclus.nonparametric:CategoricalWasserstein", {**_NOBATCH, **_WAS}),
    "Douglas": _e("gemclus.tree:Douglas", {**_DM, **_GEM, "n_cuts": "int_1", "feature_mask": "none",
                                           "temperature": "float_half"}),
    "Kauri": _e("gemclus.tree:Kauri", dict(max_clusters="int_3", max_depth="none", min_samples_split="int_2",
                                           min_samples_leaf="int_1", max_features="none", max_leaves="none",
                                           kernel="str_linear", verbose="bool_false", random_state="int_0")),
}
_EPS = dict(epsilon="float_tiny")
GEMINIS = {
    "MMDGEMINI": _e("gemclus.gemini:MMDGEMINI", dict(ovo="bool_false", kernel="str_linear", kernel_params="none", **_EPS),
                    "gemini"),
    "WassersteinGEMINI": _e("gemclus.gemini:WassersteinGEMINI",
                            dict(ovo="bool_false", metric="str_euclidean", metric_params="none", **_EPS), "gemini"),
    "KLGEMINI": _e("gemclus.gemini:KLGEMINI", dict(ovo="bool_false", **_EPS), "gemini"),
    "MI": _e("gemclus.gemini:MI", dict(_EPS), "gemini"),
    "TVGEMINI": _e("gemclus.gemini:TVGEMINI", dict(ovo="bool_false", **_EPS), "gemini"),
    "HellingerGEMINI": _e("gemclus.gemini:HellingerGEMINI", dict(ovo="bool_false", **_EPS), "gemini"),
    "ChiSquareGEMINI": _e("gemclus.gemini:ChiSquareGEMINI", dict(ovo="bool_false", **_EPS), "gemini"),
}


def _gmm_fixed(c):
    return dict(loc=[np.zeros(2), np.ones(2) * 3], scale=[np.eye(2), np.eye(2)], pvals=np.array([0.5, 0.5]))


def _student_fixed(c):
    return dict(loc=np.zeros(2), scale=np.eye(2))


# `required`: arguments without a default (given their baseline in the "default configuration");
# `fixed`: arguments outside the tables, held at a valid value
FUNCTIONS = {
    "add_mlcl_constraint": _e("gemclus.mlcl:add_mlcl_constraint", dict(gemini_model="model_instance", factor="float_1"),
                              "function", required=("gemini_model",)),
    "print_kauri_tree": _e("gemclus.tree:print_kauri_tree", dict(kauri_tree="kauri_fitted", feature_names="none"),
                           "function", required=("kauri_tree",)),
    "draw_gmm": _e("gemclus.data:draw_gmm", dict(n="int_3", **_RS), "function", required=("n",), fixed=_gmm_fixed),
    "multivariate_student_t": _e("gemclus.data:multivariate_student_t", dict(n="int_3", df="int_2", **_RS), "function",
                                 required=("n",), fixed=_student_fixed),
    "gstm": _e("gemclus.data:gstm", dict(n="int_4", alpha="int_2", df="int_1", **_RS), "function"),
    "celeux_one": _e("gemclus.data:celeux_one", dict(n="int_3", p="int_2", mu="float_1_5", **_RS), "function"),
    "celeux_two": _e("gemclus.data:celeux_two", dict(n="int_3", **_RS), "function"),
}
REGISTRY = {**ESTIMATORS, **GEMINIS, **FUNCTIONS}


def resolve(name):
    mod, attr = REGISTRY[name]["path"].split(":")
    return getattr(importlib.import_module(mod), attr)


def baseline(name):
    return dict(REGISTRY[name]["baseline"])


def kwargs_for(name, assignment=None, c=None, default=False):
    """Concrete keyword arguments: baseline updated with `assignment` (ids or raw values).  default=True: only the
    arguments that have no default value (the "bare constructor" configuration), plus `assignment`."""
    c = c or ctx()
    ent = REGISTRY[name]
    if default:
        kw = {k: ent["baseline"][k] for k in ent.get("required", ())}
    else:
        kw = dict(ent["baseline"])
    kw.update(assignment or {})
    out = {k: value(v, c) for k, v in kw.items()}
    if ent.get("fixed"):
        out.update(ent["fixed"](c))
    return out


def make(name, assignment=None, c=None, default=False):
    """Estimators and GEMINI constructors: the constructed object (GEMINI constructors validate here).  Functions: a
    zero-argument callable performing the call."""
    obj = resolve(name)
    kw = kwargs_for(name, assignment, c, default)
    if REGISTRY[name]["kind"] == "function":
        return lambda: obj(**kw)
    return obj(**kw)


def affinity_for(model, c=None):
    """The `y` a fit / score needs: the precomputed kernel or distance matrix when a 'precomputed' option is in play."""
    c = c or ctx()

    def is_pre(v):
        return isinstance(v, str) and v == "precomputed"
    g = getattr(model, "gemini", None)
    if is_pre(getattr(model, "metric", None)) or is_pre(getattr(g, "metric", None)):
        return c.dist
    if is_pre(getattr(model, "kernel", None)) or is_pre(getattr(g, "kernel", None)):
        return c.kernel
    return None


def fit_tiny(model, c=None, X=None):
    """Fit on the tiny valid dataset (or on X), passing the precomputed affinity when the configuration asks for one."""
    c = c or ctx()
    with quiet():
        return model.fit(c.X if X is None else X, affinity_for(model, c))


MALFORMED = ("nan", "inf", "strings", "one_d", "three_d", "empty", "fewer_than_n_clusters")


def malformed(kind, c=None):
    """(X, extra constructor arguments) for one class of malformed training data."""
    c = c or ctx()
    Xf = c.X.astype(float)
    if kind == "nan":
        Xf[1, 1] = np.nan
        return Xf, {}
    if kind == "inf":
        Xf[2, 0] = np.inf
        return Xf, {}
    if kind == "strings":
        return np.array([[f"s{v}" for v in row] for row in c.X], dtype=object), {}
    if kind == "one_d":
        return c.X[:, 0].copy(), {}
    if kind == "three_d":
        return c.X.reshape(c.n, c.d, 1).copy(), {}
    if kind == "empty":
        return np.empty((0, c.d)), {}
    if kind == "fewer_than_n_clusters":
        return c.X[:3].copy(), {"n_clusters": 4}
    raise KeyError(kind)


# ---------------------------------------------------------------------------------------------------------------
def verify_against_spec(universe, baselines=None, classes=None):
    """Problems (strings) found when comparing this module with what Params.tla printed; [] when consistent."""
    bad = []
    c = ctx()
    ids = {u["id"] for u in universe}
    if ids != set(REPRESENTATIVES):
        bad.append(f"representative ids differ: spec-only {sorted(ids - set(REPRESENTATIVES))}, "
                   f"python-only {sorted(set(REPRESENTATIVES) - ids)}")
    for u in universe:
        if u["id"] not in REPRESENTATIVES:
            continue
        v, t = value(u["id"], c), u["type"]
        ok = True
        if t == "int":
            ok = type(v) is int and v * 2000 == u["cmp"]
        elif t == "float":
            ok = type(v) is float and ((v != v) == u["nan"]) and (np.isfinite(v) or v != v) == u["fin"]
            if ok and np.isfinite(v):
                ok = (u["cmp"] == 1 and 0 < v < 1e-6) if u["id"] == "float_tiny" else v * 2000 == u["cmp"]
        elif t == "bool":
            ok = type(v) is bool and int(v) * 2000 == u["cmp"]
        elif t == "none":
            ok = v is None
        elif t == "str":
            ok = v == u["s"]
        elif t == "ndarray_bool":
            ok = isinstance(v, np.ndarray) and v.dtype == bool and len(v) == u["len"]
        elif t == "lol":
            ok = v == u["g"]
        elif t == "list":
            ok = type(v) is list
        elif t == "dict":
            ok = type(v) is dict
        elif t == "callable":
            ok = callable(v)
        elif t == "names":
            ok = type(v) is list and len(v) == c.d and all(isinstance(s, str) for s in v)
        if not ok:
            bad.append(f"representative {u['id']} does not match its abstract attributes: {v!r} vs {u}")
    if classes is not None and list(classes) != list(REGISTRY):
        bad.append(f"class lists differ: {classes} vs {list(REGISTRY)}")
    for name, b in (baselines or {}).items():
        if b != REGISTRY[name]["baseline"]:
            bad.append(f"baseline of {name} differs: spec {b} vs python {REGISTRY[name]['baseline']}")
    for name, ent in REGISTRY.items():
        try:
            obj = resolve(name)
        except Exception as e:
            bad.append(f"cannot import {name}: {e}")
            continue
        sig = inspect.signature(obj.__init__ if inspect.isclass(obj) else obj)
        names = [p for p in sig.parameters if p != "self"]
        want = set(ent["baseline"])
        fixed = set(ent["fixed"](c)) if ent.get("fixed") else set()
        skip = {"must_link", "cannot_link"} if name == "add_mlcl_constraint" else set()
        if want | fixed | skip != set(names):
            bad.append(f"{name}: table parameters {sorted(want | fixed)} differ from the signature {names}")
    return bad
