"""Binding of spec/Mlcl.tla to gemclus.mlcl.add_mlcl_constraint (C14): run TLC, present unordered pair sets to the real
code in several concrete forms, drive the decorated `_batchify` / `_compute_grads` of probe models."""
import random
from fractions import Fraction
import numpy as np
from . import tlc
from .common import SEED, NCPU

THEOREMS = {"accept": ["Emit", "AcceptIsSatisfiable", "AcceptUnordered"],
            "self": ["Emit", "AcceptIsSatisfiable", "AcceptUnordered"],
            "inject": ["Emit", "InjectIsGradient", "Untouched", "InjectEquivariant"],
            "shape": ["Emit"]}


def enumerate_cases(mode, ids, nch=64, frac=1.0, k=2, fammax=2, nv=2, nfac=3, full=True, thm="some", timeout=600,
                    seed=SEED):
    """One TLC run of Mlcl.tla in `mode`; frac<1 explores a seeded subset of the chunks."""
    rnd = random.Random(f"{seed}-{mode}-{sorted(ids)}-{fammax}")
    n = max(1, round(nch * frac))
    chunks = set(range(nch)) if n >= nch else set(rnd.sample(range(nch), n))
    c = tlc.cfg(constants=dict(IDS=set(ids), MODE=mode, NCH=nch, CHUNKS=chunks, K=k, FAMMAX=fammax, NV=nv, NFAC=nfac,
                               FULL=full, THM=thm), invariants=THEOREMS[mode])
    r = tlc.run("Mlcl", c, workers=NCPU, timeout=timeout, coverage=True)
    return r, f"{len(chunks)}/{nch}"


# ---------------------------------------------------------------------------------------------------------------------
# presenting a set of unordered pairs to the code
VARIANTS = ("canonical-tuples", "flipped-ndarray", "shuffled-lists")


def present(pairs, variant, key):
    """A concrete Python value for the unordered pair set `pairs` (list of [i, j]).  Empty sets are presented as the
    three documented ways of saying 'no constraint'."""
    pairs = [tuple(p) for p in pairs]
    if not pairs:
        return {"canonical-tuples": [], "flipped-ndarray": None, "shuffled-lists": np.array([])}[variant]
    if variant == "canonical-tuples":
        return list(pairs)
    if variant == "flipped-ndarray":
        return np.array([[j, i] for i, j in reversed(pairs)], dtype=int)
    rnd = random.Random(f"{SEED}-{key}")
    out = [[i, j] if rnd.random() < 0.5 else [j, i] for i, j in pairs]
    rnd.shuffle(out)
    return out


def model_for(n):
    """A fresh cheap model of one of the decorated families (validation does not depend on it)."""
    from gemclus.linear import LinearModel
    from gemclus.mlp import MLPModel
    from gemclus.nonparametric import CategoricalModel
    return (LinearModel, LinearModel, MLPModel, CategoricalModel)[n % 4](n_clusters=2)


def call_real(ml, cl, factor=1.0, n=0):
    """-> ('accept', model) | ('reject', exc) | ('crash', exc)"""
    from gemclus import add_mlcl_constraint
    m = model_for(n)
    try:
        add_mlcl_constraint(m, must_link=ml, cannot_link=cl, factor=factor)
        return "accept", m
    except (ValueError, TypeError) as e:
        return "reject", e
    except Exception as e:  # any other exception type is not a clean rejection
        return "crash", e


def positions_model(ml, cl):
    """DIAGNOSTIC ONLY (used for tagging a disagreement, never for a verdict): the verdict of a validator that builds
    must-link components over POSITIONS in the list of distinct must-link ids and then compares those positions with
    the raw ids of the cannot-link pairs."""
    if not ml or not cl:
        return True
    a = np.asarray(ml, dtype=int)
    uniq = list(set([p[0] for p in a] + [p[1] for p in a]))
    comp = {i: i for i in range(len(uniq))}

    def find(x):
        while comp[x] != x:
            x = comp[x]
        return x
    for p in a:
        comp[find(uniq.index(p[0]))] = find(uniq.index(p[1]))
    for i, j in cl:
        if i in comp and j in comp and i != j and find(i) == find(j):
            return False
    return True


SHAPES = {
    "none": [None],
    "empty": [[], (), np.array([])],
    "scalar": [3, 0, np.int64(7)],
    "flat": [[0, 1], (0, 3), np.array([0, 3]), [2]],
    "column": [[[0], [1]], np.array([[0], [3]]), [(0,)]],
}
SHAPE_PAIRS = {"ml": [[(0, 3)], np.array([[3, 0], [3, 12]])], "cl": [[(7, 12)], np.array([[12, 7]])]}


# ---------------------------------------------------------------------------------------------------------------------
# driving the decorated model
class ScriptedRS(np.random.RandomState):
    """A RandomState whose `permutation` returns scripted orders (one per epoch)."""

    def __init__(self, orders=()):
        super().__init__(0)
        self.script(orders)

    def script(self, orders):
        self.orders = [list(o) for o in orders]
        self.used = 0
        return self

    def permutation(self, n):
        o = self.orders[self.used]
        self.used += 1
        assert len(o) == n, (len(o), n)
        return np.array(o, dtype=int)


_RS = []


def scripted(orders):
    """Seeding a RandomState costs 0.25 ms: one instance is re-scripted for every drive."""
    if not _RS:
        _RS.append(ScriptedRS())
    return _RS[0].script(orders)


_PROBES = {}


def probe_class(family):
    """Subclass of a real model family whose backprop returns the gradient w.r.t. the predictions it was given, so the
    effect of the decoration is observable.  `_batchify` stays the family's own."""
    if family not in _PROBES:
        from gemclus.linear import LinearModel
        from gemclus.mlp import MLPModel
        from gemclus.nonparametric import CategoricalModel
        base = {"linear": LinearModel, "mlp": MLPModel, "categorical": CategoricalModel}[family]

        class Probe(base):
            def _compute_grads(self, X, y_pred, gradient):
                return gradient
        Probe.__name__ = f"Probe{base.__name__}"
        _PROBES[family] = Probe
    return _PROBES[family]


def decorated_probe(family, ml, cl, factor, key):
    """-> (model, None) or (None, exception) when the real validation refuses the constraint set"""
    from gemclus import add_mlcl_constraint
    m = probe_class(family)(n_clusters=2)
    variant = VARIANTS[hash_int(key) % 3]
    try:
        add_mlcl_constraint(m, must_link=present(ml, variant, ("ml", key)), cannot_link=present(cl, variant, ("cl", key)),
                            factor=factor)
    except Exception as e:
        return None, e
    return m, None


def hash_int(key):
    return random.Random(f"{SEED}-{key}").randrange(1 << 30)


def as_array(mat, exact):
    if exact:
        a = np.empty((len(mat), len(mat[0])), dtype=object)
        for p, row in enumerate(mat):
            for k, v in enumerate(row):
                a[p, k] = Fraction(v)
        return a
    return np.array(mat, dtype=float)


def drive(model, family, idx, y, g, n_total, exact, key):
    """Run two scripted epochs through the decorated `_batchify`; the batch `idx` occurs in the second epoch, where the
    decorated `_compute_grads` is called on (y, g).  Returns (out matrix as Fractions | None, problems)."""
    problems = []
    L = len(idx)
    X = np.ones((n_total, 2))
    X[:, 0] = np.arange(n_total)
    rnd = random.Random(f"{SEED}-{key}")
    if family == "categorical":
        assert list(idx) == list(range(n_total))
        orders = [list(range(n_total))] * 2
        bs = None
    elif L == n_total:
        decoy = list(range(n_total))
        rnd.shuffle(decoy)
        orders = [decoy, list(idx)]
        bs = None
    else:
        rest = [i for i in range(n_total) if i not in idx]
        rnd.shuffle(rest)
        slot = rnd.randrange(n_total // L)
        decoy = list(range(n_total))
        rnd.shuffle(decoy)
        orders = [decoy, rest[:slot * L] + list(idx) + rest[slot * L:]]
        bs = L
    model.batch_size = bs
    rs = scripted(orders)
    out, seen = None, 0
    for epoch in range(2):
        pos = 0
        for Xb, aff in model._batchify(X, None, rs):
            ids = [int(v) for v in Xb[:, 0]]
            expected_ids = orders[epoch][pos:pos + len(ids)]
            pos += len(ids)
            rec = list(model._batchify.indices)
            if ids != expected_ids:
                problems.append(f"epoch {epoch}: batch rows {ids} are not the scripted slice {expected_ids}")
            if rec != ids:
                problems.append(f"epoch {epoch}: recorded indices {rec} != sample ids of the yielded batch {ids}")
            if epoch == 1 and ids == list(idx):
                seen += 1
                Y, G = as_array(y, exact), as_array(g, exact)
                res = model._compute_grads(Xb, Y, G)
                out = [[Fraction(v) for v in row] for row in np.asarray(res).tolist()]
        if pos != n_total:
            problems.append(f"epoch {epoch}: batches covered {pos} of {n_total} samples")
    if family != "categorical" and rs.used != 2:
        problems.append(f"permutation drawn {rs.used} times in 2 epochs")
    if seen != 1:
        problems.append(f"target batch {list(idx)} occurred {seen} times")
    return out, problems


def reference_delta(ids, y, ml, cl, factor):
    """SIDE CHECK ONLY (float fits): direct transcription of Mlcl!Inject minus g, for float predictions."""
    y = np.asarray(y, dtype=float)
    d = np.zeros_like(y)
    pos = {s: p for p, s in enumerate(ids)}
    for sign, pairs in ((+1.0, cl), (-1.0, ml)):
        for i, j in pairs:
            if i in pos and j in pos:
                d[pos[i]] += sign * factor * (y[pos[i]] - y[pos[j]])
                d[pos[j]] += sign * factor * (y[pos[j]] - y[pos[i]])
    return d
