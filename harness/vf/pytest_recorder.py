"""pytest plugin (`-p vf.pytest_recorder`): every DiscriminativeModel.fit and every sparse path() that the repository's OWN
test-suite performs is recorded as a TrainTrace / PathTrace trace (float mode: real-valued data, so sample identity comes
from row matching and the numeric clauses arrive as recorder-evaluated booleans).  Traces are written to $VF_TRACE_DIR."""
import json, os, functools, itertools, warnings
import numpy as np

_depth = {"fit": 0, "path": 0}
_counter = itertools.count()
_out = {"train": [], "path": []}


def _dump():
    d = os.environ.get("VF_TRACE_DIR")
    if not d:
        return
    os.makedirs(d, exist_ok=True)
    with open(os.path.join(d, f"traces-{os.getpid()}.json"), "w") as fh:
        json.dump(_out, fh)


def pytest_configure(config):
    from vf import train, path as vpath
    from gemclus._base_gemini import DiscriminativeModel
    from gemclus.sparse import SparseLinearModel, SparseMLPModel
    orig_fit = DiscriminativeModel.fit

    @functools.wraps(orig_fit)
    def fit(self, X, y=None):
        if _depth["fit"] or _depth["path"]:
            return orig_fit(self, X, y)
        _depth["fit"] += 1
        try:
            try:
                Xa = np.asarray(X, dtype=np.float64)
                ok = Xa.ndim == 2 and len(Xa) > 0
            except Exception:
                ok = False
            if not ok:
                return orig_fit(self, X, y)
            try:
                full = train.full_affinity_of(self, Xa, y)
            except Exception:
                full = None
            decorated = hasattr(self._batchify, "indices")
            rec = train.Recorder(self, len(Xa), "fit", decorated, None, full is not None, full, d=Xa.shape[1])
            rec.ids_mode = "match"
            with rec:
                res = orig_fit(self, X, y)          # an exception propagates to the test; the partial trace is dropped
            rec.finish(Xa, y)
            _out["train"].append(dict(test=os.environ.get("PYTEST_CURRENT_TEST", ""), cls=type(self).__name__, events=rec.events))
            return res
        finally:
            _depth["fit"] -= 1
    DiscriminativeModel.fit = fit

    for cls in (SparseLinearModel, SparseMLPModel):
        orig_path = cls.path

        def make(orig_path):
            @functools.wraps(orig_path)
            def path(self, X, y=None, **kw):
                if _depth["path"]:
                    return orig_path(self, X, y, **kw)
                _depth["path"] += 1
                try:
                    holder = {}

                    def call():
                        holder["res"] = orig_path(self, X, y, **kw)
                        return holder["res"]
                    out = vpath.record_path(self, X, y, call=call, max_calls=10 ** 9, ids="match", **kw)
                    if out["err"] is not None:
                        raise out["err"]
                    _out["path"].append(dict(test=os.environ.get("PYTEST_CURRENT_TEST", ""), cls=type(self).__name__, events=out["path"]))
                    _out["train"].append(dict(test=os.environ.get("PYTEST_CURRENT_TEST", ""), cls=type(self).__name__, events=out["train"]))
                    for m in out["warnings_raw"]:
                        warnings.warn_explicit(m.message, m.category, m.filename, m.lineno)
                    return holder["res"]
                finally:
                    _depth["path"] -= 1
            return path
        cls.path = make(orig_path)


def pytest_unconfigure(config):
    _dump()
