"""Recording real fit / path executions as TrainTrace events (no source hooks: instance attributes, one module
attribute and sklearn's BaseOptimizer.update_params are wrapped for the duration of a recording)."""
import math, contextlib, warnings
import numpy as np


def id_affinity(n):
    """Injective 'affinity' Aff(i,j) = i*n + j: a delivered block matches only if rows, columns and order are right."""
    i = np.arange(n, dtype=np.float64)
    return i[:, None] * n + i[None, :]


class IdKernel:
    """A callable kernel/metric that rebuilds the injective affinity from the id column of X (tests the computed path)."""
    def __init__(self, n):
        self.n = n

    def __call__(self, X, Y=None):
        a = np.asarray(X)[:, 0]
        b = a if Y is None else np.asarray(Y)[:, 0]
        return a[:, None] * self.n + b[None, :]


class RowIdKernel:
    """Base kernel for KernelRIM: K(X, Y)[i, j] = id_i + 1000 * id_j, so that column 0 of a kernel row is the sample id."""
    def __call__(self, X, Y):
        return np.asarray(X)[:, :1] + 1000.0 * np.asarray(Y)[:, 0][None, :]


def make_data(n, d, rnd, scale=1.0):
    X = np.array([[rnd.randint(-3, 3) for _ in range(d)] for _ in range(n)], dtype=np.float64) * scale
    X[:, 0] = np.arange(n)
    return X


class _BatchSpy:
    """Wraps the (possibly mlcl-decorated) _batchify of a model; forwards `.indices` so the decoration keeps working."""

    def __init__(self, rec, inner):
        self._rec, self._inner = rec, inner

    @property
    def indices(self):
        return self._inner.indices

    @indices.setter
    def indices(self, v):
        self._inner.indices = v

    def __call__(self, X, affinity_matrix=None, random_state=None):
        rec = self._rec
        first = True
        pool, dupkeys = None, set()
        if rec.ids_mode == "match":
            # sample identity by matching batch rows with the rows of the full array (duplicates: any unused equal row)
            pool = {}
            for i, row in enumerate(np.asarray(X)):
                pool.setdefault(np.ascontiguousarray(row).tobytes(), []).append(i)
            dupkeys = {k for k, v in pool.items() if len(v) > 1}
            pool = {k: v[::-1] for k, v in pool.items()}
        for xb, ab in self._inner(X, affinity_matrix, random_state):
            if first:
                rec.events.append(dict(e="epoch"))
                first = False
            if pool is None:
                ids = [int(round(v)) for v in np.asarray(xb)[:, 0]]
            else:
                ids = []
                for row in np.asarray(xb):
                    lst = pool.get(np.ascontiguousarray(row).tobytes())
                    ids.append(lst.pop() if lst else -1)
            ev = dict(e="batch", idx=ids, hasblock=ab is not None, blockint=False, block=[], rec=[], blockok=True)
            if ab is not None:
                ab_ = np.asarray(ab)
                if rec.affid and ab_.ndim == 2 and np.all(ab_ == np.round(ab_)):
                    ev["blockint"] = True
                    ev["block"] = ab_.astype(np.int64).tolist()
                if rec.full_affinity is not None and 0 <= min(ids) and max(ids) < rec.n:
                    ref = rec.full_affinity[np.ix_(ids, ids)]
                    ok = bool(ab_.shape == (len(ids), len(ids)) and np.array_equal(ab_, ref))
                    if not ok and pool is not None and ab_.shape == ref.shape and bool(dupkeys):
                        # duplicated rows: the matching picks *an* equal row, whose affinity row can differ in the last bit
                        ok = bool(np.allclose(ab_, ref, rtol=1e-10, atol=1e-12))
                    ev["blockok"] = ok
            if rec.decorated:
                ev["rec"] = [int(v) for v in getattr(self._inner, "indices", [])]
                # with duplicated rows the matching above is ambiguous: if the recorded indices do select exactly the rows of
                # this batch, they are a valid identification of the samples (and are then what the partition is judged on)
                if pool is not None and len(ev["rec"]) == len(ids) and all(0 <= r < len(X) for r in ev["rec"]) \
                        and np.array_equal(np.asarray(X)[ev["rec"]], np.asarray(xb)):
                    ev["idx"] = list(ev["rec"])
            rec.events.append(ev)
            rec.last_batch = (xb, ab)
            yield xb, ab
        if first:
            rec.events.append(dict(e="epoch"))


def complete_groups(groups, d):
    """The documented completion of a partial group list: missing features become singleton groups, in increasing order."""
    if groups is None:
        return None
    seen = {int(i) for g in groups for i in g}
    return [[int(i) for i in g] for g in groups] + [[i] for i in range(d) if i not in seen]


class Recorder:
    def __init__(self, model, n, mode="fit", decorated=False, direction_check=None, hasaff=None, full_affinity=None, d=None):
        self.model, self.n, self.mode, self.decorated = model, n, mode, decorated
        self.events = []
        self.direction_check = direction_check          # callable(recorder, params, grads) -> bool   (C03)
        self.sparse = hasattr(model, "alpha") and hasattr(model, "get_selection")
        self.whole = type(model).__name__.startswith("Categorical")
        self.hasaff = hasaff
        self.full_affinity = None if full_affinity is None else np.asarray(full_affinity, dtype=float)
        self.affid = bool(self.full_affinity is not None and self.full_affinity.shape == (n, n)
                          and np.array_equal(self.full_affinity, id_affinity(n)))
        self.ids_mode = "match"
        self.d_hint = d
        self.groups_hint = complete_groups(getattr(model, "groups", None), d) if d else None
        self.t = 0
        self.after_opt = None
        self.prox_calls = []
        self.last_batch = None

    # ---- patches -------------------------------------------------------------------------------------------
    def __enter__(self):
        from sklearn.neural_network import _stochastic_optimizers as so
        m = self.model
        bs = m.batch_size if getattr(m, "batch_size", None) is not None else self.n
        d_feat = 0
        groups = []
        if self.sparse:
            d_feat = int(getattr(m, "n_features_in_", 0) or self.d_hint or 0)
            groups = [[int(i) for i in g] for g in (self.groups_hint or [])]
        self.events.append(dict(e="begin", n=self.n, d=d_feat, groups=groups, bs=self.n if self.whole else min(int(bs), self.n), maxiter=int(m.max_iter),
                                hasaff=bool(self.hasaff), affid=bool(self.affid), decorated=bool(self.decorated), whole=bool(self.whole),
                                sparse=bool(self.sparse), mode=self.mode))
        self._so = so
        self._orig_update = so.BaseOptimizer.update_params
        rec = self

        def update_params(opt, params, grads):
            grads = list(grads)
            ws = m._get_weights()
            shapesok = len(grads) == len(ws) and all(np.shape(g) == np.shape(w) for g, w in zip(grads, ws)) \
                and len(params) == len(ws) and all(p is w for p, w in zip(params, ws))
            dirok = True
            if rec.direction_check is not None:
                dirok = bool(rec.direction_check(rec, params, grads))
            rec._orig_update(opt, params, grads)
            rec.t += 1
            finite = all(np.all(np.isfinite(w)) for w in ws)
            rec.after_opt = [np.array(w, copy=True) for w in ws]
            xb = rec.last_batch[0] if rec.last_batch is not None else []
            rec.events.append(dict(e="update", rows=int(len(xb)), nw=len(grads), shapesok=bool(shapesok), finite=bool(finite),
                                   dirok=bool(dirok)))
        so.BaseOptimizer.update_params = update_params
        self._inner_batchify = m._batchify
        m._batchify = _BatchSpy(self, m._batchify)
        if self.sparse:
            self._patch_prox()
        return self

    def _patch_prox(self):
        import gemclus.sparse._linear_sparse as ls
        import gemclus.sparse._mlp_sparse as ms
        m, rec = self.model, self
        self._prox_saved = []
        for mod, names in ((ls, ("linear_prox_grad", "group_linear_prox_grad")), (ms, ("mlp_prox_grad", "group_mlp_prox_grad"))):
            for nm in names:
                orig = getattr(mod, nm)
                self._prox_saved.append((mod, nm, orig))

                def spy(*a, _orig=orig, _nm=nm):
                    snap = tuple(np.array(v, copy=True) if isinstance(v, np.ndarray) else v for v in a)
                    out = _orig(*a)
                    rec.prox_calls.append((_nm, snap, out))
                    return out
                setattr(mod, nm, spy)
        self._orig_uw = m.__dict__.get("_update_weights")
        inner = m._update_weights

        def update_weights(weights, gradients):
            rec.prox_calls = []
            inner(weights, gradients)
            rec.events.append(rec._prox_event())
        m._update_weights = update_weights

    def _prox_event(self):
        m = self.model
        skip0 = m.W_skip_ if hasattr(m, "W_skip_") else m.W_
        ev = dict(e="prox", sel=[int(v) for v in np.nonzero(np.any(skip0 != 0, axis=1))[0]], thrialpha=False, lrsched=False, applied=False, selok=False, w1zero=True, groupsok=True, finite=False)
        opt = m.optimiser_
        lr0 = float(opt.learning_rate_init)
        if type(opt).__name__ == "AdamOptimizer":
            t = int(opt.t)
            lr_t = lr0 * math.sqrt(1 - opt.beta_2 ** t) / (1 - opt.beta_1 ** t)
        else:
            lr_t = lr0
        ev["lrsched"] = bool(abs(float(opt.learning_rate) - lr_t) <= 1e-12 * abs(lr_t))
        is_mlp = hasattr(m, "W_skip_")
        skip = m.W_skip_ if is_mlp else m.W_
        if len(self.prox_calls) == 1:
            nm, a, out = self.prox_calls[0]
            grouped = nm.startswith("group_")
            a = list(a)
            if grouped:
                groups, a = a[0], a[1:]
                ev["groupsok"] = groups == m.groups_
            else:
                ev["groupsok"] = m.groups_ is None
            thr = a[2] if is_mlp else a[1]
            ev["thrialpha"] = bool(thr == m.alpha * opt.learning_rate) and (not is_mlp or a[3] == m.M)
            pre = self.after_opt
            if is_mlp:
                wi = {id(w): k for k, w in enumerate(m._get_weights())}
                ok_in = np.array_equal(a[0], pre[wi[id(m.W_skip_)]]) and np.array_equal(a[1], pre[wi[id(m.W1_)]])
                ok_out = np.array_equal(out[0], m.W_skip_) and np.array_equal(out[1], m.W1_)
                ev["applied"] = bool(ok_in and ok_out and nm == ("group_mlp_prox_grad" if grouped else "mlp_prox_grad"))
            else:
                ok_in = np.array_equal(a[0], pre[0])
                ev["applied"] = bool(ok_in and np.array_equal(out, m.W_) and
                                     nm == ("group_linear_prox_grad" if grouped else "linear_prox_grad"))
        rows = np.any(skip != 0, axis=1)
        sel = set(int(v) for v in m.get_selection())
        ev["selok"] = bool(sel == set(np.nonzero(rows)[0].tolist()) and int(m._n_selected_features()) == int(rows.sum()))
        if is_mlp:
            ev["w1zero"] = bool(np.all(m.W1_[~rows] == 0))
        if m.groups_ is not None:
            ev["groupsok"] = bool(ev["groupsok"] and all(len({bool(rows[i]) for i in g}) <= 1 for g in m.groups_))
        ev["finite"] = bool(all(np.all(np.isfinite(w)) for w in m._get_weights()))
        return ev

    def __exit__(self, *exc):
        self._so.BaseOptimizer.update_params = self._orig_update
        m = self.model
        m._batchify = self._inner_batchify
        if self.sparse:
            for mod, nm, orig in self._prox_saved:
                setattr(mod, nm, orig)
            if self._orig_uw is None:
                m.__dict__.pop("_update_weights", None)
            else:
                m._update_weights = self._orig_uw
        return False

    def finish(self, X, y=None, extra=None):
        m = self.model
        ev = dict(e="finish", niter=int(getattr(m, "n_iter_", -1)), finite=True, coherent=True, why="")
        try:
            why = coherence(m, X, y, after_path=self.mode == "path")
        except Exception as e:                                   # a fitted model that cannot predict/score is incoherent
            why = [f"{type(e).__name__}: {e}"]
        fin = finite_outputs(m, X, y)
        ev["finite"], ev["coherent"], ev["why"] = bool(fin), not why, "; ".join(why)[:300]
        if extra:
            ev.update(extra)
        self.events.append(ev)
        return ev


def finite_outputs(m, X, y=None):
    ok = all(np.all(np.isfinite(w)) for w in m._get_weights())
    try:
        P = m.predict_proba(X)
        ok = ok and bool(np.all(np.isfinite(P)))
        s = m.score(X, y)
        ok = ok and bool(np.isfinite(s))
    except Exception:
        return False
    return bool(ok)


def coherence(m, X, y=None, after_path=False):
    """C04 post-state of a successful fit; returns the list of failed clauses (empty = coherent)."""
    bad = []
    n = len(X)
    K = m.n_clusters
    lab = np.asarray(m.labels_)
    if lab.shape != (n,) or lab.min() < 0 or lab.max() >= K:
        bad.append(f"labels_ shape/range {lab.shape} [{lab.min()},{lab.max()}] for n={n} K={K}")
    P = np.asarray(m.predict_proba(X))
    if P.shape != (n, K):
        bad.append(f"predict_proba shape {P.shape}")
    elif np.all(np.isfinite(P)):
        if np.any(P < -1e-12) or np.any(np.abs(P.sum(1) - 1) > 1e-9):
            bad.append("predict_proba rows are not probability vectors")
        pred = np.asarray(m.predict(X))
        if not np.array_equal(pred, P.argmax(1)):
            bad.append("predict != argmax predict_proba")
        if not after_path and not np.array_equal(pred, lab):          # path() documents nothing about labels_ (it keeps those
            bad.append("predict(training data) != labels_")          # of its initial fit); only fit is judged here
        g = m.get_gemini()
        A = g.compute_affinity(X, y)
        sc = m.score(X, y)
        ref = float(g(P, A))
        if not (abs(sc - ref) <= 1e-9 * max(1, abs(ref))):
            bad.append(f"score {sc} != gemini(predict_proba) {ref}")
        if not isinstance(sc, float):
            bad.append(f"score is {type(sc).__name__}, not float")
        if y is None:
            # the score of OTHER data of the same size is the GEMINI of the predictions on that data
            X2 = np.asarray(X, dtype=float)[::-1] * 0.5 + 0.25
            P2 = np.asarray(m.predict_proba(X2))
            if np.all(np.isfinite(P2)):
                ref2 = float(g(P2, g.compute_affinity(X2, None)))
                sc2 = m.score(X2)
                if not (abs(sc2 - ref2) <= 1e-9 * max(1, abs(ref2))):
                    bad.append(f"score on other data of the same size {sc2} != gemini(predict_proba) {ref2}")
    if getattr(m, "n_iter_", None) != m.max_iter:
        bad.append(f"n_iter_={getattr(m, 'n_iter_', None)} max_iter={m.max_iter}")
    want = "SGDOptimizer" if (m.solver == "sgd" or after_path) else "AdamOptimizer"     # path() re-trains with SGD by design
    if type(m.optimiser_).__name__ != want:
        bad.append(f"optimiser {type(m.optimiser_).__name__} for solver={m.solver}")
    return bad


def full_affinity_of(model, X, y=None):
    """The affinity the documentation says the model trains with (None for the f-divergences)."""
    g = model.get_gemini()
    Xa = np.asarray(X, dtype=float)
    if type(model).__name__ == "KernelRIM":
        return None
    with warnings.catch_warnings():
        warnings.simplefilter("ignore")
        return g.compute_affinity(Xa, y)


def record_fit(model, X, y=None, decorated=False, direction_check=None, ids="match"):
    """Run model.fit(X, y) under the recorder; returns (events, exception or None)."""
    n = len(X)
    try:
        full = full_affinity_of(model, X, y)
    except Exception:
        full = None
    rec = Recorder(model, n, "fit", decorated, direction_check, full is not None, full, d=np.shape(X)[1])
    rec.ids_mode = ids
    err = None
    with rec:
        try:
            model.fit(X, y)
        except Exception as e:
            err = e
    if err is None:
        rec.finish(X, y)
    return rec.events, err


# ---------------------------------------------------------------------------------------------------------------
# model families (all gradient-trained estimators) with the ways an affinity can reach them
def family_builders(n, d):
    """name -> (factory(**common) -> model, y or None, supports batch_size)."""
    from gemclus.linear import LinearModel, LinearMMD, LinearWasserstein, RIM, KernelRIM
    from gemclus.mlp import MLPModel, MLPMMD, MLPWasserstein
    from gemclus.sparse import SparseLinearModel, SparseLinearMMD, SparseLinearMI, SparseMLPModel, SparseMLPMMD
    from gemclus.nonparametric import CategoricalModel, CategoricalMMD, CategoricalWasserstein
    from gemclus.tree import Douglas
    from gemclus.gemini import MMDGEMINI, WassersteinGEMINI
    A = id_affinity(n)
    idk = IdKernel(n)
    B = {}
    B["LinearModel/mmd_ova-named"] = (lambda **c: LinearModel(gemini="mmd_ova", **c), None, True)
    B["LinearModel/mmd-instance-precomputed"] = (lambda **c: LinearModel(gemini=MMDGEMINI(kernel="precomputed"), **c), A, True)
    B["LinearModel/mmd-instance-callable"] = (lambda **c: LinearModel(gemini=MMDGEMINI(ovo=True, kernel=idk), **c), None, True)
    B["LinearModel/kl_ovo"] = (lambda **c: LinearModel(gemini="kl_ovo", **c), None, True)
    B["LinearModel/wasserstein-instance-precomputed"] = (lambda **c: LinearModel(gemini=WassersteinGEMINI(metric="precomputed"), **c), A, True)
    B["LinearMMD/precomputed"] = (lambda **c: LinearMMD(kernel="precomputed", **c), A, True)
    B["LinearMMD/callable-ovo"] = (lambda **c: LinearMMD(kernel=idk, ovo=True, **c), None, True)
    B["LinearMMD/rbf"] = (lambda **c: LinearMMD(kernel="rbf", **c), None, True)
    B["LinearWasserstein/precomputed"] = (lambda **c: LinearWasserstein(metric="precomputed", **c), A, True)
    B["LinearWasserstein/euclidean-ovo"] = (lambda **c: LinearWasserstein(metric="euclidean", ovo=True, **c), None, True)
    B["RIM"] = (lambda **c: RIM(reg=0.5, **c), None, True)
    B["KernelRIM"] = (lambda **c: KernelRIM(reg=0.5, base_kernel=RowIdKernel(), **c), None, True)
    B["MLPModel/tv_ova"] = (lambda **c: MLPModel(gemini="tv_ova", n_hidden_dim=3, **c), None, True)
    B["MLPModel/mmd-instance-precomputed"] = (lambda **c: MLPModel(gemini=MMDGEMINI(kernel="precomputed"), n_hidden_dim=3, **c), A, True)
    B["MLPMMD/precomputed-ovo"] = (lambda **c: MLPMMD(kernel="precomputed", ovo=True, n_hidden_dim=3, **c), A, True)
    B["MLPWasserstein/precomputed"] = (lambda **c: MLPWasserstein(metric="precomputed", n_hidden_dim=3, **c), A, True)
    B["SparseLinearModel/mmd-instance-precomputed"] = (lambda **c: SparseLinearModel(gemini=MMDGEMINI(kernel="precomputed"), alpha=0.5, **c), A, True)
    B["SparseLinearMMD/precomputed-groups"] = (lambda **c: SparseLinearMMD(kernel="precomputed", alpha=0.5, groups=[[0, 1]] if d >= 2 else None, **c), A, True)
    B["SparseLinearMI"] = (lambda **c: SparseLinearMI(alpha=0.5, **c), None, True)
    B["SparseMLPModel/hellinger_ovo"] = (lambda **c: SparseMLPModel(gemini="hellinger_ovo", n_hidden_dim=3, alpha=0.5, M=2, **c), None, True)
    B["SparseMLPMMD/precomputed-groups"] = (lambda **c: SparseMLPMMD(kernel="precomputed", n_hidden_dim=3, alpha=0.5, M=2,
                                                                      groups=[[0], [1, 2]] if d >= 3 else None, **c), A, True)
    B["Douglas/chi2_ova"] = (lambda **c: Douglas(gemini="chi2_ova", n_cuts=2, **c), None, True)
    B["Douglas/wasserstein-instance-precomputed"] = (lambda **c: Douglas(gemini=WassersteinGEMINI(metric="precomputed"), n_cuts=1, **c), A, True)
    B["CategoricalModel/mmd-instance-precomputed"] = (lambda **c: CategoricalModel(gemini=MMDGEMINI(kernel="precomputed"), **c), A, False)
    B["CategoricalMMD/precomputed"] = (lambda **c: CategoricalMMD(kernel="precomputed", **c), A, False)
    B["CategoricalWasserstein/precomputed"] = (lambda **c: CategoricalWasserstein(metric="precomputed", **c), A, False)
    B["CategoricalModel/mi"] = (lambda **c: CategoricalModel(gemini="mi", **c), None, False)
    return B


# ---------------------------------------------------------------------------------------------------------------
# C03 (trace part): the direction handed to the optimiser vs a kink-safe numerical derivative of the DOCUMENTED objective
def documented_objective(model, xb, ab, links=None):
    """GEMINI of the model's predictions on the batch minus the documented penalty (+ pairwise constraint terms)."""
    y = model._infer(xb, retain=False)
    val = float(model.get_gemini()(y, ab))
    name = type(model).__name__
    if name == "RIM":
        val -= model.reg * float(np.sum(model.W_ ** 2))
    elif name == "KernelRIM":
        K = model._compute_kernel(model.input_data_)
        val -= model.reg * float(np.trace(model.W_.T @ K @ model.W_))
    if links:
        ids, ml, cl, f = links
        pos = {s: p for p, s in enumerate(ids)}
        for (i, j) in cl:
            if i in pos and j in pos:
                val += 0.5 * f * float(np.sum((y[pos[i]] - y[pos[j]]) ** 2))
        for (i, j) in ml:
            if i in pos and j in pos:
                val -= 0.5 * f * float(np.sum((y[pos[i]] - y[pos[j]]) ** 2))
    return val


def make_direction_check(stats, links_of=None, h=1e-5, max_coords=60, rnd=None):
    """Returns direction_check(rec, params, grads): every judged coordinate of every array handed to the optimiser must be
    minus the derivative of the documented objective; a coordinate is judged only when the two one-sided differences agree
    (no ReLU / TV / optimal-transport kink is straddled)."""
    def check(rec, params, grads):
        m = rec.model
        xb, ab = rec.last_batch
        links = links_of(rec) if links_of else None
        f0 = documented_objective(m, xb, ab, links)
        ok = True
        coords = [(a, idx) for a, p in enumerate(params) for idx in np.ndindex(p.shape)]
        if len(coords) > max_coords and rnd is not None:
            coords = rnd.sample(coords, max_coords)
        for a, idx in coords:
            p = params[a]
            old = p[idx]
            p[idx] = old + h
            fp = documented_objective(m, xb, ab, links)
            p[idx] = old - h
            fm = documented_objective(m, xb, ab, links)
            p[idx] = old
            dp, dm = (fp - f0) / h, (f0 - fm) / h
            stats["coords"] += 1
            if not (np.isfinite(dp) and np.isfinite(dm)):
                stats["nonfinite"] += 1
                continue
            # the two one-sided differences must agree closely: a kink (ReLU, TV tie, transport basis change) or rounding noise
            # (saturated predictions: the score is a square root of a near-zero quantity) makes the coordinate unjudgeable
            if abs(dp - dm) > 1e-5 + 1e-3 * max(abs(dp), abs(dm)):
                stats["kinks"] += 1
                continue
            want = -0.5 * (dp + dm)                 # the optimiser minimises: direction = -(d objective / d theta)
            got = float(np.asarray(grads[a])[idx])
            stats["judged"] += 1
            if abs(got - want) > 1e-4 * max(1.0, abs(want)) + 1e-6 + 10 * abs(dp - dm):
                ok = False
                stats["bad"].append(dict(array=a, index=[int(v) for v in idx], handed=got, expected=want,
                                         shape=list(p.shape), step=rec.t))
        return ok
    return check
