import argparse, importlib, os, sys, traceback
from .common import setup_env, MachineryError, VERIF


def main():
    ap = argparse.ArgumentParser()
    ap.add_argument("pid")
    ap.add_argument("--tier", default=os.environ.get("VERIF_TIER", "quick"), choices=["quick", "thorough"])
    ap.add_argument("--replay", default=None)
    a = ap.parse_args()
    setup_env()
    import warnings
    warnings.filterwarnings('ignore', category=RuntimeWarning)
    sys.path.insert(0, VERIF)
    try:
        mod = importlib.import_module("checks." + a.pid.lower())
    except ModuleNotFoundError as e:
        print(f"no check for {a.pid}: {e}")
        sys.exit(2)
    try:
        if a.replay:
            rc = mod.replay(a.replay)
        else:
            rc = mod.run(a.tier)
    except MachineryError as e:
        print(f"MACHINERY-FAILURE property={a.pid}: {e}")
        sys.exit(2)
    except Exception:
        traceback.print_exc()
        print(f"MACHINERY-FAILURE property={a.pid}: unexpected exception in the harness")
        sys.exit(2)
    sys.exit(rc)


if __name__ == "__main__":
    main()
