"""Two executions of gemclus/tree/_utils: the compiled extension that `import gemclus` really uses, and the working
tree's .pyx source run as plain Python through a mechanical de-typing loader (no Cython exists in this sandbox, so
this is what makes a source-level change to the .pyx visible)."""
import re, os, types, warnings, contextlib
from .common import REPO

CT = r'(?:np\.ndarray\[[^\]]*\]|np\.\w+_t(?:\[[:,\s]*\])?|Py_ssize_t(?:\[[:,\s]*\])?|bint|int|Split)'


def _detype_args(argstr):
    out, depth, cur = [], 0, ''
    for ch in argstr:
        if ch in '[(':
            depth += 1
        if ch in '])':
            depth -= 1
        if ch == ',' and depth == 0:
            out.append(cur)
            cur = ''
        else:
            cur += ch
    if cur.strip():
        out.append(cur)
    res = []
    for a in out:
        a = a.strip()
        m = re.match(r'^' + CT + r'\s*(\w+)\s*(=.*)?$', a)
        res.append(m.group(1) + (m.group(2) or '') if m else a)
    return ', '.join(res)


def convert(src):
    lines = src.split('\n')
    out, i = [], 0
    while i < len(lines):
        l = lines[i]
        s = l.strip()
        ind = l[:len(l) - len(l.lstrip())]
        if s.startswith('cimport') or s == 'np.import_array()':
            i += 1
            continue
        if s.startswith('cdef class'):
            out.append(ind + s.replace('cdef class', 'class'))
            i += 1
            continue
        m = re.match(r'^(cdef|cpdef|def)\s+(?:' + CT + r'\s+)?(\w+)\s*\(', s)
        if m and not s.startswith('cdef readonly'):
            hdr = s
            while not re.search(r':\s*$', hdr):
                i += 1
                hdr += ' ' + lines[i].strip()
            hdr = re.sub(r'\)\s*->\s*\w+\s*:\s*$', '):', hdr)
            args = hdr[hdr.index('(') + 1:hdr.rindex(')')]
            out.append(ind + 'def ' + m.group(2) + '(' + _detype_args(args) + '):')
            i += 1
            continue
        if s.startswith('cdef'):
            body = re.sub(r'^cdef\s+(readonly\s+)?' + CT + r'\s*', '', s)
            out.append(ind + (body if '=' in body else 'pass'))
            i += 1
            continue
        out.append(l)
        i += 1
    return '\n'.join(out)


_cache = {}


def interpreted():
    """The working tree's _utils.pyx as a Python module object (re-read when the file changes)."""
    path = os.path.join(REPO, 'gemclus', 'tree', '_utils.pyx')
    src = open(path).read()
    if _cache.get('src') != src:
        mod = types.ModuleType('_utils_pyx_interpreted')
        with warnings.catch_warnings():
            warnings.simplefilter('ignore')
            exec(compile(convert(src), path, 'exec'), mod.__dict__)
        _cache['src'], _cache['mod'] = src, mod
    return _cache['mod']


def compiled():
    import gemclus.tree._utils as m
    return m


def variants():
    return [("compiled", compiled()), ("pyx", interpreted())]


@contextlib.contextmanager
def kauri_with(mod):
    """Run gemclus.tree.kauri with find_best_split / gemini_objective taken from `mod`."""
    import gemclus.tree.kauri as kk
    saved = (kk.find_best_split, kk.gemini_objective, kk.Split)
    kk.find_best_split, kk.gemini_objective, kk.Split = mod.find_best_split, mod.gemini_objective, mod.Split
    try:
        yield kk
    finally:
        kk.find_best_split, kk.gemini_objective, kk.Split = saved
