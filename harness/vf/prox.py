"""Binding of spec/Prox.tla to gemclus.sparse._prox_grad: run TLC per mode, decode expectations, float side oracle."""
from fractions import Fraction
import math
import numpy as np
from . import tlc
from .common import NCPU

INVARIANTS = ("Emit", "KKT", "NoBetterNeighbour", "AlgIsMin", "Feasible", "Stationary", "GroupShape")


def quarters(*xs):
    """'1/2', 3 ... -> the set of integers 4*x (Prox.tla takes alpha and M in quarters: a cfg cannot hold tuples)."""
    out = set()
    for x in xs:
        f = Fraction(x) * 4
        assert f.denominator == 1, x
        out.add(int(f))
    return out


DEFAULTS = dict(MODE="lasso", RNG=3, LMAX=3, VSET="small", ALPHA4=quarters(0, "1/2", 1, 2, 3, 5),
                M4=quarters(0, "1/2", 1, 2, 10), D=1, KO=1, H=1, NSEED=1, SUB=1, NBMAX=4)


def enumerate_cases(mode, timeout=900, workers=NCPU, **consts):
    k = dict(DEFAULTS)
    k.update(consts)
    k["MODE"] = mode
    c = tlc.cfg(constants=k, invariants=list(INVARIANTS))
    return tlc.run("Prox", c, workers=workers, timeout=timeout)


def frac(p):
    return Fraction(p[0], p[1])


def bag_value(bag):
    """A term bag SUM c*fn(a) (only 'id' and 'rsqrt' occur in Prox): float value and whether it is exactly zero."""
    if not bag:
        return 0.0, True
    tot = 0.0
    for t in bag:
        c, a = frac(t["c"]), frac(t["a"])
        if t["fn"] == "id":
            tot += float(c)
        elif t["fn"] == "rsqrt":
            tot += float(c) / math.sqrt(a)
        else:
            raise ValueError(t["fn"])
    return tot, False


def close(got, exp, tol=1e-9):
    return bool(abs(got - exp) <= tol * max(1.0, abs(exp)))


def cmp_matrix(got, exp, zero, tol=1e-9):
    """got: ndarray; exp: nested list of floats; zero: nested list of bool (spec says exactly zero).
    Returns a list of (i, j, got, exp, why) disagreements: exact `== 0.0` where the spec value is exactly zero,
    |got - exp| <= tol * max(1, |exp|) elsewhere (NaN never passes)."""
    got = np.asarray(got, dtype=float)
    exp = np.asarray(exp, dtype=float)
    zero = np.asarray(zero, dtype=bool)
    if got.shape != exp.shape:
        return [(-1, -1, repr(got.shape), repr(exp.shape), "shape")]
    with np.errstate(all="ignore"):
        ok = np.where(zero, got == 0.0, np.abs(got - exp) <= tol * np.maximum(1.0, np.abs(exp)))
    return [(int(i), int(j), float(got[i, j]), float(exp[i, j]),
             "spec value is exactly 0" if zero[i, j] else "differs") for i, j in zip(*np.nonzero(~ok))]


# ---- float first-principles oracle for real-valued inputs (numeric side check only) ---------------------------------
def hier_objective(beta, theta, v, u, alpha):
    return 0.5 * np.sum((beta - v) ** 2) + 0.5 * np.sum((theta - u) ** 2) + alpha * np.linalg.norm(beta)


def hier_min_float(v, u, alpha, M):
    """Same derivation as Prox.tla!Minimiser, in float64: minimise phi over the pieces between breakpoints."""
    nv = float(np.linalg.norm(v))
    au = np.abs(u)

    def phi(b):
        return 0.5 * (b - nv) ** 2 + alpha * b + 0.5 * np.sum(np.maximum(au - M * b, 0) ** 2)
    ratio = au / M if M > 0 else np.full(len(au), math.inf)     # breakpoints |u_j|/M (M = 0: never reached)
    bps = sorted(set([0.0] + [float(x) for x in ratio if x < math.inf]))
    cands = []
    for i, lo in enumerate(bps):
        hi = bps[i + 1] if i + 1 < len(bps) else math.inf
        act = (ratio > lo) & (au > 0)       # compared on the very floats that define the pieces: no rounding mismatch
        b = (nv - alpha + M * au[act].sum()) / (1 + act.sum() * M * M)
        cands.append(min(max(b, lo), hi))
    b = min(cands, key=phi)
    beta = b * v / nv
    theta = np.sign(u) * np.minimum(au, M * b)
    return beta, theta, phi(b)
