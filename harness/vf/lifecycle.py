"""Binding of spec/Lifecycle.tla to the real estimators (C12).

A history printed by TLC is a list of calls {op, arg, p}: `p` is the configuration id ("c1" / "c2") get_params() must
report after the call.  `replay` performs the calls on a FRESH estimator of one class and, after EVERY call, checks
  (a) the caller's buffers (X of both datasets, both affinity matrices, the malformed X) against pristine copies,
  (b) get_params() against the concrete configuration the spec's `p` stands for (deep comparison with a freshly
      built copy, so in-place edits of list / dict / array hyperparameters are seen as well),
  (c) clone / constructor / set_params round trips of every hyperparameter.
After the last call (a successful fit / fit_predict / path) it takes the fingerprint of the model.
"""
import copy, inspect
import numpy as np
from . import params as P
from .common import MachineryError

PATH_ARGS = dict(alpha_multiplier=2.0, min_features=1, max_patience=2)


def KIND(op):
    return "path" if op == "path" else "fit"


SPARSE = ("SparseLinearModel", "SparseLinearMMD", "SparseLinearMI", "SparseMLPModel", "SparseMLPMMD")


# ---------------------------------------------------------------------------------------------------------------
# the two datasets (fixed: they are part of the meaning of "D1" / "D2", not of the seed)
class Buffers:
    """The arrays the caller owns.  float64 C-contiguous on purpose: validation does not copy those, so an in-place
    edit inside the library lands in the caller's memory."""

    def __init__(self):
        rs = np.random.RandomState(12)
        d1 = rs.normal(size=(8, 3))
        d1[:4] += 1.5
        d2 = rs.normal(size=(8, 3)) * 0.75          # same shape as D1 on purpose: a cache keyed by shape must not survive
        d2[3:, :2] -= 1.25
        self.X = {"D1": np.ascontiguousarray(np.round(d1, 3)), "D2": np.ascontiguousarray(np.round(d2, 3))}
        self.kernel = {k: np.ascontiguousarray(x @ x.T) for k, x in self.X.items()}
        self.dist = {k: np.ascontiguousarray(np.sqrt(((x[:, None, :] - x[None, :, :]) ** 2).sum(-1))) for k, x in self.X.items()}
        bad = self.X["D1"].copy()
        bad[1, 1] = np.nan
        self.bad = bad
        self.ml = np.array([[0, 1]], dtype=np.int64)
        self.cl = np.array([[0, 5]], dtype=np.int64)
        self._named = {"X[D1]": self.X["D1"], "X[D2]": self.X["D2"], "kernel[D1]": self.kernel["D1"], "kernel[D2]": self.kernel["D2"],
                       "dist[D1]": self.dist["D1"], "dist[D2]": self.dist["D2"], "X[bad]": self.bad, "must_link": self.ml,
                       "cannot_link": self.cl}
        self._pristine = {k: (v.copy(), v.dtype, v.shape, v.strides, _flags(v)) for k, v in self._named.items()}

    def aff(self, kind, d):
        return None if kind is None else (self.kernel if kind == "kernel" else self.dist)[d]

    def modified(self):
        """Names of the caller-owned buffers that no longer equal their pristine copy (and restore them)."""
        out = []
        for k, v in self._named.items():
            ref, dt, sh, st, fl = self._pristine[k]
            if v.dtype != dt or v.shape != sh or v.strides != st or _flags(v) != fl:
                out.append(k + " (dtype/shape/strides/flags)")
                try:
                    v.flags.writeable = True
                except Exception:
                    pass
            elif not np.array_equal(v, ref, equal_nan=True):
                out.append(k)
                v[...] = ref
        return out


def _flags(a):
    f = a.flags
    return (f.c_contiguous, f.f_contiguous, f.writeable, f.aligned, f.owndata)


# ---------------------------------------------------------------------------------------------------------------
# the concrete meaning of "c1" / "c2" per estimator class.  Factories: every call builds FRESH values.
def _mmd_pre():
    from gemclus.gemini import MMDGEMINI
    return MMDGEMINI(kernel="precomputed")


def _was_pre():
    from gemclus.gemini import WassersteinGEMINI
    return WassersteinGEMINI(metric="precomputed")


_C1 = dict(n_clusters=2, max_iter=2, learning_rate=0.05, solver="adam", batch_size=4, verbose=False, random_state=3)
_C2 = dict(n_clusters=3, max_iter=3, learning_rate=0.1, solver="sgd", batch_size=11, verbose=False, random_state=5)
_N1 = {k: v for k, v in _C1.items() if k != "batch_size"}
_N2 = {k: v for k, v in _C2.items() if k != "batch_size"}


def _spec(c1, c2, aff1=None, aff2=None):
    return dict(c1=c1, c2=c2, aff=dict(c1=aff1, c2=aff2))


SPECS = {
    "LinearModel": _spec(lambda: dict(_C1, gemini=_mmd_pre()), lambda: dict(_C2, gemini="wasserstein_ova"), "kernel"),
    "LinearMMD": _spec(lambda: dict(_C1, kernel="precomputed", ovo=False, kernel_params=None),
                       lambda: dict(_C2, kernel="rbf", ovo=True, kernel_params={"gamma": 0.5}), "kernel"),
    "LinearWasserstein": _spec(lambda: dict(_C1, metric="precomputed", ovo=False, metric_params=None),
                               lambda: dict(_C2, metric="manhattan", ovo=True, metric_params=None), "dist"),
    "RIM": _spec(lambda: dict(_C1, reg=0.5), lambda: dict(_C2, reg=0.125)),
    "KernelRIM": _spec(lambda: dict(_C1, reg=0.5, base_kernel="rbf", base_kernel_params={"gamma": 0.25}),
                       lambda: dict(_C2, reg=0.125, base_kernel=P.linear_kernel_callable, base_kernel_params=None)),
    "MLPModel": _spec(lambda: dict(_C1, gemini=_was_pre(), n_hidden_dim=3), lambda: dict(_C2, gemini="kl_ova", n_hidden_dim=2), "dist"),
    "MLPMMD": _spec(lambda: dict(_C1, kernel="precomputed", ovo=True, kernel_params=None, n_hidden_dim=3),
                    lambda: dict(_C2, kernel=P.linear_kernel_callable, ovo=False, kernel_params=None, n_hidden_dim=2), "kernel"),
    "MLPWasserstein": _spec(lambda: dict(_C1, metric="precomputed", ovo=False, metric_params=None, n_hidden_dim=3),
                            lambda: dict(_C2, metric="euclidean", ovo=True, metric_params=None, n_hidden_dim=2), "dist"),
    "SparseLinearModel": _spec(lambda: dict(_C1, gemini=_mmd_pre(), groups=[[0, 1]], alpha=0.5, dynamic=False),
                               lambda: dict(_C2, gemini="mmd_ovo", groups=None, alpha=0.25, dynamic=True, learning_rate=0.05), "kernel"),
    "SparseLinearMMD": _spec(lambda: dict(_C1, kernel="precomputed", ovo=False, kernel_params=None, groups=None, alpha=0.5, dynamic=False),
                             lambda: dict(_C2, kernel="linear", ovo=True, kernel_params=None, groups=[[1, 2]], alpha=0.25, dynamic=True,
                                          learning_rate=0.05),
                             "kernel"),
    "SparseLinearMI": _spec(lambda: dict(_C1, groups=[[1, 2]], alpha=0.5), lambda: dict(_C2, groups=None, alpha=0.25)),
    "SparseMLPModel": _spec(lambda: dict(_C1, gemini=_mmd_pre(), groups=None, alpha=0.5, dynamic=False, n_hidden_dim=3, M=2.0),
                            lambda: dict(_C2, gemini="mmd_ova", groups=[[0, 2]], alpha=0.25, dynamic=False, n_hidden_dim=2, M=5.0),
                            "kernel"),
    "SparseMLPMMD": _spec(lambda: dict(_C1, kernel="precomputed", ovo=False, kernel_params=None, groups=[[0], [1, 2]], alpha=0.5,
                                       dynamic=False, n_hidden_dim=3, M=2.0),
                          lambda: dict(_C2, kernel="linear", ovo=False, kernel_params=None, groups=None, alpha=0.25, dynamic=False,
                                       n_hidden_dim=2, M=5.0), "kernel"),
    "CategoricalModel": _spec(lambda: dict(_N1, gemini=_mmd_pre()), lambda: dict(_N2, gemini="wasserstein_ova"), "kernel"),
    "CategoricalMMD": _spec(lambda: dict(_N1, kernel="precomputed", ovo=False, kernel_params=None),
                            lambda: dict(_N2, kernel="rbf", ovo=True, kernel_params={"gamma": 0.5}), "kernel"),
    "CategoricalWasserstein": _spec(lambda: dict(_N1, metric="precomputed", ovo=False, metric_params=None),
                                    lambda: dict(_N2, metric="euclidean", ovo=True, metric_params=None), "dist"),
    "Douglas": _spec(lambda: dict(_C1, gemini=_was_pre(), n_cuts=1, feature_mask=np.array([True, False, True]), temperature=0.5),
                     lambda: dict(_C2, gemini="chi2_ova", n_cuts=2, feature_mask=None, temperature=1.0), "dist"),
    "Kauri": _spec(lambda: dict(max_clusters=3, max_depth=None, min_samples_split=2, min_samples_leaf=1, max_features=5,
                                max_leaves=None, kernel="precomputed", verbose=False, random_state=3),
                   lambda: dict(max_clusters=2, max_depth=2, min_samples_split=4, min_samples_leaf=2, max_features=1,
                                max_leaves=3, kernel="linear", verbose=False, random_state=5), "kernel"),
}


def config(name, p):
    """The full hyperparameter dict configuration `p` stands for: constructor defaults overridden by the table."""
    cls = P.resolve(name)
    out = {k: v.default for k, v in inspect.signature(cls.__init__).parameters.items() if k != "self"}
    given = SPECS[name][p]()
    unknown = set(given) - set(out)
    if unknown:
        raise MachineryError(f"{name}: configuration {p} names unknown hyperparameters {sorted(unknown)}")
    out.update(given)
    return out


# ---------------------------------------------------------------------------------------------------------------
# deep comparison of hyperparameter values and of fingerprints
def same(a, b):
    """Value equality for hyperparameters: identity for None and callables, array_equal for arrays, type-strict ==
    for scalars (0 is not 0.0 is not False), structural for containers and for GEMINI instances."""
    if a is None or b is None:
        return a is None and b is None
    if inspect.isroutine(a) or inspect.isroutine(b) or inspect.isclass(a) or inspect.isclass(b):
        return a is b
    if type(a) is not type(b):
        return False
    if isinstance(a, np.ndarray):
        return a.dtype == b.dtype and a.shape == b.shape and bool(np.array_equal(a, b, equal_nan=a.dtype.kind in "fc"))
    if isinstance(a, (list, tuple)):
        return len(a) == len(b) and all(same(x, y) for x, y in zip(a, b))
    if isinstance(a, dict):
        return set(a) == set(b) and all(same(a[k], b[k]) for k in a)
    if isinstance(a, float):
        return a == b or (a != a and b != b)
    if isinstance(a, (bool, int, str, np.generic)):
        return bool(a == b)
    if hasattr(a, "__dict__"):
        return same(vars(a), vars(b))
    return bool(a == b)


def show(v):
    if isinstance(v, np.ndarray):
        return f"ndarray{v.tolist()}"
    if hasattr(v, "__dict__") and not inspect.isroutine(v):
        return f"{type(v).__name__}({vars(v)})"
    return f"{v!r}:{type(v).__name__}"


def params_diff(got, want):
    """keys whose value differs (or that exist on one side only)"""
    return sorted(k for k in set(got) | set(want) if k not in got or k not in want or not same(got[k], want[k]))


def canon(v):
    """A comparable snapshot of a fitted attribute."""
    if isinstance(v, np.ndarray):
        return np.array(v, copy=True)
    if isinstance(v, (list, tuple)):
        return [canon(x) for x in v]
    if isinstance(v, dict):
        return {str(k): canon(x) for k, x in v.items()}
    if v is None or isinstance(v, (bool, int, float, str, np.generic)):
        return v
    if type(v).__name__ == "Tree":
        return {k: canon(x) for k, x in sorted(vars(v).items())}
    return None                                                     # not data (optimiser objects, ...)


def fingerprint(est, X):
    """Everything a successful fit leaves that is data: every public attribute ending in '_' that is an array, a scalar,
    a (nested) list of those or the Kauri Tree, plus the predictions on the training data.  The optimiser object
    (moment buffers, step counter) is bookkeeping of the training run, not the model."""
    fp = {}
    for k, v in sorted(vars(est).items()):
        if not k.endswith("_") or k.startswith("_") or k == "optimiser_":
            continue
        c = canon(v)
        if c is not None:
            fp[k] = c
    fp["predict(D)"] = canon(np.asarray(est.predict(X)))
    if hasattr(est, "predict_proba"):
        fp["predict_proba(D)"] = canon(np.asarray(est.predict_proba(X)))
    return fp


def first_diff(a, b, where=""):
    """None when two snapshots are equal (arrays: same dtype, shape and np.array_equal with NaN == NaN); otherwise a
    (location, description, max |difference| or None) triple for the first difference."""
    if isinstance(a, np.ndarray) or isinstance(b, np.ndarray):
        if not (isinstance(a, np.ndarray) and isinstance(b, np.ndarray)):
            return where, f"{type(a).__name__} vs {type(b).__name__}", None
        if a.dtype != b.dtype or a.shape != b.shape:
            return where, f"dtype/shape {a.dtype}{a.shape} vs {b.dtype}{b.shape}", None
        if np.array_equal(a, b, equal_nan=a.dtype.kind in "fc"):
            return None
        if a.dtype.kind in "fiub":
            af, bf = a.astype(float), b.astype(float)
            with np.errstate(all="ignore"):
                d = np.abs(af - bf)
            d[np.isnan(d)] = 0.0
            d[np.isnan(af) != np.isnan(bf)] = np.inf
            scale = float(np.nanmax(np.abs(af))) if af.size and not np.all(np.isnan(af)) else 0.0
            rel = float(d.max()) / max(1.0, scale)
            return where, f"max |diff| = {float(d.max()):.3g} (largest entry {scale:.3g})", rel
        return where, "values differ", None
    if isinstance(a, dict) and isinstance(b, dict):
        if set(a) != set(b):
            return where, f"attributes only on one side: {sorted(set(a) ^ set(b))}", None
        for k in a:
            d = first_diff(a[k], b[k], f"{where}.{k}" if where else k)
            if d:
                return d
        return None
    if isinstance(a, list) and isinstance(b, list):
        if len(a) != len(b):
            return where, f"lengths {len(a)} vs {len(b)}", None
        for i, (x, y) in enumerate(zip(a, b)):
            d = first_diff(x, y, f"{where}[{i}]")
            if d:
                return d
        return None
    if isinstance(a, float) and isinstance(b, float):
        if a == b or (a != a and b != b):
            return None
        return where, f"{a!r} vs {b!r}", abs(a - b)
    if type(a) is type(b) and (a is b or a == b):
        return None
    return where, f"{a!r} vs {b!r}", None


# ---------------------------------------------------------------------------------------------------------------
class Outcome:
    def __init__(self):
        self.problems = []      # (tags, description)
        self.fp = None          # fingerprint after the last call
        self.ret = None         # what path() returned, when the last call is a path
        self.observer_errors = []  # predict / predict_proba / score that raised (not a C12 matter; counted)
        self.error = None
        self.fit_errors = []    # fit / fit_predict / path on valid data that raised
        self.raised = None      # the exception of the last call, when it raised: then this IS the outcome


def _bad_flavour(name, p):
    """A fit the library must reject: with a configuration that needs a precomputed affinity, omit it (fails late, in
    compute_affinity, after validation and group checks); otherwise a NaN in X (fails in validation).  Kauri falls
    back to a linear kernel when the affinity is missing, so it always gets the NaN."""
    return "noaff" if (SPECS[name]["aff"][p] is not None and name != "Kauri") else "nan"


def check_roundtrip(est, name):
    """clone / constructor / set_params round trips; list of problem strings"""
    from sklearn.base import clone
    bad = []
    cls = type(est)
    gp = est.get_params()
    sig = [k for k in inspect.signature(cls.__init__).parameters if k != "self"]
    if sorted(gp) != sorted(sig):
        bad.append(f"get_params() keys {sorted(gp)} differ from the constructor's {sorted(sig)}")
    try:
        d = params_diff(clone(est).get_params(), gp)
        if d:
            bad.append(f"clone(est).get_params() differs on {d}")
    except Exception as e:
        bad.append(f"clone(est) raised {type(e).__name__}: {e}")
    try:
        d = params_diff(cls(**gp).get_params(), gp)
        if d:
            bad.append(f"type(est)(**est.get_params()).get_params() differs on {d}")
    except Exception as e:
        bad.append(f"type(est)(**est.get_params()) raised {type(e).__name__}: {e}")
    try:
        r = est.set_params(**gp)
        d = params_diff(est.get_params(), gp)
        if d or r is not est:
            bad.append(f"est.set_params(**est.get_params()) changed {d}" if d else "set_params did not return self")
    except Exception as e:
        bad.append(f"est.set_params(**est.get_params()) raised {type(e).__name__}: {e}")
    return bad


def replay(name, hist, buf, heal_alpha=False, decorate=False):
    """Perform the calls of `hist` on a fresh estimator of class `name`.  heal_alpha=True emulates the repair of the
    known path() defect (the hyperparameter alpha is put back right after every path call) - used only to decide
    whether a difference between two histories is explained by that defect."""
    from sklearn.base import clone
    cls = P.resolve(name)
    out = Outcome()
    est = cls(**SPECS[name]["c1"]())
    if decorate:
        from gemclus.mlcl import add_mlcl_constraint
        add_mlcl_constraint(est, must_link=buf.ml, cannot_link=buf.cl, factor=0.5)
    cur = "c1"
    path_since_set = False
    said = set()

    def problem(tags, desc):
        key = tags[0]
        if key not in said:                       # one report per kind and history
            said.add(key)
            out.problems.append((tuple(tags), desc))

    def after_call(i, call):
        where = f"after call {i + 1} ({call['op']}{'(' + call['arg'] + ')' if call['arg'] else ''})"
        mods = buf.modified()
        if mods:
            problem(("input-modified", call["op"]), f"{where}: the caller's buffers {mods} were written to")
        want = config(name, call["p"])
        got = est.get_params()
        d = params_diff(got, want)
        if d:
            tags = ["params-changed", call["op"]] + d
            if d == ["alpha"] and path_since_set:
                tags = ["path-mutates-alpha", "params-changed", call["op"]]
            problem(tags, f"{where}: get_params() differs from configuration {call['p']} on "
                          + ", ".join(f"{k}: got {show(got.get(k))}, expected {show(want.get(k))}" for k in d))
        for b in check_roundtrip(est, name):
            problem(("roundtrip", call["op"]), f"{where}: {b}")

    for i, call in enumerate(hist):
        op, arg = call["op"], call["arg"]
        aff = SPECS[name]["aff"][cur]
        last = i == len(hist) - 1
        try:
            with P.quiet():
                if op in ("fit", "fit_predict"):
                    getattr(est, op)(buf.X[arg], buf.aff(aff, arg))
                elif op == "path":
                    ret = est.path(buf.X[arg], buf.aff(aff, arg), **PATH_ARGS)
                    path_since_set = True
                    if heal_alpha:
                        est.alpha = config(name, cur)["alpha"]
                    if last:
                        out.ret = canon(list(ret))
                elif op == "fit_bad":
                    flavour = _bad_flavour(name, cur)
                    try:
                        if flavour == "noaff":
                            est.fit(buf.X["D1"], None)
                        else:
                            est.fit(buf.bad, buf.aff(aff, "D1"))
                    except (ValueError, TypeError):
                        pass
                    else:
                        raise MachineryError(f"{name}: the malformed fit ({flavour}) was accepted; FitBad needs another input")
                elif op in ("predict", "predict_proba", "score"):
                    try:
                        if op == "score":
                            est.score(buf.X[arg], buf.aff(aff, arg))
                        elif op == "predict_proba" and not hasattr(est, "predict_proba"):
                            est.predict(buf.X[arg])                       # Kauri has no predict_proba
                        else:
                            getattr(est, op)(buf.X[arg])
                    except MachineryError:
                        raise
                    except Exception as e:
                        out.observer_errors.append(f"{op}: {type(e).__name__}")
                elif op == "set_params":
                    est.set_params(**SPECS[name][arg]())
                    cur = arg
                    path_since_set = False
                elif op == "clone":
                    est = clone(est)
                else:
                    raise MachineryError(f"unknown op {op}")
        except MachineryError:
            raise
        except Exception as e:
            msg = f"{type(e).__name__}: {e}"
            if op in ("fit", "fit_predict", "path"):
                # A fit / path that raises on valid data is not what C12 judges (C04 / C07 do).  As the LAST call it is the
                # outcome of the history (and must then be the same outcome for every history the spec equates); earlier in a
                # history it is one more fit that failed: later fits must not depend on it.
                out.fit_errors.append(f"{op}: {msg[:120]}")
                if op == "path":
                    path_since_set = True
                    if heal_alpha:
                        est.alpha = config(name, cur)["alpha"]
                if last:
                    out.raised = msg
            else:
                out.error = f"call {i + 1} ({op} {arg}) raised {msg}"
                problem(("call-raises", op), f"{name}: {out.error}")
                return out
        if call["p"] != cur:
            raise MachineryError(f"harness and spec disagree on the configuration in force: {call} vs {cur}")
        after_call(i, call)
    lastc = hist[-1]
    if out.raised is not None:
        out.fp = {"raised": out.raised}
        return out
    try:
        with P.quiet():
            out.fp = fingerprint(est, buf.X[lastc["arg"]])
    except Exception as e:
        out.error = f"fingerprint: {type(e).__name__}: {e}"
        problem(("call-raises", "predict"), f"{name}: the freshly fitted model cannot predict its training data: {out.error}")
    mods = buf.modified()
    if mods:
        problem(("input-modified", "predict"), f"predict/predict_proba on the training data wrote to the caller's buffers {mods}")
    return out


def tiny(rel):
    """a relative difference small enough for floating-point reassociation to explain (never accepted silently)"""
    return rel is not None and rel <= 1e-12
