"""Verdicts: evidence files, replay files, known findings, VIOLATION / KNOWN-FINDING lines."""
import json, os, time, hashlib
from .common import EVID, REPLAY, VERIF, SEED

KNOWN = os.path.join(VERIF, "known_findings.json")


def load_known():
    if not os.path.exists(KNOWN):
        return {"findings": [], "fixed": []}
    return json.load(open(KNOWN))


class Report:
    """Collects what one check run covered and what it found."""

    def __init__(self, pid, tier):
        self.pid, self.tier = pid, tier
        self.t0 = time.time()
        self.states = 0
        self.transitions = 0
        self.traces = 0
        self.evaluations = 0
        self.nontrivial = set()
        self.samples = []
        self.violations = []          # (key, description, replay-dict)
        self.known_hits = {}          # finding id -> count
        self.vtags = {}
        self.assumptions = []
        self.extra = {}
        self.rule = ""
        self.exhaustive = False
        self.tlc_runs = []
        self._known = [f for f in load_known()["findings"] if f["property"] == pid]

    # -- coverage -----------------------------------------------------------------------------------------------
    def add_tlc(self, name, r, note=""):
        self.states += r.distinct
        self.transitions += r.generated
        self.tlc_runs.append({"spec": name, "distinct_states": r.distinct, "states_generated": r.generated,
                              "depth": r.depth, "wall_s": round(r.wall, 2), "note": note,
                              "coverage": {k: list(v) for k, v in sorted(r.coverage.items())}})

    def case(self, key=None, nontrivial=True):
        self.evaluations += 1
        if nontrivial and key is not None:
            self.nontrivial.add(key if isinstance(key, (str, int)) else json.dumps(key, sort_keys=True, default=str))

    def sample(self, obj, cap=6):
        if len(self.samples) < cap:
            self.samples.append(obj)

    # -- verdicts -----------------------------------------------------------------------------------------------
    def violation(self, desc, replay, tags=()):
        """Report a disagreement. `tags` are strings describing the failing case; a known finding matches when its
        `match` tag is among them."""
        for f in self._known:
            if f["match"] in tags:
                self.known_hits[f["id"]] = self.known_hits.get(f["id"], 0) + 1
                return False
        self.violations.append((desc, replay))
        self.vtags[tuple(sorted(tags))] = self.vtags.get(tuple(sorted(tags)), 0) + 1
        return True

    def finish(self, level="model_checking"):
        os.makedirs(EVID, exist_ok=True)
        os.makedirs(REPLAY, exist_ok=True)
        wall = time.time() - self.t0
        cov = {
            "states": max(self.states, 0), "transitions": max(self.transitions, 0),
            "traces_validated_against_impl": self.traces,
            "evaluations": self.evaluations, "distinct_nontrivial": len(self.nontrivial),
            "rule": self.rule, "samples": self.samples or ["(none)"], "exhaustive": self.exhaustive,
            "tlc_runs": self.tlc_runs, "known_finding_hits": self.known_hits,
        }
        try:
            from . import trace as _trace
            cov["traces_accepted_by_trace_spec"] = _trace.STATS["accepted"]
            cov["traces_rejected_by_trace_spec"] = _trace.STATS["rejected"]
            vacuous = _trace.STATS["validated"] > 0 and _trace.STATS["accepted"] == 0
        except Exception:
            vacuous = False
        cov.update(self.extra)
        ev = {"property_id": self.pid, "tier": self.tier, "seed": SEED, "level": level, "coverage": cov,
              "assumptions": self.assumptions, "wall_s": round(wall, 2), "violations": len(self.violations)}
        with open(os.path.join(EVID, self.pid + ".json"), "w") as fh:
            json.dump(ev, fh, indent=1, default=str)
        for f in self._known:
            if self.known_hits.get(f["id"]):
                print(f"KNOWN-FINDING: property={self.pid} {f['what']} [{f['id']}; reproduced {self.known_hits[f['id']]}x]")
        shown = 0
        if os.environ.get("VERIF_DEBUG_TAGS"):
            for t, c in sorted(self.vtags.items(), key=lambda kv: -kv[1]):
                print("TAGS", c, t)
        for desc, replay in self.violations[:25]:      # at most 25 replay files per run
            blob = json.dumps({"property": self.pid, "desc": desc, "case": replay}, sort_keys=True, default=str)
            path = os.path.join(REPLAY, f"{self.pid}-{hashlib.sha256(blob.encode()).hexdigest()[:12]}.json")
            with open(path, "w") as fh:
                fh.write(blob)
            if shown < 10:
                print(f"VIOLATION property={self.pid} replay={path}")
                print(f"  {desc[:600]}")
                shown += 1
        if len(self.violations) > shown:
            print(f"  ... {len(self.violations) - shown} more violations (replay files written)")
        if vacuous and not self.violations:
            from .common import MachineryError
            raise MachineryError("no recorded execution was accepted by its trace specification: nothing was examined past the "
                                 "first events (recorder or spec problem, or a defect owned by another property)")
        print(f"[{self.pid}] tier={self.tier} states={self.states} transitions={self.transitions} "
              f"cases={self.evaluations} traces={self.traces} violations={len(self.violations)} wall={wall:.1f}s")
        return 1 if self.violations else 0
