"""Binding of spec/Douglas.tla to gemclus.tree.Douglas: run TLC, build/instrument real models, compare (C15).

Scaling: the spec stores every coordinate times two (cuts odd, prediction data even); the binding divides by two, so the
real model sees cut points on half-integers and data on integers."""
import random
import numpy as np
from . import tlc
from .common import SEED, NCPU

INVARIANTS = ("Emit", "LeafTheorems", "MaskInert", "SortedCell", "ArgmaxIsCell", "OrderIrrelevant", "ActiveTheorems")
TEMPERATURES = (1.0, 0.1, 1e-3)
COLD = 1e-3
NCH = 32


def enumerate_cases(conf, seed=SEED, timeout=900, workers=NCPU):
    """conf: dict(D, NCUTSET, NCV, GRIDN, NPTSSET, DUPS, frac (fraction of model chunks), SUB (1 dataset in SUB))."""
    frac = conf.get("frac", 1.0)
    norm = sorted((k, tuple(v) if isinstance(v, (list, tuple)) else v) for k, v in conf.items())
    rnd = random.Random(f"{seed}-c15-{norm!r}")
    nch = NCH if frac >= 1.0 else int(round(NCH / frac))
    nsel = NCH if frac < 1.0 else nch
    chunks = set(range(nch)) if nsel >= nch else set(rnd.sample(range(nch), nsel))
    consts = dict(D=conf["D"], NCUTSET=set(conf["NCUTSET"]), NCV=conf["NCV"], GRIDN=conf["GRIDN"],
                  NPTSSET=set(conf["NPTSSET"]), DUPS=bool(conf.get("DUPS", False)), NCH=nch, CHUNKS=chunks,
                  SUB=conf.get("SUB", 1), SALT=seed % 97)
    r = tlc.run("Douglas", tlc.cfg(constants=consts, invariants=list(INVARIANTS)), workers=workers, timeout=timeout,
                coverage=True)
    return r, f"model chunks {len(chunks)}/{nch}, datasets 1/{consts['SUB']}"


def hkey(h):
    return (h["d"], tuple(h["mask"]), h["ncuts"], tuple(tuple(c) for c in h["cuts"]))


def n_clusters_for(h):
    return 2 + (len(h["used"]) + h["ncuts"]) % 2


_FITX = {}


def fit_data(d):
    if d not in _FITX:
        _FITX[d] = np.random.RandomState(1234 + d).normal(size=(8, d))
    return _FITX[d]


def fit_model(h, use_none=False, temperature=0.1, mask_kind="bool"):
    """A real Douglas model, trained for one iteration on small data of the right width (so every attribute exists).
    mask_kind: the same mask as a boolean array, as an array of 0/1 integers, of 0./1. floats or of Python bools (dtype object)."""
    from gemclus.tree import Douglas
    dt = {"bool": bool, "int": np.int64, "uint8": np.uint8, "float": np.float64, "object": object}[mask_kind]
    mask = None if use_none else np.array([bool(b) for b in h["mask"]], dtype=bool).astype(dt)
    model = Douglas(n_clusters=n_clusters_for(h), n_cuts=h["ncuts"], feature_mask=mask, temperature=temperature,
                    max_iter=1, random_state=0)
    model.fit(fit_data(h["d"]))
    return model


def leaf_scores(nleaves, k):
    """Fixed scores with pairwise distinct rows AND pairwise distinct arg-max patterns where possible."""
    s = np.random.RandomState(4242 + 31 * nleaves + k).normal(size=(nleaves, k))
    s += np.arange(nleaves)[:, None] * 1e-3          # rows distinct whatever the draw
    return s


def install(model, h):
    """Put the spec's cut points (x2 scale -> half-integers, stored in the spec's ORDER, shape (n_cuts,)) and fixed
    leaf scores on a fitted model."""
    model.cut_points_list_ = [(f, np.array(h["cuts"][f], dtype=np.float64) / 2.0) for f in h["used"]]
    model.leaf_scores_ = leaf_scores(h["nleaves"], model.n_clusters)
    return model


def to_real(points):
    return np.array(points, dtype=np.float64) / 2.0


def softmax_rows(z):
    z = z - z.max(axis=1, keepdims=True)
    e = np.exp(z)
    return e / e.sum(axis=1, keepdims=True)


def perturbations(X, masked, rng, kinds=("normal", "huge", "roll")):
    """Arbitrary rewrites of the masked-out columns of X."""
    out = []
    for kind in kinds:
        Y = X.copy()
        for f in masked:
            if kind == "normal":
                Y[:, f] = rng.normal(size=len(X)) * 100.0
            elif kind == "huge":
                Y[:, f] = np.where(np.arange(len(X)) % 2 == 0, 1e6, -1e6)
            else:
                Y[:, f] = np.roll(X[:, f], 1) + 0.5      # on a cut point of the grid, other sample's value
        out.append((kind, Y))
    return out


class Disagreements:
    """Groups the disagreements of one check run: one reported violation per group, carrying the smallest input."""

    def __init__(self):
        self.groups = {}

    def add(self, tags, size, desc, replay):
        g = self.groups.get(tags)
        if g is None:
            self.groups[tags] = [1, size, desc, replay]
        else:
            g[0] += 1
            if size < g[1]:
                g[1], g[2], g[3] = size, desc, replay

    def flush(self, rep):
        for tags in sorted(self.groups):
            n, _, desc, replay = self.groups[tags]
            rep.violation(f"{desc}  [{n} disagreement(s) of this kind; smallest input shown]", replay, tags=tags)
        return {" / ".join(t): g[0] for t, g in sorted(self.groups.items())}
