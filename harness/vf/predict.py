"""Binding of spec/Predict.tla (C18) to the real estimators: the TLC enumeration of selections, the catalogue of fitted
states (every inductive estimator class x a few hyper-parameter variants), the training data and the query rows."""
import numpy as np
from . import tlc, params
from .common import NCPU, MachineryError

NCH = 16
D = 3
INDUCTIVE = ["LinearModel", "LinearMMD", "LinearWasserstein", "RIM", "KernelRIM", "MLPModel", "MLPMMD", "MLPWasserstein",
             "SparseLinearModel", "SparseLinearMMD", "SparseLinearMI", "SparseMLPModel", "SparseMLPMMD", "Douglas", "Kauri"]
TREES = ("Kauri",)


def enumerate_selections(M, L, NT, NV=2, timeout=900):
    """Every sequence over 1..M of length 1..L, one JSON record each (TLC also checks the laws of Predict.tla)."""
    c = tlc.cfg(constants=dict(M=M, L=L, NT=NT, NV=NV, NCH=NCH, CHUNKS=set(range(NCH))),
                invariants=["TypeOK", "LawsHold", "NotVacuous", "Emit"])
    r = tlc.run("Predict", c, workers=NCPU, timeout=timeout, coverage=M <= 4)     # (periodic coverage dumps add up on long runs)
    want = sum(M ** l for l in range(1, L + 1))
    sels = {tuple(p["sel"]) for p in r.prints}
    if len(r.prints) != want or len(sels) != want or r.distinct != 1 + NCH + want:      # Init + chunks + one state per selection
        raise MachineryError(f"Predict.tla emitted {len(r.prints)} selections ({len(sels)} distinct), expected {want}")
    for p in r.prints:
        if p["m"] != M or p["nt"] != NT or len(p["rows"]) != len(p["sel"]):
            raise MachineryError(f"malformed selection record {p}")
    return r


# ---------------------------------------------------------------------------------------------------------------
# data
def train_data(n, seed):
    """n x 3 generic floats: three loose groups (so that clusterings and trees are not degenerate)."""
    rs = np.random.RandomState(1000 + seed)
    centers = rs.uniform(-2.0, 2.0, size=(3, D))
    return centers[np.arange(n) % 3] + 0.4 * rs.normal(size=(n, D))


TRAIN_ROWS = (1, -2)          # the two training rows copied into a mixed query (ids 1..NT = 2 of the spec)


def mixed_query(X, M):
    """M query rows: two training rows, a new interior point, a far out-of-range point (M = 5: a second far point on the
    other side).  Returns (Q, description of each row)."""
    i, j = TRAIN_ROWS
    rows = [X[i].copy(), X[j].copy(), 0.5 * (X[0] + X[2]) + np.array([0.013, -0.007, 0.021]),
            np.array([X[:, 0].max() + 80.0, X[:, 1].min() - 120.0, X[:, 2].max() + 45.0])]
    what = [f"training row {i}", f"training row {j}", "new interior point", "far out-of-range point"]
    if M >= 5:
        rows.append(X.min(axis=0) - np.array([70.0, 33.0, 51.0]))
        what.append("far out-of-range point (other side)")
    for k in range(5, M):
        rows.append(0.25 * X[k % len(X)] + 0.75 * X[(k + 3) % len(X)])
        what.append("new interior point")
    return np.array(rows[:M], dtype=np.float64), what[:M]


# ---------------------------------------------------------------------------------------------------------------
# a callable base kernel for KernelRIM that records what it is asked to compare
class SpyKernel:
    """k(x, y) = exp(-|x - y|_1 / 4); logs (X, Y) of every call."""

    def __init__(self):
        self.calls = []

    def __call__(self, X, Y=None):
        X = np.asarray(X, dtype=np.float64)
        Y = X if Y is None else np.asarray(Y, dtype=np.float64)
        self.calls.append((X.copy(), Y.copy()))
        return np.exp(-np.abs(X[:, None, :] - Y[None, :, :]).sum(-1) / 4.0)


def _spy(c):
    return SpyKernel()


def _wass_pre(c):
    from gemclus.gemini import WassersteinGEMINI
    return WassersteinGEMINI(metric="precomputed")


# (class, variant id, constructor arguments (callables are factories evaluated per state), n, y: None | "kernel" | "dist")
_T = True
CATALOG = [
    ("LinearModel", "a", dict(n_clusters=2, gemini="mmd_ova"), 8, None),
    ("LinearModel", "b", dict(n_clusters=3, gemini="kl_ovo", batch_size=4, solver="sgd"), 9, None),
    ("LinearModel", "c", dict(n_clusters=4, gemini=_wass_pre, batch_size=5), 10, "dist"),
    ("LinearMMD", "a", dict(n_clusters=3, kernel="rbf"), 8, None),
    ("LinearMMD", "b", dict(n_clusters=2, kernel="precomputed", ovo=_T, batch_size=5), 10, "kernel"),
    ("LinearMMD", "c", dict(n_clusters=4, kernel="rbf", kernel_params={"gamma": 0.3}, solver="sgd"), 9, None),
    ("LinearWasserstein", "a", dict(n_clusters=3, metric="euclidean"), 9, None),
    ("LinearWasserstein", "b", dict(n_clusters=2, metric="precomputed", ovo=_T, batch_size=4), 8, "dist"),
    ("LinearWasserstein", "c", dict(n_clusters=4, metric="manhattan", batch_size=3), 10, None),
    ("RIM", "a", dict(n_clusters=2, reg=0.5), 8, None),
    ("RIM", "b", dict(n_clusters=4, reg=0.01, batch_size=3, solver="sgd"), 10, None),
    ("RIM", "c", dict(n_clusters=3, reg=0.0), 9, None),
    ("KernelRIM", "a", dict(n_clusters=3, reg=0.1, base_kernel="linear"), 8, None),
    ("KernelRIM", "b", dict(n_clusters=2, reg=0.5, base_kernel="rbf", base_kernel_params={"gamma": 4.0}, batch_size=4), 9, None),
    ("KernelRIM", "c", dict(n_clusters=3, reg=0.2, base_kernel=_spy), 10, None),
    ("KernelRIM", "d", dict(n_clusters=2, reg=0.05, base_kernel="polynomial", base_kernel_params={"degree": 2, "coef0": 0.0, "gamma": 2.0},
                            solver="sgd"), 8, None),
    ("MLPModel", "a", dict(n_clusters=2, gemini="tv_ova", n_hidden_dim=3), 8, None),
    ("MLPModel", "b", dict(n_clusters=3, gemini="mmd_ovo", n_hidden_dim=7, batch_size=4), 9, None),
    ("MLPModel", "c", dict(n_clusters=4, gemini="hellinger_ova", n_hidden_dim=1, solver="sgd"), 10, None),
    ("MLPMMD", "a", dict(n_clusters=3, kernel="rbf", n_hidden_dim=4), 9, None),
    ("MLPMMD", "b", dict(n_clusters=2, kernel="linear", ovo=_T, n_hidden_dim=2, batch_size=3), 8, None),
    ("MLPMMD", "c", dict(n_clusters=3, kernel="precomputed", n_hidden_dim=5), 10, "kernel"),
    ("MLPWasserstein", "a", dict(n_clusters=3, metric="euclidean", n_hidden_dim=5), 9, None),
    ("MLPWasserstein", "b", dict(n_clusters=2, metric="manhattan", ovo=_T, n_hidden_dim=2, batch_size=5), 10, None),
    ("MLPWasserstein", "c", dict(n_clusters=4, metric="precomputed", n_hidden_dim=3), 8, "dist"),
    ("SparseLinearModel", "a", dict(n_clusters=2, gemini="mmd_ova", alpha=0.05), 8, None),
    ("SparseLinearModel", "b", dict(n_clusters=3, gemini="chi2_ova", groups=[[0, 1]], alpha=0.02, batch_size=4), 9, None),
    ("SparseLinearModel", "c", dict(n_clusters=3, gemini="wasserstein_ova", dynamic=_T, alpha=0.01), 10, None),
    ("SparseLinearMMD", "a", dict(n_clusters=2, kernel="linear", alpha=0.05), 8, None),
    ("SparseLinearMMD", "b", dict(n_clusters=3, kernel="rbf", ovo=_T, groups=[[0], [1, 2]], alpha=0.02, batch_size=4), 10, None),
    ("SparseLinearMMD", "c", dict(n_clusters=2, kernel="linear", dynamic=_T, alpha=0.3), 9, None),
    ("SparseLinearMI", "a", dict(n_clusters=2, alpha=0.05), 8, None),
    ("SparseLinearMI", "b", dict(n_clusters=3, alpha=0.01, groups=[[0, 2]], batch_size=4, solver="sgd"), 9, None),
    ("SparseMLPModel", "a", dict(n_clusters=3, gemini="hellinger_ovo", n_hidden_dim=3, M=2.0, alpha=0.05), 9, None),
    ("SparseMLPModel", "b", dict(n_clusters=2, gemini="mmd_ova", n_hidden_dim=6, M=10.0, groups=[[0, 1]], alpha=0.02,
                                 batch_size=4), 8, None),
    ("SparseMLPModel", "c", dict(n_clusters=3, gemini="tv_ova", n_hidden_dim=2, M=0.5, dynamic=_T, alpha=0.1), 10, None),
    ("SparseMLPMMD", "a", dict(n_clusters=2, kernel="linear", n_hidden_dim=2, alpha=0.05), 8, None),
    ("SparseMLPMMD", "b", dict(n_clusters=3, kernel="rbf", ovo=_T, n_hidden_dim=5, dynamic=_T, alpha=0.02, batch_size=5), 10, None),
    ("SparseMLPMMD", "c", dict(n_clusters=3, kernel="linear", groups=[[1, 2]], n_hidden_dim=3, alpha=0.01, solver="sgd"), 9, None),
    ("Douglas", "a", dict(n_clusters=2, gemini="chi2_ova", n_cuts=1, temperature=0.5), 8, None),
    ("Douglas", "b", dict(n_clusters=3, gemini="wasserstein_ova", n_cuts=2, temperature=0.1, batch_size=4), 9, None),
    ("Douglas", "c", dict(n_clusters=4, gemini="mmd_ova", n_cuts=3, temperature=2.0,
                          feature_mask=lambda c: np.array([True, False, True])), 10, None),
    ("Kauri", "a", dict(max_clusters=2), 8, None),
    ("Kauri", "b", dict(max_clusters=3, max_depth=2, min_samples_split=4, min_samples_leaf=2), 10, None),
    ("Kauri", "c", dict(max_clusters=4, max_depth=1, kernel="rbf"), 9, None),
    ("Kauri", "d", dict(max_clusters=3, max_leaves=3, max_features=2), 10, None),
    # the same kind of data far from the origin (values near 1e6 with gaps well below 1): routing compares exactly, at any magnitude
    ("Kauri", "e-offset", dict(max_clusters=3, kernel="rbf", _offset=1.0e6), 10, None),
]
_GRADIENT = dict(max_iter=4, learning_rate=0.05)


class State:
    """One fitted estimator with its training data and its query rows."""

    def __init__(self, sid, cls, kw, X, y, qmode, M):
        self.sid, self.cls, self.kw, self.X, self.y, self.qmode = sid, cls, kw, X, y, qmode
        self.model = None
        if qmode == "train":                   # the query rows ARE the training array (n_train = M, NT = M)
            self.Q, self.what, self.nt = X.copy(), [f"training row {i}" for i in range(len(X))], len(X)
            self.train_of = list(range(len(X)))
        else:
            self.Q, self.what = mixed_query(X, M)
            self.nt = len(TRAIN_ROWS)
            self.train_of = [t % len(X) for t in TRAIN_ROWS]     # query row r (< nt) is training row train_of[r]

    def describe(self):
        kw = {k: (type(v).__name__ if callable(v) or hasattr(v, "__dict__") else
                  (v.tolist() if isinstance(v, np.ndarray) else v)) for k, v in self.kw.items()}
        return f"{self.cls}({', '.join(f'{k}={v!r}' for k, v in kw.items())}) fitted on {self.X.shape[0]}x{self.X.shape[1]} data"


def _affinity(X, kind):
    if kind == "kernel":
        return X @ X.T
    if kind == "dist":
        return np.sqrt(((X[:, None, :] - X[None, :, :]) ** 2).sum(-1))
    return None


def build_state(cls, vid, kw, n, ykind, seed, qmode, M):
    kw = {k: (v(None) if callable(v) else v) for k, v in kw.items()}
    if qmode == "train":
        n = M
        for k in ("n_clusters", "max_clusters"):
            if k in kw:
                kw[k] = min(kw[k], 2)
        if "batch_size" in kw:
            kw["batch_size"] = min(kw["batch_size"], 3)
        if cls == "Kauri":
            kw.update(min_samples_split=2, min_samples_leaf=1, max_depth=None)
    kw["random_state"] = seed
    if cls != "Kauri":
        kw = {**_GRADIENT, **kw}
    kw = dict(kw)
    X = train_data(n, seed) + kw.pop("_offset", 0.0)
    y = _affinity(X, ykind)
    st = State(f"{cls}/{vid}" + ("/train-as-query" if qmode == "train" else ""), cls, kw, X, y, qmode, M)
    model = params.resolve(cls)(**kw)
    try:
        st.Xfit = np.ascontiguousarray(X, dtype=np.float64).copy()          # the very array object handed to fit
        with params.quiet():
            model.fit(st.Xfit, None if y is None else y.copy())
    except Exception as e:
        raise MachineryError(f"catalogue state {st.sid} cannot be fitted: {type(e).__name__}: {e}")
    st.model = model
    return st


def state_specs(tier, M, seed0=0):
    """(state id, thunk building the fitted state) for every state of a tier."""
    missing = set(INDUCTIVE) - {c[0] for c in CATALOG}
    reg = {k for k in params.ESTIMATORS if not k.startswith("Categorical")}
    if missing or reg != set(INDUCTIVE):
        raise MachineryError(f"catalogue does not cover the registry: missing {sorted(missing)}, registry {sorted(reg)}")
    out = []

    def add(cls, vid, kw, n, ykind, seed, qmode):
        sid = f"{cls}/{vid}" + ("/train-as-query" if qmode == "train" else "")
        out.append((sid, lambda: build_state(cls, vid, kw, n, ykind, seed, qmode, M)))
    for s in ([0] if tier == "quick" else [0, 1]):
        for k, (cls, vid, kw, n, ykind) in enumerate(CATALOG):
            add(cls, vid if s == 0 else f"{vid}-seed{s}", kw, n, ykind, seed0 + 7 * s + k % 5, "mixed")
    seen = set()
    for k, (cls, vid, kw, n, ykind) in enumerate(CATALOG):       # tiny states whose query IS the training array
        if cls in seen and not (cls == "KernelRIM" or tier == "thorough"):
            continue
        seen.add(cls)
        add(cls, vid, kw, n, ykind, seed0 + 3 + k % 4, "train")
    if tier == "thorough":
        out += family_specs(M, seed0)
    return out


def family_specs(M, seed0):
    """The model factories of vf.train (every gradient-trained family with each way an affinity can reach it)."""
    from . import train
    n = 9
    X = train_data(n, seed0 + 11)
    commons = [dict(n_clusters=3, max_iter=3, learning_rate=0.05, batch_size=None, random_state=5),
               dict(n_clusters=2, max_iter=3, learning_rate=0.1, batch_size=4, solver="sgd", random_state=6)]
    out = []

    def build(name, factory, y, j):
        model = factory(**commons[j])
        st = State(f"family:{name}/{j}", type(model).__name__, commons[j], X, y, "mixed", M)
        try:
            st.Xfit = np.ascontiguousarray(X, dtype=np.float64).copy()
            with params.quiet():
                model.fit(st.Xfit, None if y is None else np.array(y, dtype=float))
        except Exception as e:
            raise MachineryError(f"family state {st.sid} cannot be fitted: {type(e).__name__}: {e}")
        st.model = model
        return st
    for name, (factory, y, _) in train.family_builders(n, D).items():
        if name.startswith("Categorical"):
            continue
        for j in range(len(commons)):
            out.append((f"family:{name}/{j}", lambda name=name, factory=factory, y=y, j=j: build(name, factory, y, j)))
    return out
