import os, sys, json, time, hashlib, shutil, tempfile, contextlib

VERIF = os.path.dirname(os.path.dirname(os.path.dirname(os.path.abspath(__file__))))
REPO = os.environ.get("VERIF_REPO", "/repo")
SPEC = os.path.join(VERIF, "spec")
CACHE = os.path.join(VERIF, ".cache")
EVID = os.environ.get("VERIF_EVIDENCE_DIR") or os.path.join(VERIF, "evidence")
REPLAY = os.path.join(EVID, "replay")
SEED = int(os.environ.get("VERIF_SEED", "0") or 0)
NCPU = min(16, os.cpu_count() or 1)


class MachineryError(Exception):
    """The checking machinery itself failed (TLC error, overflow, timeout, parse error): exit code 2, never 1."""


def setup_env():
    os.environ.setdefault("OMP_NUM_THREADS", "1")
    os.environ.setdefault("OPENBLAS_NUM_THREADS", "1")
    os.environ.setdefault("MKL_NUM_THREADS", "1")
    os.environ.setdefault("PYTHONHASHSEED", "0")
    os.environ["GEMCLUS_VERIF"] = "1"
    if REPO not in sys.path:
        sys.path.insert(0, REPO)
    os.makedirs(CACHE, exist_ok=True)
    os.makedirs(REPLAY, exist_ok=True)


@contextlib.contextmanager
def scratch(prefix="run"):
    os.makedirs(CACHE, exist_ok=True)
    d = tempfile.mkdtemp(prefix=prefix + "-", dir=CACHE)
    try:
        yield d
    finally:
        shutil.rmtree(d, ignore_errors=True)


def sha(*parts):
    h = hashlib.sha256()
    for p in parts:
        if isinstance(p, str):
            p = p.encode()
        h.update(p)
        h.update(b"\0")
    return h.hexdigest()[:16]
