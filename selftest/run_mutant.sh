#!/bin/bash
# usage: selftest/run_mutant.sh <patch-file> <property-id> [tier]
# Applies the patch to a scratch copy of /repo (outside /repo and /verif), runs the check against it with
# VERIF_REPO, prints the exit code, and removes the copy.  Evidence goes to a scratch directory.
set -u
PATCH="$(readlink -f "$1")"; PID="$2"; TIER="${3:-quick}"
DIR="$(cd "$(dirname "${BASH_SOURCE[0]}")/.." && pwd)"
W="$(mktemp -d /tmp/vfmut-XXXXXX)"
trap 'rm -rf "$W"' EXIT
rsync -a --exclude .git --exclude doc --exclude examples /repo/ "$W/repo/"
( cd "$W/repo" && patch -p1 -s < "$PATCH" ) || { echo "PATCH-FAILED $PATCH"; exit 3; }
mkdir -p "$W/ev"
VERIF_REPO="$W/repo" VERIF_EVIDENCE_DIR="$W/ev" "$DIR/check" "$PID" --tier "$TIER" > "$W/out.txt" 2>&1
rc=$?
grep -E "^VIOLATION|^KNOWN-FINDING|^MACHINERY|^\[" "$W/out.txt" | head -8
grep -A1 "^VIOLATION" "$W/out.txt" | sed -n 2p
echo "MUTANT $(basename "$PATCH") property=$PID exit=$rc"
exit 0
