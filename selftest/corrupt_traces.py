#!/venv/bin/python
"""Binding demonstration: recorded traces of the REAL code are accepted by the trace specifications, and the same traces with
one logged field corrupted (or one event removed) are rejected.  Run:  /venv/bin/python selftest/corrupt_traces.py
Exit 0 when every original is accepted and every corruption is rejected."""
import copy, os, sys, warnings
HERE = os.path.dirname(os.path.abspath(__file__))
sys.path.insert(0, os.path.join(HERE, "..", "harness"))
sys.path.insert(0, os.path.join(HERE, ".."))
from vf.common import REPO
sys.path.insert(0, REPO)
import numpy as np
from vf import kauri, train, trace


def kauri_traces():
    X = [[0], [1], [3], [4], [7]]
    ev, _ = kauri.record_fit(dict(max_clusters=3, random_state=0), X)
    out = [("original Kauri fit", ev, True)]
    steps = [i for i, e in enumerate(ev) if e["e"] == "step" and e["gain"] > 0]
    c = copy.deepcopy(ev); c[steps[0]]["gain"] += 1
    out.append(("gain of the first split + 1/L", c, False))
    c = copy.deepcopy(ev); c[steps[0]]["lt"], c[steps[0]]["rt"] = c[steps[0]]["rt"], c[steps[0]]["lt"]
    out.append(("targets of the first split swapped", c, False))
    c = copy.deepcopy(ev); c[-1]["labels"][0] = 1 - c[-1]["labels"][0] if c[-1]["labels"][0] in (0, 1) else 0
    out.append(("one stored label changed", c, False))
    c = copy.deepcopy(ev); del c[steps[-1]]
    out.append(("last split event removed (hook missing)", c, False))
    c = copy.deepcopy(ev); c[-1]["tree"]["depth"][-1] += 1
    out.append(("depth of the last node + 1", c, False))
    return out, dict(N=5, D=1)


def train_traces():
    from gemclus.linear import LinearMMD
    rs = np.random.RandomState(0)
    X = rs.normal(size=(5, 2))
    with warnings.catch_warnings():
        warnings.simplefilter("ignore")
        ev, err = train.record_fit(LinearMMD(n_clusters=2, kernel="precomputed", max_iter=2, batch_size=2, random_state=0), X, train.id_affinity(5))
    assert err is None
    out = [("original LinearMMD fit", ev, True)]
    bi = [i for i, e in enumerate(ev) if e["e"] == "batch"]
    c = copy.deepcopy(ev); del c[bi[1]]
    out.append(("second batch event removed", c, False))
    c = copy.deepcopy(ev)
    key = next(k for k in ("ids", "rows", "idx") if k in c[bi[0]])
    c[bi[0]][key] = list(c[bi[0]][key][:-1]) + [c[bi[1]][key][0]]
    out.append((f"a sample of the first batch replaced by one of the second ({key})", c, False))
    return out, None


def main():
    bad = 0
    for module, (items, consts) in (("KauriTrace", kauri_traces()), ("TrainTrace", train_traces())):
        res = trace.validate(module, [t for _, t, _ in items], constants=consts)
        for k, (what, _, want) in enumerate(items, 1):
            got = k in res["accepted"]
            print(f"{module:11s} {'accepted' if got else 'rejected'}  {'ok ' if got == want else 'UNEXPECTED'}  {what}")
            bad += got != want
    return 1 if bad else 0


if __name__ == "__main__":
    sys.exit(main())
