#!/bin/bash
# usage: selftest/mkmut.sh <name> <file relative to repo> <python-expr-old> <python-expr-new>
# writes selftest/mutants/<name>.diff replacing the first occurrence of OLD by NEW in the file
set -e
NAME="$1"; F="$2"; OLD="$3"; NEW="$4"
W="$(mktemp -d /tmp/vfmk-XXXXXX)"; trap 'rm -rf "$W"' EXIT
mkdir -p "$W/a/$(dirname "$F")" "$W/b/$(dirname "$F")"
cp "/repo/$F" "$W/a/$F"
OLD="$OLD" NEW="$NEW" python3 - "$W/a/$F" "$W/b/$F" <<'PY'
import os, sys
s = open(sys.argv[1]).read()
old, new = os.environ["OLD"], os.environ["NEW"]
assert old in s, "pattern not found: " + old
open(sys.argv[2], "w").write(s.replace(old, new, 1))
PY
( cd "$W" && diff -u "a/$F" "b/$F" > "$W/out.diff" || true )
cp "$W/out.diff" "$(dirname "$0")/mutants/$NAME.diff"
echo "wrote $NAME.diff ($(wc -l < "$W/out.diff") lines)"
