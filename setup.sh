#!/bin/bash
# Offline setup: nothing to download or compile; sanity-check the tools the checks rely on.
set -e
cd "$(dirname "$0")"
command -v java >/dev/null
test -f /opt/veriftools/tla/tla2tools.jar
/venv/bin/python -c "import numpy, scipy, sklearn, ot"
mkdir -p .cache evidence/replay
echo "setup ok"
